"""C01: seeded, type-directed generator of source programs (tuples of props/C01/srcl.py) that are valid
Fortran: integer / real (integer-valued) / logical scalars and arrays with arbitrary lower bounds,
nested DO (zero-trip, negative step, missing step), IF / ELSE IF / one-line IF, EXIT / CYCLE,
SELECT CASE (value lists, ranges, open ranges, CASE DEFAULT in any position, integer and logical
selectors), WHERE / ELSEWHERE (1-D and 2-D, full-range operands with different lower bounds, explicit
sections on the right-hand side / mask), array assignments with sections, intrinsics
MIN MAX MOD ABS SIGN SIZE LBOUND UBOUND (dim= named or positional), module procedures and functions
called with positional and named arguments, unsupported statements (kept as code blocks).

Subscripts are kept in bounds by construction (the evaluator re-checks).  Shapes known to be
mis-handled by the unchanged reader are only produced when `defects` asks for them."""

INT_SCALARS = ["n", "m", "s", "t"]
REAL_SCALARS = ["x", "y"]
LOG_SCALARS = ["p", "q"]
LOOPVARS = ["i", "j", "k"]
LBS = [1, 1, 1, -2, -1, 0, 3, 2]
RELS = ["Lt", "Le", "Gt", "Ge", "Eq", "Ne"]


class SGen:
    def __init__(self, rng, defects=(), procs=False, clash=False, lbs=None, allow_cb=False, simple=False):
        r = self.r = rng
        self.defects = set(defects)
        self.simple = simple          # only constructs covered by the Coq model coq/C01
        self.N = N = r.choice([3, 4, 5, 6])
        self.M2 = r.choice([2, 3, 4])
        lbs = lbs or LBS
        self.arr = {}

        def mk(name, ty, exts):
            bs = []
            for ext in exts:
                lb = r.choice(lbs)
                bs.append((lb, lb + ext - 1))
            self.arr[name] = (ty, bs, "plain" if all(b[0] == 1 for b in bs) and r.random() < 0.6 else "full")
        for a in ("a", "b", "c"):
            mk(a, "integer", [N])
        mk("r", "real", [N])
        mk("lm", "logical", [N])
        mk("h", "integer", [N + 1])
        mk("g", "integer", [2 * N + 1])
        mk("d", "integer", [N, self.M2])
        mk("e", "integer", [N, self.M2])
        self.extra_scalars = ["widx1"] if clash else []
        self.mod = None
        self.procs = self.make_procs() if procs else []
        self.allow_cb = allow_cb
        self.in_where_assigned = set()

    # ------------------------------------------------------------------ declarations / stores
    def decls(self):
        d = [(v, "integer", []) for v in LOOPVARS + INT_SCALARS + self.extra_scalars]
        d += [(v, "real", []) for v in REAL_SCALARS]
        d += [(v, "logical", []) for v in LOG_SCALARS]
        d += [(a, ty, bs, how) for a, (ty, bs, how) in sorted(self.arr.items())]
        return d

    def bnds(self):
        return {a: list(bs) for a, (ty, bs, how) in self.arr.items()}

    def store(self, r=None):
        r = r or self.r
        vals = {}
        for v in LOOPVARS + INT_SCALARS + REAL_SCALARS + self.extra_scalars:
            vals[(v, ())] = r.randint(-3, 6)
        vals[("n", ())] = r.choice([0, 1, 2, 3, 4])
        for v in LOG_SCALARS:
            vals[(v, ())] = r.randint(0, 1)
        for a, (ty, bs, how) in self.arr.items():
            if len(bs) == 1:
                idx = [(i,) for i in range(bs[0][0], bs[0][1] + 1)]
            else:
                idx = [(i, j) for i in range(bs[0][0], bs[0][1] + 1) for j in range(bs[1][0], bs[1][1] + 1)]
            for ix in idx:
                vals[(a, ix)] = r.randint(0, 1) if ty == "logical" else r.randint(-4, 9)
        return vals

    # ------------------------------------------------------------------ scalar expressions
    def subscript(self, env, lb, ub):
        r = self.r
        cands = []
        for v, (lo, hi) in env.items():
            for d in (0, 0, 1, -1, 2):
                if lo + d >= lb and hi + d <= ub:
                    cands.append(("var", v) if d == 0 else ("bin", "Add" if d > 0 else "Sub", ("var", v), ("lit", abs(d))))
        if cands and r.random() < 0.75:
            return r.choice(cands)
        return ("lit", r.randint(lb, ub))

    def elt(self, a, env):
        return ("idx", a, [self.subscript(env, lb, ub) for lb, ub in self.arr[a][1]])

    def inq(self):
        r = self.r
        a = r.choice(sorted(self.arr))
        return ("inq", r.choice(["ISize", "ILbound", "IUbound"]), a, r.randint(1, len(self.arr[a][1])), r.random() < 0.5)

    def iexpr(self, env, depth=0, where=False):
        """integer scalar expression; inside a WHERE (`where`) only scalars and the read-only array h"""
        r = self.r
        c = r.random()
        if depth >= 2 or c < 0.3:
            c2 = r.random()
            if c2 < 0.3:
                return ("lit", r.randint(-3, 5))
            if c2 < 0.6:
                return ("var", r.choice(INT_SCALARS + list(env) + self.extra_scalars))
            if c2 < 0.68:
                return self.inq()
            if where:
                return self.elt("h", env)
            return self.elt(r.choice(["a", "b", "c", "g", "h", "d", "e"]), env)
        if c < 0.7:
            return ("bin", r.choice(["Add", "Sub", "Mul", "Add"]), self.iexpr(env, depth + 1, where), self.iexpr(env, depth + 1, where))
        if c < 0.76:
            return ("un", "Neg", self.iexpr(env, depth + 1, where))
        if c < 0.86:
            n = r.choice([2, 2, 3])
            return ("intr", r.choice(["IMin", "IMax"]), [self.iexpr(env, depth + 1, where) for _ in range(n)])
        if c < 0.9:
            return ("intr", "IAbs", [self.iexpr(env, depth + 1, where)])
        if c < 0.94:
            return ("intr", "ISign", [self.iexpr(env, depth + 1, where), self.iexpr(env, depth + 1, where)])
        if c < 0.97:
            return ("intr", "IMod", [self.iexpr(env, depth + 1, where), ("lit", r.choice([2, 3, -2]))])
        if self.procs and not where and r.random() < 0.6:
            f = r.choice([p for p in self.procs if p["kind"] == "fun"])
            args = [self.iexpr(env, 2) for _ in f["dummies"]]
            if r.random() < 0.5:
                named = [(d[0], a) for d, a in zip(f["dummies"], args)]
                r.shuffle(named)
                return ("fcall", f["name"], named)
            return ("fcall", f["name"], [(None, a) for a in args])
        return ("bin", "Div", self.iexpr(env, depth + 1, where), ("lit", r.choice([2, 3, -2])))

    def rexpr(self, env, depth=0, where=False):
        """real scalar expression (integer-valued: + - * MIN MAX ABS SIGN only)"""
        r = self.r
        c = r.random()
        if depth >= 2 or c < 0.35:
            c2 = r.random()
            if c2 < 0.3:
                return ("rlit", r.randint(-3, 5))
            if c2 < 0.7 or where:
                return ("var", r.choice(REAL_SCALARS))
            return self.elt("r", env)
        if c < 0.75:
            other = self.rexpr(env, depth + 1, where) if r.random() < 0.6 else self.iexpr(env, 2, where)
            pair = [self.rexpr(env, depth + 1, where), other]
            r.shuffle(pair)
            return ("bin", r.choice(["Add", "Sub", "Mul"]), pair[0], pair[1])
        if c < 0.8:
            return ("un", "Neg", self.rexpr(env, depth + 1, where))
        if c < 0.9:
            return ("intr", r.choice(["IMin", "IMax"]), [self.rexpr(env, depth + 1, where), self.rexpr(env, depth + 1, where)])
        # (no SIGN on reals: the sign of a real zero (-0.0) is outside the integer-valued model)
        return ("intr", "IAbs", [self.rexpr(env, depth + 1, where)])

    def cond(self, env, depth=0, where=False):
        r = self.r
        c = r.random()
        if depth >= 2 or c < 0.6:
            if r.random() < 0.2:
                return ("bin", r.choice(RELS), self.rexpr(env, 1, where), self.rexpr(env, 1, where) if r.random() < 0.6 else self.iexpr(env, 1, where))
            return ("bin", r.choice(RELS), self.iexpr(env, 1, where), self.iexpr(env, 1, where))
        if c < 0.7:
            return ("var", r.choice(LOG_SCALARS))
        if c < 0.76 and not where:
            return self.elt("lm", env)
        if c < 0.84:
            return ("un", "Not", ("bin", r.choice(RELS), self.iexpr(env, 1, where), self.iexpr(env, 1, where)))
        return ("bin", r.choice(["And", "Or"]), self.cond(env, depth + 1, where), self.cond(env, depth + 1, where))

    # ------------------------------------------------------------------ array-valued expressions (extent N)
    def isec(self, env, names=("a", "b", "c")):
        r = self.r
        c = r.random()
        if c < 0.7 or self.simple:
            return ("sec", r.choice(names), [(":",)])
        if c < 0.85:
            lb, ub = self.arr["g"][1][0]
            lo = r.randint(lb, ub - self.N + 1)
            return ("sec", "g", [("rng", ("lit", lo), ("lit", lo + self.N - 1))])
        a = r.choice(["d", "e"])
        lb2, ub2 = self.arr[a][1][1]
        return ("sec", a, [(":",), self.subscript(env, lb2, ub2)])

    def aiexpr(self, env, depth=0, must=True):
        """integer array-valued expression of extent N (contains a section when `must`)"""
        r = self.r
        c = r.random()
        if depth >= 2 or c < 0.3:
            if must or r.random() < 0.6:
                return self.isec(env)
            return self.iexpr(env, 2, where=True)
        if c < 0.75:
            l = self.aiexpr(env, depth + 1, must)
            rr = self.aiexpr(env, depth + 1, False)
            if r.random() < 0.5:
                l, rr = rr, l
            return ("bin", r.choice(["Add", "Sub", "Mul", "Add"]), l, rr)
        if c < 0.8:
            return ("un", "Neg", self.aiexpr(env, depth + 1, must))
        if c < 0.9:
            return ("intr", r.choice(["IMin", "IMax"]), [self.aiexpr(env, depth + 1, must), self.aiexpr(env, depth + 1, False)])
        if c < 0.94:
            return ("intr", "IAbs", [self.aiexpr(env, depth + 1, must)])
        if c < 0.97:
            return ("intr", "ISign", [self.aiexpr(env, depth + 1, must), self.aiexpr(env, depth + 1, False)])
        return ("intr", "IMod", [self.aiexpr(env, depth + 1, must), ("lit", r.choice([2, 3, -2]))])

    def arexpr(self, env, depth=0):
        r = self.r
        c = r.random()
        if depth >= 1 or c < 0.4:
            return ("sec", "r", [(":",)])
        if c < 0.8:
            other = self.rexpr(env, 2, where=True) if r.random() < 0.5 else self.aiexpr(env, 2, False)
            pair = [self.arexpr(env, depth + 1), other]
            r.shuffle(pair)
            return ("bin", r.choice(["Add", "Sub", "Mul"]), pair[0], pair[1])
        if c < 0.9:
            return ("intr", r.choice(["IMin", "IMax"]), [self.arexpr(env, depth + 1), self.rexpr(env, 2, where=True)])
        return ("intr", "IAbs", [self.arexpr(env, depth + 1)])

    def acond(self, env, depth=0, first=None):
        """logical array-valued expression of extent N.  `first`: array name that must be the first
        section of the expression (the reader sizes the loop from it)."""
        r = self.r
        c = r.random()
        if first is not None:
            lhs = ("sec", first, [(":",)])
            if self.arr[first][0] == "logical":
                return lhs if r.random() < 0.5 else ("bin", "And", lhs, self.acond(env, 1))
            rhs = self.aiexpr(env, 1, False) if self.arr[first][0] == "integer" else self.rexpr(env, 1, where=True)
            e = ("bin", r.choice(RELS), lhs, rhs)
            return e if r.random() < 0.7 else ("bin", r.choice(["And", "Or"]), e, self.acond(env, 1))
        if depth >= 2 or c < 0.55:
            return ("bin", r.choice(RELS), self.aiexpr(env, 1, True), self.aiexpr(env, 1, False))
        if c < 0.65:
            return ("bin", r.choice(RELS), self.arexpr(env, 0), self.rexpr(env, 1, where=True))
        if c < 0.75:
            return ("sec", "lm", [(":",)])
        if c < 0.83:
            return ("un", "Not", ("bin", r.choice(RELS), self.aiexpr(env, 1, True), self.aiexpr(env, 1, False)))
        l = self.acond(env, depth + 1)
        rr = self.acond(env, depth + 1) if r.random() < 0.6 else self.cond(env, 2, where=True)
        return ("bin", r.choice(["And", "Or"]), l, rr)

    # ------------------------------------------------------------------ WHERE
    def good_first(self):
        """arrays whose WHERE loop the unchanged reader sizes correctly: lower bound 1 (declared upper bound
        = extent) or negative lower bound (declaration kept as unsupported type => SIZE is used)"""
        return [a for a in ("a", "b", "c", "r", "lm") if self.arr[a][1][0][0] == 1 or self.arr[a][1][0][0] < 0]

    def bad_first(self):
        return [a for a in ("a", "b", "c", "r", "lm") if a not in self.good_first()]

    def wassign(self, env):
        r = self.r
        c = r.random()
        if c < 0.6:
            return ("wassign", r.choice(["a", "b", "c"]), [(":",)], self.aiexpr(env, 0, r.random() < 0.7))
        if c < 0.75:
            return ("wassign", "r", [(":",)], self.arexpr(env) if r.random() < 0.7 else self.rexpr(env, 1, where=True))
        if c < 0.85 or self.simple:
            return ("wassign", "lm", [(":",)], self.acond(env, 1))
        a = r.choice(["d", "e"])
        lb2, ub2 = self.arr[a][1][1]
        return ("wassign", a, [(":",), self.subscript(env, lb2, ub2)], self.aiexpr(env, 1, True))

    def where1(self, env):
        """1-D WHERE construct / statement over the extent-N family"""
        r = self.r
        if "ubound" in self.defects and self.bad_first():
            first = r.choice(self.bad_first())
        elif self.good_first():
            first = r.choice(self.good_first())
        else:
            # every family array would trigger the loop-bound defect: size the loop from an explicit
            # section (handled correctly: extent = hi - lo + 1)
            first = None
        if first is None and self.simple:
            return self.assign(env)
        if first is None:
            lb, ub = self.arr["g"][1][0]
            lo = r.randint(lb, ub - self.N + 1)
            mask = ("bin", r.choice(RELS), ("sec", "g", [("rng", ("lit", lo), ("lit", lo + self.N - 1))]), self.aiexpr(env, 1, False))
        else:
            mask = self.acond(env, 0, first=first)
        if r.random() < 0.25:
            return ("wheres", mask, self.wassign(env))
        body = [self.wassign(env) for _ in range(r.randint(1, 3))]
        if "nested" in self.defects:
            inner = ("where", self.acond(env, 1), [self.wassign(env)], [])
            body.insert(r.randint(0, len(body)), inner)
        els = []
        for _ in range(r.choice([0, 0, 1, 1, 2])):
            els.append((self.acond(env, 1), [self.wassign(env) for _ in range(r.randint(1, 2))]))
        if r.random() < 0.5:
            els.append((None, [self.wassign(env) for _ in range(r.randint(1, 2))]))
        return ("where", mask, body, els)

    def where_stride(self, env):
        """WHERE with strided sections g(lo:hi:2) in the mask / right-hand side (the unchanged reader drops the stride)"""
        r = self.r
        lb, ub = self.arr["g"][1][0]
        st = 2

        def sec():
            lo = r.randint(lb, ub - 2 * (self.N - 1))
            return ("sec", "g", [("rng", ("lit", lo), ("lit", lo + 2 * (self.N - 1)), ("lit", st))])
        first = r.choice(self.good_first() or ["a"])
        if self.arr[first][0] != "integer":
            first = "a"
        if r.random() < 0.5:
            mask = ("bin", r.choice(RELS), sec(), self.iexpr(env, 2, where=True))
        else:
            mask = ("bin", r.choice(RELS), ("sec", first, [(":",)]), self.iexpr(env, 2, where=True))
        return ("where", mask, [("wassign", r.choice(["a", "b", "c"]), [(":",)], ("bin", "Add", sec(), self.aiexpr(env, 2, False)))], [])

    def where_red(self, env):
        """WHERE containing a reduction without dim= over a section (mis-lowered by the unchanged reader)"""
        r = self.r
        first = r.choice(self.good_first() or ["a"])
        red = ("red", r.choice(["SUM", "MAXVAL", "MINVAL"]), ("sec", r.choice(["a", "b", "c"]), [(":",)]))
        if self.arr[first][0] == "logical":
            first = "a"
        if r.random() < 0.5:
            mask = ("bin", r.choice(RELS), ("sec", first, [(":",)]), ("bin", "Add", red, self.iexpr(env, 2, where=True)))
            return ("wheres", mask, ("wassign", r.choice(["a", "b", "c"]), [(":",)], self.aiexpr(env, 1, True)))
        mask = ("bin", r.choice(RELS), ("sec", first, [(":",)]), self.iexpr(env, 2, where=True))
        return ("where", mask, [("wassign", r.choice(["a", "b", "c"]), [(":",)], ("bin", "Sub", ("sec", "a", [(":",)]), red))], [])

    def where2(self, env):
        """2-D WHERE over d / e"""
        r = self.r
        ok = [a for a in ("d", "e") if all(lb == 1 or lb < 0 for lb, _ in self.arr[a][1])]
        bad = [a for a in ("d", "e") if a not in ok]
        if "ubound" in self.defects and bad:
            first = r.choice(bad)
        elif ok:
            first = r.choice(ok)
        else:
            return self.where1(env)

        def sec2(a):
            return ("sec", a, [(":",), (":",)])

        def ae(depth=0):
            c = r.random()
            if depth >= 1 or c < 0.4:
                return sec2(r.choice(["d", "e"])) if r.random() < 0.75 else self.iexpr(env, 2, where=True)
            return ("bin", r.choice(["Add", "Sub", "Mul"]), ae(depth + 1), ae(depth + 1))
        mask = ("bin", r.choice(RELS), sec2(first), ae(1))
        body = [("wassign", r.choice(["d", "e"]), [(":",), (":",)], ae()) for _ in range(r.randint(1, 2))]
        els = []
        if r.random() < 0.5:
            els.append((None, [("wassign", r.choice(["d", "e"]), [(":",), (":",)], ae())]))
        return ("where", mask, body, els)

    # ------------------------------------------------------------------ array assignments
    def aassign(self, env):
        r = self.r
        c = r.random()
        if c < 0.4:
            return ("aassign", r.choice(["a", "b", "c"]), [(":",)], self.aiexpr(env, 0, r.random() < 0.8))
        if c < 0.55:
            a = r.choice(["a", "b", "c", "g"])
            lb, ub = self.arr[a][1][0]
            ext = r.randint(1, min(3, ub - lb + 1))
            lo = r.randint(lb, ub - ext + 1)
            src = r.choice(["a", "b", "c", "g", "h"])
            lb2, ub2 = self.arr[src][1][0]
            if ub2 - lb2 + 1 < ext:
                src, lb2, ub2 = a, lb, ub
            lo2 = r.randint(lb2, ub2 - ext + 1)
            rhs = ("sec", src, [("rng", ("lit", lo2), ("lit", lo2 + ext - 1))])
            if r.random() < 0.5:
                rhs = ("bin", r.choice(["Add", "Mul"]), rhs, self.iexpr(env, 2))
            return ("aassign", a, [("rng", ("lit", lo), ("lit", lo + ext - 1))], rhs)
        if c < 0.7:
            return ("aassign", "r", [(":",)], self.arexpr(env))
        if c < 0.85:
            return ("aassign", "lm", [(":",)], self.acond(env, 1))
        a = r.choice(["d", "e"])
        lb2, ub2 = self.arr[a][1][1]
        return ("aassign", a, [(":",), self.subscript(env, lb2, ub2)], self.aiexpr(env, 1, True))

    # ------------------------------------------------------------------ SELECT CASE
    def select(self, env, depth, in_loop):
        r = self.r
        logical_sel = r.random() < 0.2
        if logical_sel:
            sel = ("var", r.choice(LOG_SCALARS)) if r.random() < 0.7 else ("bin", r.choice(RELS), self.iexpr(env, 2), self.iexpr(env, 2))
            kinds = [[("v", ("blit", 1))], [("v", ("blit", 0))]]
            r.shuffle(kinds)
            kinds = kinds[:r.randint(1, 2)]
            clauses = [(vals, self.block(env, depth + 1, in_loop, r.randint(1, 2))) for vals in kinds]
        else:
            sel = self.iexpr(env, r.choice([0, 1, 2]))
            # partition of a window of integers into disjoint items
            pts = sorted(r.sample(range(-5, 9), r.randint(2, 7)))
            items = []
            i = 0
            if r.random() < 0.25:
                items.append(("r", None, ("lit", pts[0])))
                i = 1
            while i < len(pts):
                if i + 1 < len(pts) and r.random() < 0.4:
                    items.append(("r", ("lit", pts[i]), ("lit", pts[i + 1])))
                    i += 2
                else:
                    items.append(("v", ("lit", pts[i])))
                    i += 1
            if r.random() < 0.25 and items and items[-1][0] == "v":
                items[-1] = ("r", items[-1][1], None)
            r.shuffle(items)
            ncl = r.randint(1, min(4, len(items)))
            groups = [[] for _ in range(ncl)]
            for n, it in enumerate(items):
                groups[n % ncl if n < ncl else r.randrange(ncl)].append(it)
            clauses = [(g, self.block(env, depth + 1, in_loop, r.randint(1, 2))) for g in groups]
        if r.random() < 0.65:
            clauses.insert(r.randint(0, len(clauses)), (None, self.block(env, depth + 1, in_loop, r.randint(1, 2))))
        # a construct with CASE DEFAULT only -- for integer selectors only: gfortran 12.2 does not execute the
        # block of `select case (<logical>); case default; ...` (compiler defect; found by the differential run)
        if r.random() < 0.05 and not logical_sel:
            clauses = [(None, self.block(env, depth + 1, in_loop, 1))]
        return ("select", sel, clauses)

    # ------------------------------------------------------------------ statements
    def assign(self, env):
        r = self.r
        c = r.random()
        if c < 0.5:
            t = self.elt(r.choice(["a", "b", "c", "g", "d", "e"]), env)
            return ("assign", t[1], t[2], self.iexpr(env))
        if c < 0.7:
            return ("assign", r.choice(["s", "t", "m"]), [], self.iexpr(env))
        if c < 0.8:
            return ("assign", r.choice(REAL_SCALARS), [], self.rexpr(env))
        if c < 0.88:
            t = self.elt("r", env)
            return ("assign", "r", t[2], self.rexpr(env))
        if c < 0.95:
            return ("assign", r.choice(LOG_SCALARS), [], self.cond(env))
        t = self.elt("lm", env)
        return ("assign", "lm", t[2], self.cond(env))

    def loop(self, env, depth):
        r = self.r
        v = [x for x in LOOPVARS if x not in env][0]
        lo, hi = r.choice([(1, 4), (2, 5), (1, 3), (0, 3), (3, 2), (2, 2), (-1, 1)])
        st = r.choice([1, None, None, 2, -1, -1, -2])
        if st is not None and st < 0:
            bounds = (("lit", hi), ("lit", lo))
        else:
            bounds = (("lit", lo), ("lit", hi))
        rng_lo, rng_hi = min(lo, hi), max(lo, hi)
        if r.random() < 0.25 and (st is None or st > 0):
            bounds = (("lit", 1), ("var", "n"))
            rng_lo, rng_hi = 1, 4
        env2 = dict(env)
        env2[v] = (rng_lo, rng_hi)
        body = self.block(env2, depth + 1, True, r.randint(1, 3))
        return ("do", v, bounds[0], bounds[1], None if st is None else ("lit", st), body)

    def stmt(self, env, depth, in_loop):
        r = self.r
        c = r.random()
        if c < 0.34:
            return self.assign(env)
        if c < 0.46 and depth < 2 and len(env) < len(LOOPVARS):
            return self.loop(env, depth)
        if c < 0.56 and depth < 3:
            th = self.block(env, depth + 1, in_loop, r.randint(1, 2))
            el = self.block(env, depth + 1, in_loop, r.randint(0, 1))
            if in_loop and r.random() < 0.3:
                th = th + [(r.choice(["exit", "cycle"]),)]
            return ("if", self.cond(env), th, el)
        if c < 0.6 and depth < 3 and not self.simple:
            n = r.randint(2, 3)
            return ("elif", [(self.cond(env), self.block(env, depth + 1, in_loop, 1)) for _ in range(n)],
                    self.block(env, depth + 1, in_loop, r.randint(0, 1)))
        if c < 0.64 and not self.simple:
            return ("ifs", self.cond(env), self.assign(env))
        if c < 0.76 and depth < 3:
            return self.select(env, depth, in_loop)
        if c < 0.9:
            if "reduction" in self.defects and r.random() < 0.5:
                return self.where_red(env)
            if "stride" in self.defects and r.random() < 0.5:
                return self.where_stride(env)
            return self.where1(env) if (self.simple or r.random() < 0.85) else self.where2(env)
        if self.simple:
            return self.assign(env)
        if c < 0.97:
            return self.aassign(env)
        if self.procs and r.random() < 0.7:
            return self.call(env)
        if self.allow_cb:
            return ("cb", r.choice(["print *, s, t", "write(*,*) n + 1, m", "print *, a"]))
        return self.assign(env)

    def block(self, env, depth, in_loop, n):
        return [self.stmt(env, depth, in_loop) for _ in range(n)]

    def program(self, n=None):
        n = n or self.r.randint(2, 5)
        return self.block({}, 0, False, n)

    def focused(self, kinds):
        """a short program made only of the named constructs (no filler statements): used first by the quick
        tier, where reading a program is expensive"""
        out = []
        for k in kinds:
            if k == "select":
                out.append(self.select({}, 2, False))
            elif k == "where1":
                out.append(self.where_red({}) if "reduction" in self.defects else
                           self.where_stride({}) if "stride" in self.defects else self.where1({}))
            elif k == "where2":
                out.append(self.where2({}))
            elif k == "loop":
                out.append(self.loop({}, 1))
            elif k == "aassign":
                out.append(self.aassign({}))
            elif k == "elif":
                out.append(("elif", [(self.cond({}), [self.assign({})]) for _ in range(2)], [self.assign({})]))
            elif k == "ifs":
                out.append(("ifs", self.cond({}), self.assign({})))
            else:
                raise ValueError(k)
        return out

    # ------------------------------------------------------------------ module procedures
    def make_procs(self):
        r = self.r
        procs = []
        # subroutine with intent(inout) scalar
        procs.append(dict(name="addto", kind="sub", result=None,
                          dummies=[("u", "integer", "inout", None), ("v", "integer", "in", None)], locals=[],
                          body=[r.choice([
                              ("assign", "u", [], ("bin", "Add", ("var", "u"), ("var", "v"))),
                              ("select", ("var", "v"), [([("r", None, ("lit", 0))], [("assign", "u", [], ("bin", "Sub", ("var", "u"), ("lit", 1)))]),
                                                        (None, [("assign", "u", [], ("bin", "Add", ("var", "u"), ("var", "v")))])])])]))
        # subroutine with assumed-shape array: WHERE inside (loop sized by SIZE, LBOUND = 1)
        procs.append(dict(name="clamp", kind="sub", result=None,
                          dummies=[("arr", "integer", "inout", "assumed"), ("lo", "integer", "in", None)], locals=[],
                          body=[r.choice([
                              ("wheres", ("bin", "Lt", ("sec", "arr", [(":",)]), ("var", "lo")), ("wassign", "arr", [(":",)], ("var", "lo"))),
                              ("where", ("bin", "Gt", ("sec", "arr", [(":",)]), ("var", "lo")),
                               [("wassign", "arr", [(":",)], ("bin", "Sub", ("sec", "arr", [(":",)]), ("var", "lo")))],
                               [(None, [("wassign", "arr", [(":",)], ("un", "Neg", ("sec", "arr", [(":",)])))])])])]))
        # functions
        procs.append(dict(name="twice", kind="fun", result="z", dummies=[("w", "integer", "in", None)],
                          locals=[("z", "integer", [])],
                          body=[("assign", "z", [], ("bin", "Mul", ("lit", r.choice([2, 3])), ("var", "w")))]))
        procs.append(dict(name="pick", kind="fun", result="z",
                          dummies=[("w", "integer", "in", None), ("v", "integer", "in", None)],
                          locals=[("z", "integer", [])],
                          body=[("select", ("intr", "IMod", [("var", "w"), ("lit", 3)]),
                                 [([("v", ("lit", 0))], [("assign", "z", [], ("var", "v"))]),
                                  (None, [("assign", "z", [], ("bin", "Sub", ("var", "w"), ("var", "v")))]),
                                  ([("r", ("lit", 1), None)], [("assign", "z", [], ("intr", "IMax", [("var", "w"), ("var", "v")]))])])]))
        procs += self.make_state_procs()
        return procs

    def make_state_procs(self):
        """procedures that keep state between calls in static locals -- made static by a SAVE statement with a
        list, the SAVE attribute, a bare SAVE statement or an initial value --, use a local and a module
        PARAMETER and a module variable.  The declarations the reader keeps are part of the behaviour."""
        r = self.r
        self.mod = {"params": [("nmax", r.choice([2, 3, 4]))], "vars": [("mcount", r.randint(0, 3))]}
        mechs = [m for m in ("list", "attr", "bare", "init") if r.random() < 0.75]
        if "list" not in mechs and r.random() < 0.8:
            mechs.append("list")
        if not mechs:
            mechs = ["list"]
        out = []
        v = lambda n: ("var", n)
        for mech in mechs:
            c0, k = r.randint(1, 20), r.randint(1, 3)
            first = [("aassign", "hist", [(":",)], ("lit", 0)), ("assign", "first", [], ("blit", 0))]
            inits = {"first": 1}
            if mech == "init":
                inits["cnt"] = c0
                static = None
            else:
                first.insert(0, ("assign", "cnt", [], ("lit", c0)))
                static = {"mech": mech, "names": [] if mech == "bare" else ["cnt", "hist"]}
            if mech == "init":
                static = {"mech": "attr", "names": ["hist"]}      # the array is saved through the attribute
            body = [("if", v("first"), first, []),
                    ("assign", "cnt", [], ("bin", "Add", v("cnt"), ("bin", "Mul", v("step"), v("kp")))),
                    ("assign", "tmp", [], ("idx", "hist", [("lit", 0)])),
                    ("assign", "hist", [("lit", 0)], ("idx", "hist", [("lit", 1)])),
                    ("assign", "hist", [("lit", 1)], ("idx", "hist", [("lit", 2)])),
                    ("assign", "hist", [("lit", 2)], v("cnt")),
                    ("assign", "mcount", [], ("bin", "Add", v("mcount"), ("lit", 1))),
                    ("assign", "res", [], ("bin", "Add", ("bin", "Add", v("cnt"), v("tmp")), v("mcount")))]
            out.append(dict(name="tick_" + mech, kind="sub", result=None, stateful=True,
                            dummies=[("step", "integer", "in", None), ("res", "integer", "out", None)],
                            params=[("kp", ("bin", "Mul", ("lit", k), v("nmax")))],
                            locals=[("cnt", "integer", []), ("hist", "integer", [(0, 2)]), ("first", "logical", []),
                                    ("tmp", "integer", [])],
                            inits=inits, static=static, body=body))
        return out

    def state_call(self, p, env=None):
        r = self.r
        args = [("step", ("bin", "Add", self.iexpr(env or {}, 2, where=True), ("lit", r.randint(0, 2)))),
                ("res", ("var", r.choice(["s", "t", "m"])))]
        if r.random() < 0.5:
            r.shuffle(args)
            return ("call", p["name"], args)
        return ("call", p["name"], [(None, a[1]) for a in args])

    def with_state_calls(self, prog):
        """the program with two or three calls of every stateful procedure inserted at top level"""
        prog = list(prog)
        for p in self.procs:
            if p.get("stateful"):
                for _ in range(self.r.randint(2, 3)):
                    prog.insert(self.r.randint(0, len(prog)), self.state_call(p))
        return prog

    def call(self, env):
        r = self.r
        p = r.choice([q for q in self.procs if q["kind"] == "sub"])
        if p.get("stateful"):
            return self.state_call(p, env)
        if p["name"] == "addto":
            tgt = ("var", r.choice(["s", "t", "m"]))
            # actual arguments associated with intent(in) dummies are expressions over scalars and the
            # read-only array h (never a bare variable): no argument aliasing
            args = [("u", tgt), ("v", ("bin", "Add", self.iexpr(env, 1, where=True), ("lit", r.randint(0, 2))))]
        else:
            args = [("arr", ("var", r.choice(["a", "b", "c"]))), ("lo", ("bin", "Sub", self.iexpr(env, 2, where=True), ("lit", r.randint(0, 2))))]
        if r.random() < 0.5:
            r.shuffle(args)
            return ("call", p["name"], args)
        return ("call", p["name"], [(None, a[1]) for a in args])
