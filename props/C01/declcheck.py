"""C01: the declarations the reader keeps are part of the observable behaviour.  Cheap oracle evaluated
directly on FortranWriter output: every attribute of a source declaration that affects semantics -- type,
shape (bounds), static storage (SAVE attribute / SAVE statement with or without list / initial value /
module variable), PARAMETER and its value, initial value, INTENT -- must be present in the re-written
declaration of the same entity in the same scope.  Text level, case-insensitive; understands exactly the
declaration forms props/C01/gen.py produces and the forms FortranWriter emits for them (fail-closed: an
entity that cannot be found again is reported)."""
import re

TYPES = ("integer", "real", "logical")


def _split_top(txt, sep=","):
    out, depth, cur = [], 0, ""
    for ch in txt:
        if ch in "([":
            depth += 1
        elif ch in ")]":
            depth -= 1
        if ch == sep and depth == 0:
            out.append(cur)
            cur = ""
        else:
            cur += ch
    if cur.strip():
        out.append(cur)
    return [x.strip() for x in out]


def _value(txt, env):
    """integer value of a constant expression over literals and PARAMETER names; None if not understood"""
    t = txt.strip().lower().replace(".true.", "1").replace(".false.", "0")
    t = re.sub(r"(\d+)\.0*(?![\w.])", r"\1", t)
    t = re.sub(r"[a-z_]\w*", lambda m: str(env[m.group(0)]) if m.group(0) in env else "?", t)
    if not re.fullmatch(r"[0-9+\-*() ]+", t):
        return None
    try:
        return int(eval(t, {"__builtins__": {}}))        # digits, + - * ( ) only
    except Exception:                                     # noqa: BLE001
        return None


def _dims(txt, env):
    out = []
    for d in _split_top(txt):
        if d == ":":
            out.append(":")
            continue
        lo, hi = ("1", d) if ":" not in d else d.split(":", 1)
        vl, vh = _value(lo, env), _value(hi, env)
        out.append((vl, vh) if vl is not None and vh is not None else d.replace(" ", ""))
    return out


def parse(text):
    """-> {(scope, entity): attrs}; attrs: type, dims, static, parameter, init, intent"""
    ents, scope, stack = {}, None, []
    env = {}
    saves = {}           # scope -> True (bare) | set of names
    for raw in text.split("\n"):
        line = raw.split("!")[0].strip().lower()
        if not line:
            continue
        m = re.match(r"(module|program|subroutine|function)\s+(\w+)", line)
        if m and not line.startswith("module procedure"):
            stack.append(m.group(2))
            scope = m.group(2)
            continue
        if re.match(r"end\s*(module|program|subroutine|function)\b", line):
            if stack:
                stack.pop()
            scope = stack[-1] if stack else None
            continue
        m = re.match(r"save\b\s*(::)?\s*(.*)$", line)
        if m:
            names = [x for x in _split_top(m.group(2)) if x]
            if names:
                if saves.get(scope) is not True:
                    saves.setdefault(scope, set()).update(names)
            else:
                saves[scope] = True
            continue
        m = re.match(r"(%s)\b(.*?)::(.*)$" % "|".join(TYPES), line)
        if not m:
            continue
        ty, attrs, rest = m.group(1), _split_top(m.group(2).lstrip(",")), m.group(3)
        a = {"type": ty, "dims": None, "static": False, "parameter": False, "init": None, "intent": None}
        for at in attrs:
            at = at.replace(" ", "")
            if at.startswith("dimension("):
                a["dims"] = at[len("dimension("):-1]
            elif at == "save":
                a["static"] = True
            elif at == "parameter":
                a["parameter"] = True
            elif at.startswith("intent("):
                a["intent"] = at[len("intent("):-1]
        for e in _split_top(rest):
            me = re.match(r"(\w+)\s*(\((.*?)\))?\s*(=\s*(.*))?$", e)
            if not me:
                continue
            b = dict(a)
            if me.group(3) is not None:
                b["dims"] = me.group(3)
            if me.group(5) is not None:
                b["init"] = _value(me.group(5), env)
                if b["init"] is None:
                    b["init"] = me.group(5).replace(" ", "")
                if b["parameter"] and isinstance(b["init"], int):
                    env[me.group(1)] = b["init"]
                if not b["parameter"]:
                    b["static"] = True                  # an initial value implies SAVE
            b["dims"] = _dims(b["dims"], env) if b["dims"] is not None else None
            b["scope_kind_module"] = len(stack) == 1 and raw.strip() != "" and _is_module(text, scope)
            ents[(scope, me.group(1))] = b
    for (sc, n), b in ents.items():
        sv = saves.get(sc)
        if sv is True and b["intent"] is None and not b["parameter"]:
            b["static"] = True
        elif isinstance(sv, set) and n in sv:
            b["static"] = True
        if b.pop("scope_kind_module") and not b["parameter"]:
            b["static"] = True                          # module variables are static
    return ents


def _is_module(text, scope):
    return re.search(r"^\s*module\s+%s\s*$" % re.escape(scope or "?"), text, re.I | re.M) is not None


def compare(src_text, new_text):
    """-> list of human-readable differences (empty: every semantic attribute survives)"""
    a, b = parse(src_text), parse(new_text)
    out = []
    for key, x in sorted(a.items(), key=str):
        y = b.get(key)
        if y is None:
            out.append("%s in %s: declaration not found in the re-written text" % (key[1], key[0]))
            continue
        if x["type"] != y["type"]:
            out.append("%s in %s: type %s became %s" % (key[1], key[0], x["type"], y["type"]))
        if x["dims"] != y["dims"]:
            out.append("%s in %s: shape %s became %s" % (key[1], key[0], x["dims"], y["dims"]))
        if x["static"] and not y["static"]:
            out.append("%s in %s: static (SAVE) storage lost" % (key[1], key[0]))
        if x["parameter"] != y["parameter"]:
            out.append("%s in %s: PARAMETER attribute changed" % (key[1], key[0]))
        if x["init"] != y["init"]:
            out.append("%s in %s: initial/constant value %s became %s" % (key[1], key[0], x["init"], y["init"]))
        if x["intent"] is not None and y["intent"] is not None and x["intent"] != y["intent"]:
            out.append("%s in %s: intent(%s) became intent(%s)" % (key[1], key[0], x["intent"], y["intent"]))
        # (an INTENT that is merely dropped does not change the behaviour of a valid program: not reported)
    return out
