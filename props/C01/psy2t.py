"""C01: fail-closed serialiser PSyIR -> tuples.  Core constructs give exactly the tuples of
vlib.minifort (so `minifort.interp` / `stmts_to_coq` apply); on top of that: array sections
("sec"), array assignments ("aassign"), reductions ("red"), calls ("call"/"fcall") and code blocks
("cb", text).  Named `dim=` arguments of SIZE/LBOUND/UBOUND are made positional."""
from vlib import minifort as mf

OutOfSubset = mf.OutOfSubset
REDS = ("SUM", "MAXVAL", "MINVAL", "PRODUCT")


def expr(node):
    from psyclone.psyir import nodes as N
    if isinstance(node, N.Literal):
        return mf._lit(node)
    if isinstance(node, N.ArrayReference):
        if any(isinstance(c, N.Range) for c in node.indices):
            subs = []
            for i, c in enumerate(node.indices):
                if isinstance(c, N.Range):
                    if node.is_full_range(i):
                        subs.append((":",))
                    else:
                        st = c.step
                        if isinstance(st, N.Literal) and st.value == "1":
                            subs.append(("rng", expr(c.start), expr(c.stop)))
                        else:
                            subs.append(("rng", expr(c.start), expr(c.stop), expr(st)))
                else:
                    subs.append(expr(c))
            return ("sec", node.name.lower(), subs)
        return ("idx", node.name.lower(), [expr(c) for c in node.indices])
    if type(node) is N.Reference:
        return ("var", node.name.lower())
    if isinstance(node, N.UnaryOperation):
        o = node.operator.name
        e = expr(node.children[0])
        if o == "MINUS":
            return ("un", "Neg", e)
        if o == "PLUS":
            return e
        if o == "NOT":
            return ("un", "Not", e)
        raise OutOfSubset("unary " + o)
    if isinstance(node, N.BinaryOperation):
        o = node.operator.name
        if o in mf.BINOPS:
            return ("bin", mf.BINOPS[o], expr(node.children[0]), expr(node.children[1]))
        raise OutOfSubset("binary " + o)
    if isinstance(node, N.IntrinsicCall):
        nm = node.intrinsic.name
        names = list(node.argument_names)
        args = list(node.arguments)
        if nm in ("LBOUND", "UBOUND", "SIZE"):
            if len(args) != 2 or names[0] is not None or (names[1] or "dim").lower() != "dim":
                raise OutOfSubset("inquiry form")
            a0 = args[0]
            if isinstance(a0, N.ArrayReference):
                if not all(isinstance(c, N.Range) and a0.is_full_range(i) for i, c in enumerate(a0.indices)):
                    raise OutOfSubset("inquiry of a section")
            elif type(a0) is not N.Reference:
                raise OutOfSubset("inquiry argument")
            return ("intr", mf.INTRS[nm], [("var", a0.name.lower()), expr(args[1])])
        if nm in mf.INTRS:
            if any(names):
                raise OutOfSubset("named intrinsic argument")
            return ("intr", mf.INTRS[nm], [expr(c) for c in args])
        if nm in REDS:
            if len(args) != 1 or any(names):
                raise OutOfSubset("reduction form")
            return ("red", nm, expr(args[0]))
        raise OutOfSubset("intrinsic " + nm)
    if isinstance(node, N.Call):
        return ("fcall", node.routine.name.lower(),
                [(n.lower() if n else None, expr(a)) for n, a in zip(node.argument_names, node.arguments)])
    raise OutOfSubset("expression node %s" % type(node).__name__)


def stmts(nodes):
    return [stmt(n) for n in nodes]


def stmt(n):
    from psyclone.psyir import nodes as N
    if isinstance(n, N.Assignment):
        lhs = n.lhs
        if isinstance(lhs, N.ArrayReference):
            e = expr(lhs)
            if e[0] == "sec":
                return ("aassign", e[1], e[2], expr(n.rhs))
            return ("assign", e[1], e[2], expr(n.rhs))
        if type(lhs) is N.Reference:
            return ("assign", lhs.name.lower(), [], expr(n.rhs))
        raise OutOfSubset("lhs %s" % type(lhs).__name__)
    if isinstance(n, N.IfBlock):
        return ("if", expr(n.condition), stmts(n.if_body.children),
                stmts(n.else_body.children) if n.else_body else [])
    if type(n) is N.Loop:
        return ("do", n.variable.name.lower(), expr(n.start_expr), expr(n.stop_expr), expr(n.step_expr),
                stmts(n.loop_body.children))
    if isinstance(n, N.Return):
        return ("return",)
    if isinstance(n, N.CodeBlock):
        txt = "\n".join(str(a) for a in n.get_ast_nodes).strip()
        if txt.upper() == "EXIT":
            return ("exit",)
        if txt.upper() == "CYCLE":
            return ("cycle",)
        return ("cb", txt)
    if isinstance(n, N.Call):
        return ("call", n.routine.name.lower(),
                [(a.lower() if a else None, expr(x)) for a, x in zip(n.argument_names, n.arguments)])
    raise OutOfSubset("statement node %s" % type(n).__name__)


def routine(r):
    return stmts(r.children)


def is_core_expr(e):
    k = e[0]
    if k in ("lit", "var"):
        return True
    if k in ("idx", "intr"):
        return all(is_core_expr(x) for x in e[2])
    if k == "un":
        return is_core_expr(e[2])
    if k == "bin":
        return is_core_expr(e[2]) and is_core_expr(e[3])
    return False


def is_core(ss):
    """only constructs of vlib.minifort (so that minifort.interp and the Coq `exec` apply)"""
    for s in ss:
        k = s[0]
        if k == "assign":
            if not (all(is_core_expr(x) for x in s[2]) and is_core_expr(s[3])):
                return False
        elif k == "if":
            if not (is_core_expr(s[1]) and is_core(s[2]) and is_core(s[3])):
                return False
        elif k == "do":
            if not (all(is_core_expr(x) for x in s[2:5]) and is_core(s[5])):
                return False
        elif k in ("exit", "cycle", "return"):
            pass
        else:
            return False
    return True
