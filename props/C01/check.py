"""C01 -- Reading and re-writing Fortran preserves program behaviour.

Proof (coq/C01, coq/Properties/C01.v): SELECT CASE -> IF chain is semantics preserving for all
selectors / clause lists / stores; 1-D WHERE -> loop is semantics preserving under `safe_where`
(statement-major = element-major), and false of the reader as it is in three ways (refuted theorems).

Tie to /repo on every run (this file):
 (a) programs generated as Fortran TEXT (props/C01/gen.py) -> FortranReader -> FortranWriter -> re-read;
     the lowered PSyIR and the re-read PSyIR are evaluated on a grid of stores and compared with the
     source-level meaning given by props/C01/srcl.py (the property itself, evaluated directly);
     no internal error allowed; code blocks must be the text of source statements;
 (b) sampled in quick / bulk in thorough: original and re-written complete programs (module procedures,
     named arguments, functions) compiled with gfortran -fcheck=all and run: same stdout, and equal to
     the interpreter's prediction;
 (c) correspondence: the tree the real reader builds == `lower` computed in Coq (Corr.corr_check);
 (d) the known defects are replayed from their witnesses each run (KNOWN-FINDING only if they reproduce).
"""
import json
import os
import re
import threading
import time
import traceback
from pathlib import Path

from vlib import core, minifort as mf

import importlib.util
import sys

HERE = Path(__file__).resolve().parent
if str(HERE) not in sys.path:
    sys.path.insert(0, str(HERE))
for _m in ("srcl", "gen", "psy2t", "coqenc", "declcheck"):
    sys.modules.pop(_m, None)
import srcl      # noqa: E402
import gen       # noqa: E402
import psy2t     # noqa: E402
import coqenc    # noqa: E402
import declcheck  # noqa: E402

K_UBOUND = "where/upper-bound-as-extent"
K_NESTED = "where/nested-where-independent-loop"
K_REDUCT = "where/reduction-argument-indexed"
K_STRIDE = "where/strided-section-step-dropped"
K_DONAME = "do/construct-name-case-mismatch"


# ---------------------------------------------------------------------------------- implementation side
class Impl:
    def __init__(self):
        from psyclone.psyir.frontend.fortran import FortranReader
        from psyclone.psyir.backend.fortran import FortranWriter
        self.reader = FortranReader()
        self.writer = FortranWriter()

    def read(self, text):
        return self.reader.psyir_from_source(text)

    def write(self, psy):
        return self.writer(psy)


def known_decls(routine, arrays):
    """arrays whose declaration the reader holds as an ArrayType with literal bounds: name -> [(lb, ub)..]"""
    from psyclone.psyir.symbols import ArrayType, DataSymbol
    from psyclone.psyir.nodes import Literal
    out = {}
    for a in arrays:
        try:
            sym = routine.symbol_table.lookup(a)
        except KeyError:
            continue
        if not isinstance(sym, DataSymbol) or not isinstance(sym.datatype, ArrayType):
            continue
        bs = []
        for d in sym.datatype.shape:
            if isinstance(d, ArrayType.ArrayBounds) and isinstance(d.lower, Literal) and isinstance(d.upper, Literal):
                try:
                    bs.append((int(d.lower.value), int(d.upper.value)))
                except ValueError:
                    bs = None
                    break
            else:
                bs = None
                break
        if bs:
            out[a] = bs
    return out


def new_loop_vars(t, declared):
    """loop variables of the tree that the source does not declare, in pre-order"""
    out = []

    def go(ss):
        for s in ss:
            if s[0] == "do":
                if s[1] not in declared and s[1] not in out:
                    out.append(s[1])
                go(s[5])
            elif s[0] == "if":
                go(s[2])
                go(s[3])
    go(t)
    return out


# ---------------------------------------------------------------------------------- defect shapes
def shapes_of(prog, kd):
    """reason codes of the known defects whose triggering shape occurs in the source program"""
    out = set()
    for s in srcl.walk_stmts(prog):
        if s[0] not in ("where", "wheres"):
            continue
        body = [s[2]] if s[0] == "wheres" else list(s[2]) + [it for _, b in s[3] for it in b]
        if any(it[0] in ("where", "wheres") for it in body):
            out.add(K_NESTED)
        for e in srcl.where_exprs(s):
            for x in srcl.walk_expr(e):
                if x[0] == "red" and any(y[0] == "sec" for y in srcl.walk_expr(x[2])):
                    out.add(K_REDUCT)
        for e in srcl.where_exprs(s):
            for x in srcl.walk_expr(e):
                if x[0] == "sec" and any(sub[0] == "rng" and len(sub) > 3 for sub in x[2]):
                    out.add(K_STRIDE)
        f = srcl.first_section(s[1])
        if f is not None and all(sub[0] == ":" for sub in f[2]) and f[1] in kd:
            if any(lb != 1 for lb, _ in kd[f[1]]):
                out.add(K_UBOUND)
    return out


def has_scalar_reduction(t):
    """the lowered tree applies SUM/MAXVAL/... to an expression without any array section"""
    def ex(e):
        if e[0] == "red":
            return not any(y[0] == "sec" for y in srcl.walk_expr(e[2])) or ex(e[2])
        return any(ex(y) for y in list(srcl.walk_expr(e))[1:] if y[0] == "red")

    def go(ss):
        for s in ss:
            k = s[0]
            if k in ("assign", "aassign"):
                if ex(s[3]):
                    return True
            elif k == "if":
                if ex(s[1]) or go(s[2]) or go(s[3]):
                    return True
            elif k == "do":
                if go(s[5]):
                    return True
        return False
    return go(t)


# ---------------------------------------------------------------------------------- one program, route (a)
class Case:
    pass


def run_a(impl, g, prog, nstores, rng, reread=True):
    """-> Case with .failures (list of dicts), .stats"""
    c = Case()
    c.prog, c.decls, c.bnds = prog, g.decls(), g.bnds()
    c.text = srcl.mixcase(srcl.subroutine_text("sub", prog, c.decls), rng)
    c.failures, c.notes = [], []
    c.t1 = c.t2 = c.written = None
    c.kd = {}
    c.valid_stores = 0
    from psyclone.psyir.nodes import Routine
    try:
        psy = impl.read(c.text)
        rt = psy.walk(Routine)[0]
        c.kd = known_decls(rt, [d[0] for d in c.decls if d[2]])
    except Exception as e:        # noqa: BLE001   "reads ... without an internal error"
        c.failures.append({"kind": "reader-internal-error", "error": "%s: %s" % (type(e).__name__, str(e)[:300])})
        return c
    try:
        c.t1 = psy2t.routine(rt)
    except psy2t.OutOfSubset as e:
        c.notes.append("out-of-subset: " + str(e)[:80])
    try:
        c.written = impl.write(psy)
    except Exception as e:        # noqa: BLE001
        c.failures.append({"kind": "writer-internal-error", "error": "%s: %s" % (type(e).__name__, str(e)[:300])})
        return c
    dd = declcheck.compare(c.text, c.written)
    if dd:
        c.failures.append({"kind": "declaration-attribute-lost", "differences": dd[:6]})
    if reread:
        try:
            psy2 = impl.read(c.written)
            c.t2 = psy2t.routine(psy2.walk(Routine)[0])
        except psy2t.OutOfSubset as e:
            c.notes.append("out-of-subset (re-read): " + str(e)[:80])
        except Exception as e:    # noqa: BLE001
            c.failures.append({"kind": "written-text-not-readable", "error": "%s: %s" % (type(e).__name__, str(e)[:300])})
    cmap = srcl.cb_map(prog)
    cells = srcl.cells(c.decls)
    for k in range(nstores):
        vals = g.store(rng)
        s = srcl.evaluate(prog, vals, c.bnds)
        if s[0] != "ok":
            continue
        c.valid_stores += 1
        for tag, t in (("lowered-psyir", c.t1), ("re-read-of-written-text", c.t2)):
            if t is None:
                continue
            l = srcl.evaluate(t, vals, c.bnds, cbmap=cmap)
            if l[0] == "notverbatim":
                c.failures.append({"kind": "codeblock-not-verbatim", "tree": tag, "codeblock": l[1][:300]})
                break
            if l[0] != "ok":
                c.failures.append({"kind": "rewritten-program-invalid", "tree": tag, "why": str(l[1:])[:200],
                                   "store": sorted(vals.items())})
                break
            diff = [(cc, s[1].get(cc, 0), l[1].get(cc, 0)) for cc in cells if s[1].get(cc, 0) != l[1].get(cc, 0)]
            if diff:
                c.failures.append({"kind": "different-final-values", "tree": tag,
                                   "cells (cell, source value, re-written value)": diff[:8],
                                   "store": sorted(vals.items())})
                break
            if psy2t.is_core(t):
                m = mf.interp(t, vals, c.bnds)
                if m[0] != "ok" or any(m[1].vals.get((cc[0], tuple(cc[1])), 0) != l[1].get(cc, 0) for cc in cells):
                    c.notes.append("GLUE: minifort.interp disagrees with the C01 evaluator")
        if c.failures:
            break
    return c


def _indexed_by(e, v):
    """(array, dimension) of the first subscript `LBOUND(a, d) + v - 1` (or `v`, or `lo + v - 1`) in e"""
    for x in srcl.walk_expr(e):
        if x[0] == "idx":
            for d, sub in enumerate(x[2]):
                if any(y == ("var", v) for y in srcl.walk_expr(sub)):
                    return x[1], d
    return None


def repair_trip_counts(t, bnds, new_vars):
    """the tree with the upper bound of every reader-created loop replaced by the extent of the array
    dimension it indexes (what the loop over a WHERE must run over); used to attribute a failure"""
    def find(ss, v):
        for s in ss:
            k = s[0]
            es = []
            if k == "assign":
                es = [("idx", s[1], s[2]), s[3]]
            elif k == "if":
                es = [s[1]]
            for e in es:
                r = _indexed_by(e, v)
                if r:
                    return r
            for sub in ([s[2], s[3]] if k == "if" else [s[5]] if k == "do" else []):
                r = find(sub, v)
                if r:
                    return r
        return None

    def go(ss):
        out = []
        for s in ss:
            if s[0] == "do":
                body = go(s[5])
                hi = s[3]
                if s[1] in new_vars:
                    r = find(s[5], s[1])
                    if r and r[0] in bnds and r[1] < len(bnds[r[0]]):
                        lb, ub = bnds[r[0]][r[1]]
                        hi = ("lit", max(0, ub - lb + 1))
                out.append(("do", s[1], s[2], hi, s[4], body))
            elif s[0] == "if":
                out.append(("if", s[1], go(s[2]), go(s[3])))
            else:
                out.append(s)
        return out
    return go(t)


def classify(c):
    """reason code of a failing case (None: not one of the known defects).  The attribution is checked,
    not guessed from the shapes alone: a wrong trip count is the reason only if the tree with repaired trip
    counts has the source meaning on the failing store."""
    sh = shapes_of(c.prog, c.kd)
    f = c.failures[0]
    t = c.t1 if f.get("tree") != "re-read-of-written-text" else c.t2
    if t is None:
        return K_REDUCT if K_REDUCT in sh else None
    if K_REDUCT in sh and has_scalar_reduction(t):
        return K_REDUCT
    if "store" not in f:
        return None
    vals = dict((tuple([k[0], tuple(k[1])]), v) for k, v in f["store"])
    declared = {d[0] for d in c.decls}
    tr = repair_trip_counts(t, c.bnds, set(new_loop_vars(t, declared)))
    if tr != t:
        s = srcl.evaluate(c.prog, vals, c.bnds)
        l = srcl.evaluate(tr, vals, c.bnds, cbmap=srcl.cb_map(c.prog))
        same = s[0] == "ok" and l[0] == "ok" and all(s[1].get(cc, 0) == l[1].get(cc, 0) for cc in srcl.cells(c.decls))
        if same and K_UBOUND in sh:
            return K_UBOUND
    if K_STRIDE in sh:
        return K_STRIDE
    if K_NESTED in sh:
        return K_NESTED
    if tr != t and K_UBOUND in sh:
        return K_UBOUND
    return None


# ---------------------------------------------------------------------------------- route (b): gfortran
def ints_of(out):
    try:
        return [int(x) for x in out.split()]
    except ValueError:
        return None


def prep_b(ctx, impl, items, tag, budget=1e9):
    """items: list of (name, original text, expected ints or None).  PSyclone part of route (b): reads and
    re-writes every program, writes both texts to the scratch directory.  Items after the time budget are
    dropped (never the witnesses).  -> (directory, list of result dicts)"""
    d = ctx.scratch / ("gf_" + tag)
    d.mkdir(exist_ok=True)
    res = []
    t0 = time.time()
    for name, text, exp in items:
        if time.time() - t0 > budget and not name.startswith("a_wit_"):
            continue
        r = {"name": name, "text": text, "expected": exp}
        try:
            r["written"] = impl.write(impl.read(text))
        except Exception as e:    # noqa: BLE001
            r["internal_error"] = "%s: %s" % (type(e).__name__, str(e)[:300])
            r["written"] = None
        if r["written"] is not None and not name.startswith("a_wit_"):
            r["decl_diffs"] = declcheck.compare(text, r["written"])
        if not name.startswith("t"):             # names t<k>: text-level oracle only, not compiled
            (d / (name + "_o.f90")).write_text(text)
            if r["written"] is not None:
                (d / (name + "_w.f90")).write_text(r["written"])
        res.append(r)
    ctx.log("route (b): %d programs read and re-written in %.0fs" % (len(res), time.time() - t0))
    return d, res


def exec_b(ctx, d, res, timeout):
    """compiler part of route (b) (no PSyclone: may run in a thread): gfortran on original and re-written
    text, then run both"""
    t0 = time.time()
    jobs = str(max(8, int(os.environ.get("VERIF_JOBS", "4"))))
    core.sh("ls *.f90 | xargs -P %s -I{} sh -c 'mkdir -p m_{} && gfortran -fcheck=all -O0 -ffree-line-length-none -J m_{} "
            "-o {}.x {} > {}.err 2>&1; echo $? > {}.rc'" % (jobs, ), cwd=d, timeout=timeout)
    for r in res:
        for side in ("o", "w"):
            f = d / ("%s_%s.f90" % (r["name"], side))
            if not f.exists():
                continue
            rcf = Path(str(f) + ".rc")
            txt = rcf.read_text().strip() if rcf.exists() else ""
            if not txt:
                r["compile_" + side] = None          # not compiled within the time limit: not a case
                continue
            rc = int(txt)
            r["compile_" + side] = rc
            if rc != 0:
                ef = Path(str(f) + ".err")
                r["compile_err_" + side] = ef.read_text()[-600:] if ef.exists() else ""
                continue
            rc2, out = core.sh([str(f) + ".x"], timeout=30)
            r["run_rc_" + side] = rc2
            r["out_" + side] = out
    ctx.log("route (b): compiled and run in %.0fs" % (time.time() - t0))


def judge_b(r):
    """-> None if the property holds on this program, else a description"""
    if r.get("internal_error"):
        return "internal error: " + r["internal_error"]
    decl = None
    if r.get("decl_diffs"):
        decl = ("declaration attributes that affect behaviour are not in the re-written text: "
                + "; ".join(r["decl_diffs"][:6]))
    if r["name"].startswith("t"):
        return decl
    if r.get("compile_o") != 0 or (r.get("written") is not None and r.get("compile_w") is None):
        return decl      # the original is not accepted by gfortran / not compiled in time: only the text oracle
    if r.get("run_rc_o") != 0:
        return decl      # original fails at run time (e.g. bounds): not a valid input
    if r.get("compile_w") != 0:
        return "re-written program does not compile: " + r.get("compile_err_w", "")[-300:]
    if r.get("run_rc_w") != 0:
        return "re-written program fails at run time: " + r.get("out_w", "")[-300:]
    if ints_of(r["out_o"]) != ints_of(r["out_w"]) or r["out_o"].split() != r["out_w"].split():
        return "stdout differs: original %s / re-written %s%s" % (r["out_o"].split()[:60], r["out_w"].split()[:60],
                                                                  ("; " + decl) if decl else "")
    return decl


# ---------------------------------------------------------------------------------- witnesses of the known findings
WITNESSES = {
    K_UBOUND: """program p
  integer, dimension(0:4) :: c
  integer, dimension(0:4) :: b
  integer :: i
  do i = 0, 4
    c(i) = 1
    b(i) = 7
  end do
  where (c(:) > 0) b(:) = 0
  print *, b
end program p
""",
    K_NESTED: """program p
  integer, dimension(5) :: a, b, c
  a = (/ 1, 0, 0, 0, 0 /)
  b = (/ 0, 1, 1, 0, 0 /)
  c = 0
  where (a(:) > 0)
    where (b(:) > 0)
      c(:) = 1
    end where
  end where
  print *, c
end program p
""",
    K_REDUCT: """program p
  integer, dimension(3) :: b
  integer :: n
  b = (/ 1, 5, 3 /)
  n = 3
  where (b(:) > sum(b(:)) / n) b(:) = 0
  print *, b
end program p
""",
    K_STRIDE: """program p
  implicit none
  integer, dimension(10) :: a
  integer, dimension(5) :: b
  integer :: i
  do i = 1, 10
    a(i) = i
  end do
  b = 0
  where (a(1:9:2) > 4) b(:) = a(2:10:2)
  print *, b
end program p
""",
    K_DONAME: """program p
  implicit none
  integer :: i, j, s
  s = 0
  OUTER: do i = 1, 3
    do j = 1, 3
      if (j == 2) cycle outer
      s = s + 1
    end do
  end do OUTER
  print *, s
end program p
""",
}
WHAT = {
    K_UBOUND: "WHERE whose mask array is declared with a lower bound other than 1 (e.g. 0:4): the loop runs 1..declared "
              "upper bound instead of 1..extent (last elements skipped, or out-of-bounds accesses)",
    K_NESTED: "nested WHERE is lowered to an independent inner loop over all elements (outer mask ignored per element)",
    K_REDUCT: "SUM/MAXVAL/MINVAL(b(:)) without dim= inside a WHERE: the section inside the reduction is indexed too "
              "(SUM(b(widx1))); the written code does not compile",
    K_STRIDE: "strided section in a WHERE (a(1:9:2)): the element index is start + widx - 1, the stride is dropped",
    K_DONAME: "named DO whose construct name is referenced with another letter case (OUTER: ... cycle outer): the name test "
              "is case-sensitive, the loop is lowered without its name and the written code does not compile",
}


# ---------------------------------------------------------------------------------- main
def run(ctx):
    ctx.cov["rule"] = (
        "route (a): generated subroutines (gen.py: integer/real/logical scalars and arrays with lower bounds from "
        "{1,-2,-1,0,2,3}, nested DO incl. zero-trip / negative / missing step, IF / ELSE IF / one-line IF, EXIT/CYCLE, "
        "SELECT CASE with value lists / ranges / open ranges / CASE DEFAULT anywhere / logical selectors, 1-D and 2-D "
        "WHERE/ELSEWHERE with full-range operands of different lower bounds and explicit sections, array assignments, "
        "intrinsics MIN MAX MOD ABS SIGN SIZE LBOUND UBOUND with dim=) -> reader -> writer -> re-read; each tree evaluated on "
        "random stores against the source-level evaluator (srcl.py).  route (b): complete programs with module "
        "procedures/functions/named arguments/code blocks compiled and run with gfortran -fcheck=all, original vs "
        "re-written vs interpreter.  route (c): reader tree == Coq `lower` (vm_compute).  non-trivial = a program in which "
        "at least one SELECT CASE or WHERE was lowered and that was evaluated on >= 1 valid store; distinct = distinct text")
    ctx.cov["trusted_base"] = core.BASE_TRUST + [
        "coq/C01/Model.v is a hand-written model of _case_construct_handler/_process_case_value[_list]/"
        "_where_construct_handler/_array_syntax_to_indexed; tied to the code by correspondence route (c) on the generated programs",
        "the source-level meaning of SELECT CASE / WHERE is my formalisation of Fortran 2008 8.1.8 / 7.2.3 (Model.v "
        "select_sem / where_sem; srcl.py mirrors it); validated against gfortran by route (b) (differential testing)",
        "MiniFortran values are integers (logicals 0/1, reals restricted to integer values; no overflow, no rounding)",
        "gfortran 12 as the observation point of route (b); fparser2 parsing and declarations are not modelled",
        "code blocks are opaque: only their verbatim re-emission is checked (string comparison modulo case/blanks)"]
    ctx.assumptions = [
        "expressions of the model have no side effects (pure selector / mask expressions; no function references in them)",
        "C01_lower_where_sound_partial: premises safe_where (no nested WHERE, no reduction, elemental intrinsics, scalar "
        "sub-expressions do not mention an assigned array) and dc_ok (trip count = extent) -- the unchanged reader violates "
        "dc_ok for declared lower bounds /= 1 (finding) and the first two for nested WHERE / reductions (findings)",
        "1-D WHERE only in the Coq model; 2-D WHERE, explicit sections, array assignments, calls are checked by routes (a)/(b) only"]
    t_start = time.time()
    # ---- proof obligations, in the background (coqc is slow on the shared machine)
    proof = {}

    def do_prove():
        try:
            t0 = time.time()
            proof["res"] = ctx.prove()
            proof["secs"] = time.time() - t0
        except Exception:     # noqa: BLE001
            proof["exc"] = traceback.format_exc()
    th = threading.Thread(target=do_prove)
    th.start()

    impl = Impl()
    # which index does the reader build for a strided section?  (model parameter fx of Model2/Model3.WSec)
    from psyclone.psyir.nodes import Routine as _R
    _t = psy2t.routine(impl.read("subroutine s()\n  integer, dimension(10) :: a\n  integer, dimension(5) :: b\n"
                                 "  where (b(:) >= 0) b(:) = a(2:10:2)\nend subroutine s\n").walk(_R)[0])
    coqenc.FX = "Mul" in repr(_t) and not os.environ.get("C01_FORCE_PREFIX_STRIDE")
    ctx.notes["strided_index_variant"] = "start + (widx-1)*stride" if coqenc.FX else "start + widx - 1 (stride dropped)"
    # ---- route (b), PSyclone part first; the compiler runs in the background during route (a)
    items, meta = [], {}
    n_b = ctx.pick(3, 60)
    brng = ctx.rng("b")
    n_bt = ctx.pick(12, 40)
    for i in range(n_b + n_bt):
        textonly = i >= n_b
        g = gen.SGen(brng, procs=(textonly or i % 4 != 3), clash=(i % 5 == 1), allow_cb=(i % 3 == 0))
        prog = g.program(1 if textonly else brng.randint(3, 6))
        if g.procs:
            prog = g.with_state_calls(prog)
        vals = g.store(brng)
        s = srcl.evaluate(prog, vals, g.bnds(), g.procs, mod=g.mod)
        if s[0] != "ok":
            continue
        exp = None
        alld = g.decls() + (srcl.module_decls(g.mod) if g.procs else [])
        if s[2] < 10 ** 6:
            exp = [s[1].get(cc, 0) for d in alld for cc in srcl.cells([d])]
        name = ("t%d" if textonly else "b%d") % i
        items.append((name, srcl.mixcase(srcl.program_text(name, prog, g.decls(), vals, g.procs, g.mod), brng), exp))
        meta[name] = shapes_of(prog, {a: bs for a, (ty, bs, how) in g.arr.items() if all(lb >= 0 for lb, _ in bs)})
    for k, txt in WITNESSES.items():
        items.insert(0, ("a_wit_" + k.split("/")[1].replace("-", "_"), txt, None))
    bdir, resb = prep_b(ctx, impl, items, "b", budget=ctx.pick(25, 150))
    bres = {}

    def do_b():
        try:
            exec_b(ctx, bdir, resb, timeout=ctx.pick(100, 480))
        except Exception:     # noqa: BLE001
            bres["exc"] = traceback.format_exc()
    thb = threading.Thread(target=do_b)
    thb.start()
    rng = ctx.rng("gen")
    srng = ctx.rng("stores")
    n_a = ctx.pick(170, 1400)
    n_def = ctx.pick(3, 40)
    nstores = ctx.pick(3, 5)
    plan = []
    # focused programs first: only lowered constructs, all in the Coq-modelled subset when `simple`
    FOCUS = [("select", "where1"), ("where1", "select"), ("loop", "where1"), ("select", "select"), ("where1", "where1"),
             ("where2", "aassign"), ("elif", "where1", "ifs"), ("select", "loop"), ("loop", "loop")]
    n_focus = ctx.pick(30, 180)
    for i in range(n_focus):
        f = FOCUS[i % len(FOCUS)]
        plan.append(dict(simple=("where2" not in f and i % 4 != 3), clash=(i % 5 == 2), defects=(), allow_cb=False, focus=f))
    for i in range(n_a):
        mode = i % 3
        plan.append(dict(simple=(mode == 0), clash=(i % 7 == 3), defects=(), allow_cb=(mode == 2 and i % 2 == 0)))
    dplan = []
    for i in range(n_def):
        for dname in ("ubound", "nested", "reduction", "stride"):
            lbs = [0, 3, 2] if dname == "ubound" else None
            dplan.append(dict(simple=(i % 2 == 0), clash=False, defects=(dname,), allow_cb=False, lbs=lbs,
                              focus=(("where1",) if i % 2 == 0 else None)))
    # the defect streams are spread over the beginning of the plan (the quick tier may stop early)
    for j, cfg in enumerate(dplan):
        plan.insert(min(len(plan), 2 + 3 * j), cfg)
    cases, coq_cases, coq_idx = [], [], []
    fails = []
    oos = 0
    budget = ctx.pick(38, 420)
    t_a = time.time()
    for i, cfg in enumerate(plan):
        if time.time() - t_a > budget and i >= 12:
            ctx.notes["route_a_truncated_at"] = i
            break
        g = gen.SGen(rng, defects=cfg["defects"], clash=cfg["clash"], simple=cfg["simple"], allow_cb=cfg["allow_cb"],
                     lbs=cfg.get("lbs"))
        prog = g.focused(cfg["focus"]) if cfg.get("focus") else g.program()
        # the written TEXT is re-read (the only way to observe the writer in route (a)): always in thorough, and
        # in quick for the short focused programs, for programs with a negative DO step, and every third one
        neg = any(s_[0] == "do" and s_[4] is not None and s_[4][1] < 0 for s_ in srcl.walk_stmts(prog))
        c = run_a(impl, g, prog, nstores, srng, reread=(ctx.thorough or bool(cfg.get("focus")) or neg or i % 3 == 0))
        c.cfg = cfg
        cases.append(c)
        kinds = sorted({s[0] for s in srcl.walk_stmts(prog)})
        lowered_something = any(k in ("select", "where", "wheres") for k in kinds)
        ctx.count(c.text, nontrivial=lowered_something and c.valid_stores > 0 and c.t1 is not None)
        for k in kinds:
            ctx.hist("statement_kinds", k)
        ctx.hist("valid_stores_per_program", c.valid_stores)
        ctx.hist("stream", (",".join(cfg["defects"]) or ("simple" if cfg["simple"] else "full")) + ("/focused" if cfg.get("focus") else ""))
        for nme in c.notes:
            if nme.startswith("out-of-subset"):
                oos += 1
                ctx.hist("out_of_subset", nme[:60])
            if nme.startswith("GLUE"):
                ctx.violation({"property": "C01", "broken": nme, "text": c.text}, no_input=True)
        if c.t1 is not None and any(s[0] == "cb" for s in _walk_t(c.t1)):
            ctx.hist("programs_with_codeblocks", "yes")
        if c.failures:
            fails.append(c)
        # correspondence case
        if c.t1 is not None and psy2t.is_core(c.t1) and not c.failures:
            try:
                rank1 = {d[0] for d in c.decls if d[2] and len(d[2]) == 1}
                kd1 = {a: bs[0] for a, bs in c.kd.items() if len(bs) == 1}
                wn = new_loop_vars(c.t1, {d[0] for d in c.decls})
                coq_cases.append(coqenc.case(prog, c.t1, kd1, rank1, wn))
                coq_idx.append(len(cases) - 1)
            except coqenc.NotModelled as e:
                ctx.hist("not_modelled_in_coq", str(e)[:40])
    ctx.log("route (a): %d programs, %d failing, %d out-of-subset, %d correspondence cases (%.0fs)"
            % (len(cases), len(fails), oos, len(coq_cases), time.time() - t_start))
    # ---- correspondence in the background while gfortran runs
    corr = {}

    def do_corr():
        try:
            t0 = time.time()
            okm, outm = ctx.coq_make(["C01/Corr3.vo"], timeout=1500)
            if not okm:
                raise RuntimeError("cannot build C01/Corr3.vo:\n" + outm[-2000:])
            corr["bad"] = ctx.coq_eval_failing("From PV Require Import C01.Model3 C01.Corr3.\nFrom PV Require Import Fort.Syntax.\n"
                                               "Require Import Coq.ZArith.ZArith.\nOpen Scope Z_scope.",
                                               "corr_case", "corr_check", coq_cases, shard=ctx.pick(400, 150), timeout=1500)
            ctx.log("correspondence evaluated in %.0fs" % (time.time() - t0))
        except Exception:     # noqa: BLE001
            corr["exc"] = traceback.format_exc()
    th2 = threading.Thread(target=do_corr)
    th2.start()
    # ---- route (b): results
    thb.join()
    if "exc" in bres:
        raise RuntimeError("route (b) failed:\n" + bres["exc"])
    nb_ok = 0
    ndecl = [0]
    for r in resb:
        if r["name"].startswith("a_wit_"):
            continue
        if r["name"].startswith("t"):
            ctx.count(r["text"], nontrivial=r.get("written") is not None)
            ctx.hist("route_b", "declaration oracle only (not compiled)")
            why = judge_b(r)
            if why is not None:
                ndecl[0] += 1
            if why is not None and ndecl[0] <= 3:
                ctx.violation({"property": "C01", "route": "declarations", "what_fails": why, "original": r["text"],
                               "re-written": r["written"], "replay": "FortranWriter()(FortranReader().psyir_from_source("
                               "original)); compare the declarations (props/C01/declcheck.py)"})
            continue
        ctx.count(r["text"], nontrivial=r.get("compile_o") == 0 and r.get("run_rc_o") == 0)
        ctx.hist("route_b", "original compiles and runs" if r.get("compile_o") == 0 and r.get("run_rc_o") == 0
                 else "original rejected by gfortran")
        if r.get("compile_o") != 0:
            ctx.notes.setdefault("route_b_original_rejected", []).append(r.get("compile_err_o", "")[-200:])
        why = judge_b(r)
        if why is None and r.get("compile_o") == 0 and r.get("run_rc_o") == 0:
            nb_ok += 1
            got = ints_of(r["out_o"])
            if r["expected"] is not None and got is not None and got[-len(r["expected"]):] != r["expected"]:
                ctx.violation({"property": "C01", "broken": "specification vs gfortran: the source-level evaluator "
                               "(srcl.py) predicts other final values than the compiled ORIGINAL program prints",
                               "text": r["text"], "expected": r["expected"], "stdout": got}, no_input=True)
        if why is not None:
            key = None
            sh = meta.get(r["name"], set())
            if K_REDUCT in sh and "does not compile" in why:
                key = K_REDUCT
            elif K_UBOUND in sh:
                key = K_UBOUND
            elif K_NESTED in sh:
                key = K_NESTED
            rep = {"property": "C01", "route": "gfortran", "what_fails": why, "original": r["text"],
                   "re-written": r["written"], "replay": "FortranWriter()(FortranReader().psyir_from_source(original)); "
                   "gfortran -fcheck=all both; compare stdout"}
            if key:
                ctx.finding(key, WHAT[key], rep)
            else:
                ctx.violation(rep)
    ctx.notes["route_b_programs_ok"] = nb_ok
    ctx.log("route (b): %d programs compiled and run, %d hold" % (len(resb), nb_ok))
    # ---- witnesses of the known findings (each is re-demonstrated, or silently not reported)
    for r in resb:
        if not r["name"].startswith("a_wit_"):
            continue
        key = [k for k in WITNESSES if r["name"] == "a_wit_" + k.split("/")[1].replace("-", "_")][0]
        why = judge_b(r)
        ctx.notes.setdefault("witness_replay", {})[key] = why or "property holds on the witness"
        if why is not None:
            ctx.finding(key, WHAT[key], {"property": "C01", "what_fails": why, "original": r["text"],
                                         "re-written": r["written"]})
    # ---- route (a) verdicts
    shown = 0
    for c in fails:
        key = classify(c)
        rep = {"property": "C01", "route": "interpretation", "failures": c.failures[:2], "original": c.text,
               "re-written": c.written, "defect_shapes_present": sorted(shapes_of(c.prog, c.kd)),
               "replay": "FortranReader().psyir_from_source(original) -> FortranWriter(); evaluate both on the store"}
        ctx.hist("route_a_failures", key or c.failures[0]["kind"])
        if key is not None and all(f["kind"] in ("different-final-values", "rewritten-program-invalid") for f in c.failures):
            ctx.finding(key, WHAT[key], rep)
        elif shown < 3:
            shown += 1
            ctx.violation(rep)
    if oos > max(3, len(cases) // 10):
        ctx.violation({"property": "C01", "broken": "serialiser: %d of %d generated programs are outside the subset "
                       "props/C01/psy2t.py understands (the reader output changed shape)" % (oos, len(cases))}, no_input=True)
    # ---- proofs / correspondence
    th2.join()
    th.join()
    if "exc" in proof:
        raise RuntimeError("ctx.prove failed:\n" + proof["exc"])
    ok, rep = proof["res"]
    ctx.log("proof ok=%s discharged=%d/%d" % (ok, ctx.cov["discharged"], ctx.cov["obligations"]))
    if "exc" in corr:
        raise RuntimeError("correspondence evaluation failed:\n" + corr["exc"])
    bad = corr["bad"]
    ctx.cov["disagreements_checked"] = len(bad)
    ctx.notes["correspondence_cases"] = len(coq_cases)
    ctx.notes["correspondence_cases_with_section_operands"] = sum(1 for x in coq_cases if "WSec" in x)
    ctx.notes["correspondence_cases_with_strided_operands"] = sum(1 for x in coq_cases if re.search(r"WSec \w+ \d+%nat \(\d+\) \(\d+\) \((?!1\))", x))
    ctx.log("correspondence: %d cases, %d differ" % (len(coq_cases), len(bad)))
    for c in cases[:2] + cases[-2:]:
        ctx.sample({"source": c.text[-700:], "re-written": (c.written or "")[-700:], "valid_stores": c.valid_stores,
                    "failures": c.failures[:1]})
    concrete = bool(ctx.violations)       # (a replayed known finding is not a reason to keep quiet about a mismatch)
    if bad and not concrete:
        c = cases[coq_idx[bad[0]]]
        ctx.violation({"property": "C01", "broken": "correspondence: the tree built by the reader is not `lower` "
                       "(coq/C01/Model.v) of the source program, for either trip-count variant",
                       "n_differing": len(bad), "first_differing_case": {"source": c.text, "reader_tree": c.t1},
                       "note": "the property itself was evaluated on this program and held on the sampled stores"},
                      no_input=True)
    if not ok:
        ctx.violation({"property": "C01", "broken": "proof obligations of Properties/C01.v", "proof_report": rep,
                       "concrete_failure_seen": concrete}, no_input=True)


def _walk_t(t):
    for s in t:
        yield s
        if s[0] == "if":
            yield from _walk_t(s[2])
            yield from _walk_t(s[3])
        elif s[0] == "do":
            yield from _walk_t(s[5])
