"""C21 — run the real implementation on one generated case and extract

  * the kernel-call actual arguments of the generated PSy layer with their declared
    (type, kind, rank) resolved in the generated declarations, and the access mode that
    KernCallArgList records for each position (-> intent),
  * the dummy arguments of the generated kernel stub with declared (type, kind, rank, intent),
  * the sequence of ArgOrdering hook invocations (events) of both classes with the arguments each
    hook appended (the hooks are wrapped in THIS process; /repo is not touched).

Everything is fail-closed: an actual argument / declaration form that is not recognised raises."""
import re

HOOKS = ["cell_position", "mesh_height", "_mesh_ncell2d_no_halos", "_mesh_ncell2d", "cell_map",
         "field_vector", "field", "stencil_2d_unknown_extent", "stencil_2d_max_extent",
         "stencil_unknown_extent", "stencil_unknown_direction", "stencil_2d", "stencil", "operator",
         "cma_operator", "scalar", "fs_common", "fs_intergrid", "fs_compulsory_field", "banded_dofmap",
         "indirection_dofmap", "basis", "diff_basis", "field_bcs_kernel", "operator_bcs_kernel",
         "ref_element_properties", "mesh_properties", "quad_rule"]

_RUNS = None          # list of run records while recording is active


class Unrecognised(Exception):
    pass


def _side(obj):
    from psyclone.domain.lfric import KernCallArgList, KernStubArgList
    if type(obj) is KernCallArgList:
        return "call"
    if type(obj) is KernStubArgList:
        return "stub"
    return None


def _key(args, kwargs):
    cand = list(args) + [kwargs.get(k) for k in ("arg", "argvect", "scalar_arg", "function_space")]
    for c in cand:
        if c is None:
            continue
        if hasattr(c, "metadata_index") and hasattr(c, "argument_type"):
            return ["arg", c.metadata_index]
        if hasattr(c, "orig_name") and hasattr(c, "mangled_name"):
            return ["fs", c.orig_name]
    return None


def _wrap_hook(orig, name):
    def wrapper(self, *args, **kwargs):
        run = getattr(self, "_c21_run", None)
        if _RUNS is None or run is None:
            return orig(self, *args, **kwargs)
        depth = self._c21_depth
        n0 = len(self._arglist)
        self._c21_depth = depth + 1
        try:
            res = orig(self, *args, **kwargs)
        finally:
            self._c21_depth = depth
        if depth == 0:
            modes = run["modes"][n0:len(self._arglist)]
            if name == "field_vector" and run["side"] == "call":
                # the access of a field vector is registered once for the whole vector
                va = kwargs.get("var_accesses", args[1] if len(args) > 1 else None)
                argvect = args[0] if args else kwargs.get("argvect")
                if va is not None:
                    from psyclone.core import Signature
                    acc = va[Signature(argvect.name)].all_accesses[-1].access_type.name
                    modes = [acc] * len(modes)
            run["events"].append({"hook": name, "key": _key(args, kwargs),
                                  "names": list(self._arglist[n0:]), "modes": modes})
        return res
    wrapper._c21 = True
    wrapper._c21_orig = orig
    return wrapper


def _wrap_generate(orig):
    def wrapper(self, *args, **kwargs):
        side = _side(self)
        if _RUNS is None or side is None:
            return orig(self, *args, **kwargs)
        run = {"side": side, "events": [], "modes": [], "obj": self, "done": False}
        self._c21_run = run
        self._c21_depth = 0
        _RUNS.append(run)
        res = orig(self, *args, **kwargs)
        run["done"] = True
        run["arglist"] = list(self._arglist)
        return res
    wrapper._c21 = True
    wrapper._c21_orig = orig
    return wrapper


def _wrap_append(orig):
    def wrapper(self, var_name, var_accesses=None, var_access_name=None, mode=None, metadata_posn=None):
        from psyclone.core import AccessType
        if mode is None:
            mode = AccessType.READ
        run = getattr(self, "_c21_run", None)
        if _RUNS is not None and run is not None:
            run["modes"].append(mode.name)
        return orig(self, var_name, var_accesses=var_accesses, var_access_name=var_access_name, mode=mode,
                    metadata_posn=metadata_posn)
    wrapper._c21 = True
    wrapper._c21_orig = orig
    return wrapper


def install_hooks():
    """Wrap the hooks of ArgOrdering and its two subclasses (idempotent).  Returns the per-hook
    override table {hook: (defined in ArgOrdering, in KernCallArgList, in KernStubArgList)}."""
    from psyclone.domain.lfric import ArgOrdering, KernCallArgList, KernStubArgList
    table = {}
    for h in HOOKS:
        table[h] = tuple(h in C.__dict__ for C in (ArgOrdering, KernCallArgList, KernStubArgList))
    for C in (ArgOrdering, KernCallArgList, KernStubArgList):
        for h in HOOKS:
            f = C.__dict__.get(h)
            if f is not None and not getattr(f, "_c21", False):
                setattr(C, h, _wrap_hook(f, h))
        g = C.__dict__.get("generate")
        if g is not None and not getattr(g, "_c21", False):
            setattr(C, "generate", _wrap_generate(g))
        a = C.__dict__.get("append")
        if a is not None and not getattr(a, "_c21", False):
            setattr(C, "append", _wrap_append(a))
    return table


class Recording:
    def __enter__(self):
        global _RUNS
        _RUNS = []
        return _RUNS

    def __exit__(self, *a):
        global _RUNS
        _RUNS = None


# ------------------------------------------------------------------ Fortran text -> shapes
_PARSER = None


def _parse(text):
    global _PARSER
    from fparser.two.parser import ParserFactory
    from fparser.common.readfortran import FortranStringReader
    if _PARSER is None:
        _PARSER = ParserFactory().create(std="f2008")
    reader = FortranStringReader(text, ignore_comments=True)
    return _PARSER(reader)


def _items(node):
    """Elements of an fparser2 *_List node (F2003 or F2008 class), or [node] for a single element."""
    if node is None:
        return []
    if type(node).__name__.endswith("_List"):
        return list(node.items)
    return [node]


def _split_top(s):
    out, depth, cur = [], 0, ""
    for ch in s:
        if ch in "([":
            depth += 1
        elif ch in ")]":
            depth -= 1
        if ch == "," and depth == 0:
            out.append(cur.strip())
            cur = ""
        else:
            cur += ch
    if cur.strip():
        out.append(cur.strip())
    return out


def _rank_of_spec(spec_text):
    return len(_split_top(spec_text))


def declarations(sub):
    """{lower name: dict(type, kind, rank, intent, attrs)} for a Subroutine_Subprogram node."""
    from fparser.two import Fortran2003 as F
    from fparser.two.utils import walk
    out = {}
    for st in walk(sub, F.Type_Declaration_Stmt):
        tspec, attrs, ents = st.items
        ttxt = str(tspec).strip()
        m = re.match(r"^(INTEGER|REAL|LOGICAL|DOUBLE PRECISION|CHARACTER)\s*(?:\((.*)\))?$", ttxt, re.I)
        if m:
            ty = m.group(1).lower()
            kind = None
            if m.group(2):
                km = re.match(r"^(?:KIND\s*=\s*)?(\w+)$", m.group(2).strip(), re.I)
                if not km:
                    raise Unrecognised("kind selector %r" % ttxt)
                kind = km.group(1).lower()
        else:
            m = re.match(r"^(?:TYPE|CLASS)\s*\((.*)\)$", ttxt, re.I)
            if not m:
                raise Unrecognised("type spec %r" % ttxt)
            ty, kind = "type:" + m.group(1).strip().lower(), None
        rank_attr, intent, alist = 0, None, []
        if attrs is not None:
            for a in _items(attrs):
                at = str(a).strip()
                mm = re.match(r"^DIMENSION\s*\((.*)\)$", at, re.I)
                if mm:
                    rank_attr = _rank_of_spec(mm.group(1))
                    continue
                mm = re.match(r"^INTENT\s*\(\s*(\w+)\s*\)$", at, re.I)
                if mm:
                    intent = mm.group(1).lower()
                    continue
                alist.append(at.lower())
        for e in _items(ents):
            name = str(e.items[0]).lower()
            rank = rank_attr
            if e.items[1] is not None:
                rank = _rank_of_spec(str(e.items[1]))
            if name in out:
                raise Unrecognised("duplicate declaration of %s" % name)
            out[name] = {"type": ty, "kind": kind, "rank": rank, "intent": intent, "attrs": alist}
    return out


_LIT_REAL = re.compile(r"^[+-]?(\d+\.\d*|\.\d+|\d+)([ed][+-]?\d+)?(_(\w+))?$", re.I)
_LIT_INT = re.compile(r"^[+-]?\d+(_(\w+))?$")
_LIT_LOG = re.compile(r"^\.(true|false)\.(_(\w+))?$", re.I)
# members of LFRic proxy types that the PSy layer passes to kernels
KNOWN_MEMBERS = {"ncell_3d": ("integer", "i_def", 0)}


def resolve_actual(txt, decls):
    """(type, kind, rank, definable) of one actual argument of the kernel call."""
    t = txt.strip().replace(" ", "").lower()
    m = _LIT_INT.match(t)
    if m:
        return ("integer", (m.group(2) or "default").lower(), 0, False)
    m = _LIT_REAL.match(t)
    if m:
        return ("real", (m.group(4) or "default").lower(), 0, False)
    m = _LIT_LOG.match(t)
    if m:
        return ("logical", (m.group(3) or "l_def").lower(), 0, False)
    if "%" in t:
        member = t.split("%")[-1]
        mm = re.match(r"^(\w+)$", member)
        if not mm or member not in KNOWN_MEMBERS:
            raise Unrecognised("structure member actual %r" % txt)
        base = re.match(r"^(\w+)", t).group(1)
        if base not in decls or not decls[base]["type"].startswith("type:"):
            raise Unrecognised("structure base of %r is not a declared derived-type variable" % txt)
        ty, kd, rk = KNOWN_MEMBERS[member]
        return (ty, kd, rk, True)
    m = re.match(r"^(\w+)(?:\((.*)\))?$", t)
    if not m:
        raise Unrecognised("actual argument %r" % txt)
    name, subs = m.group(1), m.group(2)
    if name not in decls:
        raise Unrecognised("actual argument %r is not declared in the PSy-layer routine" % txt)
    d = decls[name]
    rank = d["rank"]
    if subs is not None:
        parts = _split_top(subs)
        if len(parts) != d["rank"]:
            raise Unrecognised("actual %r has %d subscripts but %s has rank %d" % (txt, len(parts), name, d["rank"]))
        rank = 0
        for p in parts:
            depth, is_range = 0, False
            for ch in p:
                if ch == "(":
                    depth += 1
                elif ch == ")":
                    depth -= 1
                elif ch == ":" and depth == 0:
                    is_range = True
            if is_range:
                rank += 1
    return (d["type"], d["kind"], rank, d["intent"] != "in")


def call_shapes(psy_text, code_name):
    """Actual arguments of `CALL <code_name>(...)` in the PSy layer: list of (text, type, kind, rank, definable)."""
    from fparser.two import Fortran2003 as F
    from fparser.two.utils import walk
    tree = _parse(psy_text)
    found = []
    for sub in walk(tree, F.Subroutine_Subprogram):
        calls = [c for c in walk(sub, F.Call_Stmt) if str(c.items[0]).lower() == code_name.lower()]
        if calls:
            found.append((sub, calls))
    if len(found) != 1 or len(found[0][1]) != 1:
        raise Unrecognised("expected exactly one call of %s in the PSy layer, found %s"
                           % (code_name, [len(c) for _, c in found]))
    sub, (call,) = found[0]
    decls = declarations(sub)
    out = []
    for it in _items(call.items[1]):
        txt = str(it)
        if type(it).__name__ == "Actual_Arg_Spec":
            raise Unrecognised("keyword actual argument %r" % txt)
        ty, kd, rk, definable = resolve_actual(txt, decls)
        out.append({"text": txt, "type": ty, "kind": kd, "rank": rk, "definable": definable})
    return out, decls


def stub_shapes(stub_text, code_name=None):
    """Dummy arguments of the stub subroutine: list of dict(name, type, kind, rank, intent)."""
    from fparser.two import Fortran2003 as F
    from fparser.two.utils import walk
    tree = _parse(stub_text)
    subs = walk(tree, F.Subroutine_Subprogram)
    if len(subs) != 1:
        raise Unrecognised("stub has %d subroutines" % len(subs))
    sub = subs[0]
    stmt = walk(sub, F.Subroutine_Stmt)[0]
    name = str(stmt.items[1]).lower()
    dummies = [str(x).lower() for x in _items(stmt.items[2])]
    decls = declarations(sub)
    out = []
    for d in dummies:
        if d not in decls:
            out.append({"name": d, "type": "UNDECLARED", "kind": None, "rank": -1, "intent": None})
            continue
        dd = decls[d]
        out.append({"name": d, "type": dd["type"], "kind": dd["kind"], "rank": dd["rank"], "intent": dd["intent"]})
    modname = str(walk(tree, F.Module_Stmt)[0].items[1]).lower()
    return out, name, modname, decls


# ------------------------------------------------------------------------ run one case
def classify_exc(e):
    msg = str(e).replace("\n", " ")
    name = type(e).__name__
    table = [
        ("Intergrid kernels can only be setup inside an InvokeSchedule", "stub-refused/intergrid"),
        ("kernel-stub generator supports kernels that operate on one of", "stub-refused/operates-on"),
        ("Unsupported space for basis function", "stub-refused/basis-on-any-space"),
        ("Unsupported space for differential basis function", "stub-refused/diff-basis-on-any-space"),
        # both generators crash on these (no call and no stub to compare)
        ("found unsupported mesh property 'MeshProperty.NCELL_2D'", "refused/cma-kernel-with-mesh-properties"),
        # one invoke passes the same CMA operator to kernels that disagree about its spaces and the first
        # one sees equal spaces: PSy-layer generation stops (no call to compare)
        (":ncol:cma_matrix' in the Symbol Table", "refused/shared-cma-operator-first-seen-with-equal-spaces"),
    ]
    for frag, code in table:
        if frag in msg:
            return code
    return "%s: %s" % (name, msg[:160])


def norm(s):
    """Canonical text of an actual argument: no blanks, lower case, a full-range section a(:,:) = a."""
    s = s.replace(" ", "").lower()
    m = re.match(r"^(\w+)\((:(,:)*)\)$", s)
    return m.group(1) if m else s


def run_case(spec, workdir, dm=False, colour=False):
    """One kernel in one invoke."""
    return run_group([spec], workdir, dm=dm, colour=colour)[0]


def run_group(specs, workdir, dm=False, colour=False):
    """Run PSy-layer generation for ONE invoke calling all the kernels of `specs` (which may share
    algorithm-layer arguments) and stub generation for each kernel; returns one result per kernel.
    dm: distributed memory on; colour: try to colour every loop (Dynamo0p3ColourTrans) first."""
    import gen as G     # noqa (props/C21 is on sys.path when called from check.py)
    from psyclone.parse.algorithm import parse
    from psyclone.psyGen import PSyFactory
    from psyclone.gen_kernel_stub import generate
    from psyclone.core import VariablesAccessInfo
    from psyclone.domain.lfric import KernCallArgList
    from psyclone.configuration import Config
    import fparser
    kfiles = []
    for spec in specs:
        kfile = workdir / ("%s_mod.f90" % spec["name"])
        kfile.write_text(G.kernel_text(spec))
        kfiles.append(kfile)
    afile = workdir / ("alg_%s.f90" % specs[0]["name"])
    afile.write_text(G.alg_text_group(specs))
    results = [{"call": None, "stub": None, "call_err": None, "stub_err": None, "coloured": False,
                "n_kernels_in_invoke": len(specs)} for _ in specs]
    Config.get().api = "lfric"
    # ---- call side: one PSy layer for the whole invoke
    text = kerns = None
    try:
        fparser.one.parsefortran.FortranParser.cache.clear()
        _, info = parse(str(afile), api="lfric", kernel_paths=[str(workdir)])
        psy = PSyFactory("lfric", distributed_memory=dm).create(info)
        if colour:
            from psyclone.transformations import Dynamo0p3ColourTrans, TransformationError
            sched = psy.invokes.invoke_list[0].schedule
            for loop in list(sched.loops()):
                try:
                    Dynamo0p3ColourTrans().apply(loop)
                    for r in results:
                        r["coloured"] = True
                except TransformationError:
                    pass
        text = str(psy.gen)
        kerns = psy.invokes.invoke_list[0].schedule.coded_kernels()
        if len(kerns) != len(specs) or [k.name.lower() for k in kerns] != [sp["code"].lower() for sp in specs]:
            raise Unrecognised("coded kernels of the invoke are %s, expected %s"
                               % ([k.name for k in kerns], [sp["code"] for sp in specs]))
    except Exception as e:      # classified by the caller
        for r in results:
            r["call_err"] = classify_exc(e)
            r["call_exc"] = e
        kerns = None
    for j, (spec, res) in enumerate(zip(specs, results)):
        if kerns is None:
            break
        try:
            with Recording() as runs:
                cal = KernCallArgList(kerns[j])
                cal.generate(var_accesses=VariablesAccessInfo())
                run = runs[0]
            shapes, _ = call_shapes(text, spec["code"])
            if [norm(s["text"]) for s in shapes] != [norm(x) for x in run["arglist"]]:
                raise Unrecognised("KernCallArgList.arglist differs from the generated call: %s vs %s"
                                   % (run["arglist"], [s["text"] for s in shapes]))
            modes = [m for e in run["events"] for m in e["modes"]]
            if [norm(n) for e in run["events"] for n in e["names"]] != [norm(x) for x in run["arglist"]]:
                raise Unrecognised("an argument was appended outside the logged ArgOrdering hooks")
            if len(modes) != len(shapes):
                raise Unrecognised("mode log length %d != %d actual arguments" % (len(modes), len(shapes)))
            res["call"] = {"text": text, "shapes": shapes, "events": run["events"], "modes": modes}
        except Exception as e:
            res["call_err"] = classify_exc(e)
            res["call_exc"] = e
    # ---- stub side: each kernel's own stub
    for spec, kfile, res in zip(specs, kfiles, results):
        try:
            with Recording() as runs:
                stub = generate(str(kfile), api="lfric")
                stext = str(stub)
            sruns = [r for r in runs if r["side"] == "stub" and r["done"]]
            if len(sruns) != 1:
                raise Unrecognised("expected one KernStubArgList.generate run, got %d" % len(sruns))
            dummies, subname, modname, _ = stub_shapes(stext)
            if [d["name"] for d in dummies] != [norm(x) for x in sruns[0]["arglist"]]:
                raise Unrecognised("KernStubArgList.arglist differs from the stub dummy list")
            if [norm(n) for e in sruns[0]["events"] for n in e["names"]] != [d["name"] for d in dummies]:
                raise Unrecognised("a stub argument was appended outside the logged ArgOrdering hooks")
            res["stub"] = {"text": stext, "dummies": dummies, "events": sruns[0]["events"], "subname": subname,
                           "modname": modname}
        except Exception as e:
            res["stub_err"] = classify_exc(e)
            res["stub_exc"] = e
    return results


def work(job):
    """Worker entry point (multiprocessing): run a list of items in this process.  An item is a spec
    (one kernel, one invoke) or {"group": [specs], "id", "dm", "colour"} (one invoke, several kernels);
    returns one result per item (a list of results for a group)."""
    from pathlib import Path
    import shutil
    items, workdir = job
    install_hooks()
    out = []
    for it in items:
        group = it["group"] if "group" in it else [it]
        d = Path(workdir) / ("case_%s" % it.get("id", group[0]["name"]))     # kernel names repeat (bc kernels)
        d.mkdir(parents=True, exist_ok=True)
        try:
            rs = run_group(group, d, dm=it.get("dm", False), colour=it.get("colour", False))
        finally:
            shutil.rmtree(d, ignore_errors=True)
        for r in rs:
            r.pop("call_exc", None)
            r.pop("stub_exc", None)
        out.append(rs if "group" in it else rs[0])
    return out
