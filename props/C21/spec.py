"""C21 — Python mirror of the metadata-level predicates of coq/C21/{Model,Safe,Rules}.v, returning
REASON CODES (why a case is outside `safe` / `rules_safe`).  The Coq checks receive the mirror's
verdict and require it to equal the Coq definition, so the two cannot drift apart silently."""
import re

BC_RE = re.compile(r"enforce_bc_(\d+_)?code", re.I)
DEFAULT = {"real": "r_def", "integer": "i_def", "logical": "l_def"}


def is_intergrid(spec):
    return any(a["k"] == "field" and a["mesh"] for a in spec["args"])


def cma_operation(spec):
    cmas = [a for a in spec["args"] if a["k"] == "cma"]
    if not cmas:
        return None
    wc = sum(1 for a in cmas if a["acc"] != "read")
    if wc == 0:
        return "apply"
    return "assembly" if len(cmas) == 1 else "matrix-matrix"


def basis_required(spec):
    return any(ops for _, ops in spec["funcs"])


def eval_shapes(spec):
    return list(spec["shapes"]) if basis_required(spec) else []


def quad_then_eval(shapes):
    seen = []
    for i, s in enumerate(shapes):
        if s != "gh_evaluator":
            if s in seen:
                return False
            seen.append(s)
        else:
            return i == len(shapes) - 1
    return True


def basis_known(fs):
    return not (fs.startswith("any_space_") or fs.startswith("any_discontinuous_space_"))


def stub_supported(spec):
    return (spec["operates_on"] == "cell_column" and not is_intergrid(spec)
            and all(basis_known(f) or not ops for f, ops in spec["funcs"]))


def arg_default(a):
    if a["k"] in ("scalar", "field"):
        return a["prec"] == DEFAULT[a["dtype"]]
    if a["k"] == "op":
        return a["prec"] == "r_def"
    return True


def first_stencil(spec):
    for a in spec["args"]:
        if a["k"] == "field" and a["stencil"]:
            return a["stencil"]
    return None


def unsafe_reasons(spec, strict=True, variant=(False, False)):
    """[] iff Safe.safe variant strict m = true; otherwise the failing clauses.
    variant = (basis in shape order, stencil sizes declared per argument)."""
    out = []
    if spec["operates_on"] != "cell_column":
        out.append("operates-on-" + spec["operates_on"])
    if is_intergrid(spec):
        out.append("intergrid")
    if strict and not all(arg_default(a) for a in spec["args"]):
        out.append("mixed-precision")
    arr = first_stencil(spec) == "cross2d"
    if not variant[1] and any(a["k"] == "field" and a["stencil"] and (a["stencil"] == "cross2d") != arr
                              for a in spec["args"]):
        out.append("stencil-size-mixed-cross2d")
    if not variant[0] and not quad_then_eval(eval_shapes(spec)):
        out.append("evaluator-before-quadrature")
    return out


def kname(spec):
    if BC_RE.match(spec["code"]):
        return "bc"
    if spec["code"].lower() == "enforce_operator_bc_code":
        return "opbc"
    return "other"


def unique_fss(spec):
    out = []
    for a in spec["args"]:
        for key in ("fs", "fs2"):
            if a.get(key) and a[key] not in out:
                out.append(a[key])
    return out


def rules_unsafe_reasons(spec, variant=(False, False)):
    """[] iff Rules.rules_safe m = true; otherwise codes naming the clause of the user guide that the
    code departs from (or on which the guide is silent)."""
    out = []
    args = spec["args"]
    if spec["operates_on"] != "cell_column":
        out.append("doc/operates-on-" + spec["operates_on"])
    if kname(spec) != "other":
        out.append("doc/boundary-condition-kernel-undocumented")
    if any(a["k"] == "field" and a["stencil"] == "xory1d" for a in args):
        out.append("doc/xory1d-direction-after-dofmap")
    if spec["refelem"]:
        out.append("doc/refelem-normals-integer")
    if any(ops not in ([], ["gh_basis"], ["gh_diff_basis"], ["gh_basis", "gh_diff_basis"]) for _, ops in spec["funcs"]):
        out.append("doc/basis-operations-in-metadata-order")
    if not variant[0] and not quad_then_eval(eval_shapes(spec)):
        out.append("doc/evaluator-before-quadrature")
    quads = [s for s in eval_shapes(spec) if s != "gh_evaluator"]
    if len(set(quads)) != len(quads):
        out.append("doc/duplicate-quadrature-shapes")
    plain = not spec["funcs"] and not spec["mesh"]
    if is_intergrid(spec):
        if not plain or not all(a["k"] == "field" for a in args):
            out.append("doc/intergrid-silent")
    else:
        op = cma_operation(spec)
        if op == "assembly":
            if not plain:
                out.append("doc/cma-silent-on-funcs-or-mesh")
            if not (args and args[0]["k"] == "op" and not any(a["k"] == "op" for a in args[1:])):
                out.append("doc/cma-assembly-single-ncell3d")
        elif op == "apply":
            if not plain:
                out.append("doc/cma-silent-on-funcs-or-mesh")
            cma = [a for a in args if a["k"] == "cma"][0]
            ok = (all(a["k"] in ("field", "cma") for a in args) and cma["fs"] == cma["fs2"]
                  and unique_fss(spec) == [cma["fs"]]
                  and any(a["k"] == "field" and a["fs"] == cma["fs"] for a in args))
            if not ok:
                out.append("doc/cma-apply-indirection-maps-last")
        elif op == "matrix-matrix":
            if not plain:
                out.append("doc/cma-silent-on-funcs-or-mesh")
            if not all(a["k"] in ("cma", "scalar") for a in args):
                out.append("doc/cma-mm-args")
    return out
