"""C21 — encoding of a generated case and of the implementation's logged behaviour as Coq terms
(types of coq/C21/Model.v and Corr.v), and the mapping from the NAMES the implementation gives
the kernel arguments to the role tags of Corr.role_tag."""
import re

FS = {"w0": "W0", "w1": "W1", "w2": "W2", "w2trace": "W2trace", "w2h": "W2h", "w2htrace": "W2htrace",
      "any_w2": "AnyW2", "w3": "W3", "wtheta": "Wtheta", "w2v": "W2v", "w2vtrace": "W2vtrace",
      "w2broken": "W2broken", "wchi": "Wchi"}
PLAIN_FS = set(FS)
TY = {"real": "TReal", "integer": "TInt", "logical": "TLogical"}
KIND = {"r_def": "KRdef", "r_solver": "KRsolver", "r_tran": "KRtran", "r_bl": "KRbl", "r_phys": "KRphys",
        "i_def": "KIdef", "l_def": "KLdef"}
ACC = {"read": "ARead", "write": "AWrite", "readwrite": "AReadWrite", "inc": "AInc", "readinc": "AReadInc"}
ST = {"x1d": "SX1d", "y1d": "SY1d", "xory1d": "SXory1d", "cross": "SCross", "region": "SRegion",
      "cross2d": "SCross2d"}
SHAPE = {"gh_quadrature_xyoz": "QXyoz", "gh_quadrature_face": "QFace", "gh_quadrature_edge": "QEdge",
         "gh_evaluator": "Evaluator"}
REFP = {"normals_to_horizontal_faces": "NormH", "normals_to_vertical_faces": "NormV", "normals_to_faces": "NormF",
        "outward_normals_to_horizontal_faces": "OutH", "outward_normals_to_vertical_faces": "OutV",
        "outward_normals_to_faces": "OutF"}
OPON = {"cell_column": "CellColumn", "domain": "Domain", "dof": "Dof"}
BC_RE = re.compile(r"enforce_bc_(\d+_)?code", re.I)


class CannotEncode(Exception):
    pass


def fs(name):
    name = name.lower()
    if name in FS:
        return FS[name]
    m = re.match(r"^any_space_(\d+)$", name)
    if m:
        return "(AnySpace %s)" % m.group(1)
    m = re.match(r"^any_discontinuous_space_(\d+)$", name)
    if m:
        return "(AnyDisc %s)" % m.group(1)
    raise CannotEncode("function space %r" % name)


def clist(items):
    return "[" + "; ".join(items) + "]"


def marg(a):
    if a["k"] == "scalar":
        return "MScalar %s %s %s" % (TY[a["dtype"]], KIND[a["prec"]], ACC[a["acc"]])
    if a["k"] == "field":
        st = "(Some %s)" % ST[a["stencil"]] if a["stencil"] else "None"
        ms = {"coarse": "(Some Coarse)", "fine": "(Some Fine)", None: "None"}[a["mesh"]]
        return "MField %s %s %s %s %d %s %s" % (TY[a["dtype"]], KIND[a["prec"]], ACC[a["acc"]], fs(a["fs"]),
                                                a["vec"], st, ms)
    if a["k"] == "op":
        return "MOp %s %s %s %s" % (KIND[a["prec"]], ACC[a["acc"]], fs(a["fs"]), fs(a["fs2"]))
    return "MCma %s %s %s" % (ACC[a["acc"]], fs(a["fs"]), fs(a["fs2"]))


def metadata(spec):
    code = spec["code"]
    name = "KOther"
    if BC_RE.match(code):
        name = "KEnforceBc"
    elif code.lower() == "enforce_operator_bc_code":
        name = "KEnforceOperatorBc"
    funcs = clist("(%s, %s)" % (fs(f), clist({"gh_basis": "Basis", "gh_diff_basis": "DiffBasis"}[o] for o in ops))
                  for f, ops in spec["funcs"])
    return "(mkM %s %s %s %s %s %s %s %s)" % (
        clist(marg(a) for a in spec["args"]), funcs, clist(SHAPE[s] for s in spec["shapes"]),
        clist(fs(t) for t in (spec["targets"] or [])), clist(REFP[p] for p in spec["refelem"]),
        clist("AdjacentFace" for _ in spec["mesh"]), OPON[spec["operates_on"]], name)


# ------------------------------------------------------------------ names -> role tags
NORMALS = ["out_normals_to_horiz_faces", "out_normals_to_vert_faces", "out_normals_to_faces",
           "normals_to_horiz_faces", "normals_to_vert_faces", "normals_to_faces"]
_QR = r"_qr_(xyoz|face|edge)v?$"


def _short(x):
    return x if x in PLAIN_FS else "any"


def tag_of(name):
    """Role tag of an argument from the name the implementation gave it (call actual or stub dummy).
    Fail-closed: an unknown name raises."""
    t = name.replace(" ", "").lower()
    base = re.sub(r"\(.*\)$", "", t)
    if t in ("cell", "cmap(colour,cell)") or re.match(r"^cmap\w*\(colour,cell\)$", t):
        return "cell"
    if base in ("nlayers", "ncell_2d_no_halos", "ncell_2d", "nfaces_re_h", "nfaces_re_v", "nfaces_re",
                "adjacent_face"):
        return base
    if base in NORMALS:
        return base
    for pre in ("diff_basis", "basis"):
        m = re.match(r"^%s_(\w+?)%s" % (pre, _QR), base)
        if m and base.startswith(pre + "_"):
            return "%s_q:%s" % (pre, m.group(2))
        m = re.match(r"^%s_(\w+?)_on_(\w+)$" % pre, base)
        if m and base.startswith(pre + "_"):
            return "%s_e:%s" % (pre, _short(m.group(2)))
    m = re.match(r"^(np_xy|np_z|weights_xy|weights_z)" + _QR, base)
    if m:
        return {"np_xy": "qr_n1", "np_z": "qr_n2", "weights_xy": "qr_w1", "weights_z": "qr_w2"}[m.group(1)] + ":xyoz"
    m = re.match(r"^(nfaces|nedges|np_xyz|weights_xyz)" + _QR, base)
    if m:
        return {"nfaces": "qr_n1", "nedges": "qr_n1", "np_xyz": "qr_n2", "weights_xyz": "qr_w1"}[m.group(1)] + \
            ":" + m.group(2)
    if re.match(r"^cell_map_\w+$", base):
        return "cell_map"
    m = re.match(r"^ncpc_\w+_(x|y)$", base)
    if m:
        return "ncpc_" + m.group(1)
    if re.match(r"^ncell_f\d+$", base):
        return "ncell_f"
    # stencils (call: f<i>_..., stub: field_<i>_...)
    # (PSyclone appends _<n> when several kernels of one invoke have a stencil on the same field)
    m = re.match(r"^(?:f|field_)\d+_(stencil_size|max_branch_length|direction|stencil_dofmap)(?:_\d+)?$", base)
    if m:
        return {"stencil_size": "st_size", "max_branch_length": "st_max", "direction": "st_dir",
                "stencil_dofmap": "st_map"}[m.group(1)]
    # operators
    if re.match(r"^op\d+_proxy%ncell_3d$", t) or re.match(r"^op_\d+_ncell_3d$", base):
        return "op_ncell_3d"
    if re.match(r"^op\d+_local_stencil$", base) or re.match(r"^op_\d+$", base):
        return "op"
    m = re.match(r"^(?:cma\d+|cma_op_\d+)_(nrow|ncol|bandwidth|alpha|beta|gamma_m|gamma_p)$", base)
    if m:
        return "cma_" + m.group(1)
    if re.match(r"^cma\d+_cma_matrix$", base) or re.match(r"^cma_op_\d+$", base):
        return "cma"
    # function-space quantities
    if re.match(r"^cma_indirection_map_\w+$", base):
        return "indirection"
    if re.match(r"^cbanded_map_\w+$", base):
        return "banded"
    if re.match(r"^boundary_dofs_\w+$", base):
        return "boundary_dofs"
    if re.match(r"^undf_\w+$", base):
        return "undf"
    if re.match(r"^ndf_\w+$", base):
        return "ndf"
    if re.match(r"^map_\w+$", base):
        return "map"
    # fields
    m = re.match(r"^f\d+_(\d+)_data$", base) or re.match(r"^field_\d+_\w+_v(\d+)$", base)
    if m:
        return "fieldv:" + m.group(1)
    if re.match(r"^f\d+_data$", base) or re.match(r"^field_\d+_\w+$", base):
        return "field"
    # scalars (algorithm names rsc<i>/isc<i>/lsc<i>, literals, stub names rscalar_<i> ...)
    if re.match(r"^[ril]sc\d+$", base) or re.match(r"^[ril]scalar_\d+$", base):
        return "scalar"
    if re.match(r"^[+-]?[\d.]+(e[+-]?\d+)?(_\w+)?$", t) or re.match(r"^\.(true|false)\.(_\w+)?$", t):
        return "scalar"
    raise CannotEncode("no role for argument name %r" % name)


def cstr(s):
    return '"' + s.replace('"', '""') + '"'


def shape_term(ty, kind, rank, intent):
    if ty not in TY or kind not in KIND or intent not in ("in", "inout") or rank < 0:
        raise CannotEncode("shape %r" % ((ty, kind, rank, intent),))
    return "(mkA %s %s %d %s)" % (TY[ty], KIND[kind], rank, "IIn" if intent == "in" else "IInOut")


def key_term(k):
    if k is None:
        return "KNone"
    if k[0] == "arg":
        return "(KArg %d)" % k[1]
    return "(KFs %s)" % fs(k[1])


def events_term(events, slots):
    """events: list of dict(hook, key, names); slots: flat list of (name, type, kind, rank, intent)."""
    out, pos = [], 0
    for e in events:
        n = len(e["names"])
        items = []
        for (nm, ty, kd, rk, it) in slots[pos:pos + n]:
            items.append("(%s, %s)" % (cstr(tag_of(nm)), shape_term(ty, kd, rk, it)))
        pos += n
        out.append("(%s, %s, %s)" % (cstr(e["hook"]), key_term(e["key"]), clist(items)))
    return clist(out)


def call_slots(call):
    return [(s["text"], s["type"], s["kind"], s["rank"], "in" if m == "READ" else "inout")
            for s, m in zip(call["shapes"], call["modes"])]


def stub_slots(stub):
    return [(d["name"], d["type"], d["kind"], d["rank"], d["intent"]) for d in stub["dummies"]]


def case_term(spec, res):
    """(metadata * option (list obs_event) * stub_obs) for Corr.check."""
    m = metadata(spec)
    if res.get("call"):
        oc = "(Some %s)" % events_term(res["call"]["events"], call_slots(res["call"]))
    else:
        oc = "None"
    if res.get("stub"):
        os_ = "(StubEvents %s)" % events_term(res["stub"]["events"], stub_slots(res["stub"]))
    elif (res.get("stub_err") or "").startswith("stub-refused/"):
        os_ = "StubRefused"
    else:
        os_ = "StubUnknown"
    return "(%s, %s, %s)" % (m, oc, os_)
