"""C21 — LFRic kernel calls match the kernel interface for all metadata.

Model: coq/C21/Model.v (walk = ArgOrdering.generate; call_args / stub_args = the hooks of
KernCallArgList / KernStubArgList + the stub's declarations).  Theorems: coq/Properties/C21.v.
Tie: translator (props/C21/translate.py -> coq/C21/GenHooks.v: hook order, override table, code variant)
+ correspondence: a generator of valid kernel metadata (gen.py) with a matching algorithm layer; for
every case the real PSy layer and the real kernel stub are generated with every ArgOrdering hook
wrapped (extract.py), the declared (type, kind, rank, intent) of every actual / dummy argument is
resolved in the generated Fortran, and

  (a) the property itself is evaluated on the implementation's results (position by position: count,
      role, intrinsic type, kind, rank, intent) -- this is what finds concrete failing inputs;
  (b) the logged event sequences and argument shapes of both classes are compared with the model, and
      the user guide's rules (Rules.doc_list) with the observed lists, by vm_compute (CaseCheck.case_ok).

Thorough tier: PSy layer + stub (as the kernel module) are compiled with gfortran against a scratch
build of the LFRic infrastructure, so the compiler type-checks the call."""
import json
import multiprocessing
import os
import shutil
import sys
import time
from pathlib import Path

HERE = Path(__file__).resolve().parent
if str(HERE) not in sys.path:
    sys.path.insert(0, str(HERE))
from vlib import core  # noqa: E402
import gen as G  # noqa: E402
import extract as X  # noqa: E402
import coqenc as E  # noqa: E402
import spec as S  # noqa: E402
import translate as T  # noqa: E402

K_BASIS = "KernCallArgList.basis/evaluator-before-quadrature"
K_STSIZE = "LFRicStencils._declare_unique_extent_vars/stencil-size-rank-mixed-cross2d"
K_NFACES = "DynReferenceElement/nfaces_re_h-undeclared-in-psy-layer"
DOC = "doc:dynamo0p3.rst/"
HEADER = ("From PV Require Import C21.Model C21.Safe C21.Corr C21.Rules C21.RulesCheck C21.GenHooks C21.CaseCheck.\n"
          "Require Import Coq.Strings.String.\nOpen Scope string_scope.")
CASE_TYPE = "metadata * option (list obs_event) * stub_obs * (bool * (bool * bool * bool))"


# ------------------------------------------------------------------------------ fixed witnesses
def _fld(acc, fs, st=None, vec=1, dtype="real"):
    return {"k": "field", "dtype": dtype, "acc": acc, "fs": fs, "vec": vec, "stencil": st, "mesh": None,
            "prec": "i_def" if dtype == "integer" else "r_def"}


def _spec(name, args, **kw):
    sp = {"name": name, "code": name + "_code", "mode": "witness", "operates_on": "cell_column", "args": args,
          "funcs": [], "shapes": [], "targets": None, "refelem": [], "mesh": [], "mixed": False}
    sp.update(kw)
    return sp


W_NFACES = _spec("c21w_nfaces_kernel", [_fld("inc", "w1")],
                 refelem=["outward_normals_to_vertical_faces"], mesh=["adjacent_face"])
DOC_WITNESSES = [
    (DOC + "general-3.2.4-xory1d-direction-after-dofmap",
     _spec("c21d_xory1d_kernel", [_fld("inc", "w1"), _fld("read", "w2", "xory1d")])),
    (DOC + "cma-application-4-6-indirection-maps-last",
     _spec("c21d_apply_kernel", [_fld("inc", "w1"), _fld("read", "w2"),
                                 {"k": "cma", "acc": "read", "fs": "w1", "fs2": "w2"}])),
    (DOC + "cma-assembly-4-single-ncell3d",
     _spec("c21d_assembly_kernel", [{"k": "cma", "acc": "write", "fs": "w2", "fs2": "w3"},
                                    {"k": "op", "acc": "read", "fs": "w2", "fs2": "w3", "prec": "r_def"}])),
    (DOC + "general-4.3-basis-operations-in-metadata-order",
     _spec("c21d_basis_kernel", [_fld("inc", "w1")], funcs=[("w1", ["gh_diff_basis", "gh_basis"])],
           shapes=["gh_quadrature_xyoz"])),
    (DOC + "general-5-face-normals-integer",
     _spec("c21d_refelem_kernel", [_fld("inc", "w1")], refelem=["normals_to_horizontal_faces"])),
    (DOC + "domain-dofmap-rank",
     _spec("c21d_domain_kernel", [{"k": "scalar", "dtype": "real", "acc": "read", "prec": "r_def", "literal": False},
                                  _fld("readwrite", "w3")], operates_on="domain")),
]


# ------------------------------------------------------------------------------ workers
def run_all(ctx, specs, workdir):
    jobs = max(1, int(os.environ.get("VERIF_JOBS", "4")))
    if len(specs) < 8 or jobs == 1:
        return X.work((specs, str(workdir)))
    chunk = max(4, (len(specs) + jobs * 4 - 1) // (jobs * 4))
    parts = [specs[i:i + chunk] for i in range(0, len(specs), chunk)]
    import gc
    gc.collect()
    gc.freeze()           # keep the forked workers from touching (copying) the parent's heap
    with multiprocessing.get_context("fork").Pool(jobs) as pool:
        res = pool.map(X.work, [(p, str(workdir)) for p in parts], chunksize=1)
    return [r for part in res for r in part]


# ------------------------------------------------------------------------------ the property itself
BASIS_TAGS = ("basis_q", "basis_e", "diff_basis_q", "diff_basis_e")


def positions_to_args(events):
    """flat list: meta_args index of the hook that produced each position (or None)."""
    out = []
    for e in events:
        idx = e["key"][1] if e["key"] and e["key"][0] == "arg" else None
        out += [idx] * len(e["names"])
    return out


def compare(spec, res):
    """Evaluate the property on the implementation's results.  Returns a list of failures, each a
    dict(pos, what, call, stub) -- empty when call and stub agree position by position."""
    c, s, modes = res["call"]["shapes"], res["stub"]["dummies"], res["call"]["modes"]
    fails = []
    if len(c) != len(s):
        fails.append({"pos": None, "what": "count", "call": len(c), "stub": len(s)})
    owner = positions_to_args(res["call"]["events"])
    for p in range(min(len(c), len(s))):
        a, b = c[p], s[p]
        ci = "in" if modes[p] == "READ" else "inout"
        try:
            ta, tb = E.tag_of(a["text"]), E.tag_of(b["name"])
        except E.CannotEncode as err:
            fails.append({"pos": p, "what": "role-unknown", "call": a["text"], "stub": b["name"], "err": str(err)})
            continue
        rec = {"pos": p, "call": {"arg": a["text"], "role": ta, "type": a["type"], "kind": a["kind"],
                                  "rank": a["rank"], "access": ci},
               "stub": {"arg": b["name"], "role": tb, "type": b["type"], "kind": b["kind"], "rank": b["rank"],
                        "intent": b["intent"]}}
        if ta != tb:
            fails.append(dict(rec, what="role"))
        if a["type"] != b["type"]:
            fails.append(dict(rec, what="type"))
        if a["rank"] != b["rank"]:
            fails.append(dict(rec, what="rank"))
        if ci != b["intent"]:
            fails.append(dict(rec, what="intent"))
        if b["intent"] in ("inout", "out") and not a["definable"]:
            fails.append(dict(rec, what="actual-not-definable"))
        if a["kind"] != b["kind"]:
            # mixed precision: the algorithm layer chose another precision for this data argument;
            # the stub (metadata only) has the default one -- by design, not demanded by the property
            i = owner[p] if p < len(owner) else None
            arg = spec["args"][i] if i is not None and i < len(spec["args"]) else None
            by_design = (arg is not None and ta.split(":")[0] in ("field", "fieldv", "op", "scalar")
                         and not S.arg_default(arg) and a["kind"] == arg["prec"]
                         and b["kind"] == S.DEFAULT.get(arg.get("dtype", "real"), "r_def"))
            if not by_design:
                fails.append(dict(rec, what="kind"))
    return fails


def classify(spec, fail, variant):
    """Known-finding key explaining one failure, or a specific new key."""
    reasons = S.unsafe_reasons(spec, True, variant)
    if fail["pos"] is not None and "call" in fail and isinstance(fail["call"], dict):
        ra, rb = fail["call"]["role"].split(":")[0], fail["stub"]["role"].split(":")[0]
        if ra in BASIS_TAGS and rb in BASIS_TAGS and "evaluator-before-quadrature" in reasons:
            return K_BASIS
        if ra == "st_size" and rb == "st_size" and fail["what"] == "rank" and "stencil-size-mixed-cross2d" in reasons:
            return K_STSIZE
        return "call-vs-stub/%s/%s-vs-%s" % (fail["what"], ra, rb)
    return "call-vs-stub/%s" % fail["what"]


def nfaces_defect(spec, res):
    return (res.get("call_err") or "").startswith("Unrecognised: actual argument 'nfaces_re_h' is not declared")


def replay_info(ctx, spec, res, extra=None):
    group = spec.get("group") or [spec]
    d = {"property": "C21", "kernel_metadata_file": G.kernel_text(spec), "algorithm_file": G.alg_text_group(group),
         "other_kernels_of_the_invoke": {x["name"]: G.kernel_text(x) for x in group if x is not spec},
         "distributed_memory": spec.get("dm", False), "coloured": spec.get("colour", False),
         "how_to_replay": "write the two files into one directory (kernel as <name>_mod.f90); "
                          "psyclone.parse.algorithm.parse(alg, api='lfric', kernel_paths=[dir]) + "
                          "PSyFactory('lfric', distributed_memory=...).create(info).gen gives the call; "
                          "psyclone.gen_kernel_stub.generate(kernel, api='lfric') gives the stub "
                          "(PSYCLONE_CONFIG=<tree>/config/psyclone.cfg, PYTHONPATH=<tree>/src)"}
    if res.get("call"):
        d["call_arguments"] = [s["text"] for s in res["call"]["shapes"]]
    if res.get("stub"):
        d["stub_arguments"] = [x["name"] for x in res["stub"]["dummies"]]
    d["call_error"], d["stub_error"] = res.get("call_err"), res.get("stub_err")
    if extra:
        d.update(extra)
    return d


# ------------------------------------------------------------------------------ Coq cases
def case_term(spec, res, variant):
    parsed = bool(res.get("call") or res.get("stub") or (res.get("stub_err") or "").startswith("stub-refused/"))
    flags = "(%s, (%s, %s, %s))" % (
        "true" if parsed else "false",
        "true" if not S.unsafe_reasons(spec, True, variant) else "false",
        "true" if not S.unsafe_reasons(spec, False, variant) else "false",
        "true" if not S.rules_unsafe_reasons(spec, variant) else "false")
    base = E.case_term(spec, res)          # "(m, oc, os)"
    return "(%s, %s)" % (base[1:-1], flags)


DIAG = ["model /= KernCallArgList (event sequence, roles or shapes of the call)",
        "model /= KernStubArgList / stub declarations (or stub acceptance)",
        "implementation parsed metadata that md_valid rejects",
        "Python mirror of safe(strict) /= Coq", "Python mirror of safe(mixed) /= Coq",
        "Python mirror of rules_safe /= Coq",
        "theorem walk_matches_rules evaluates to false on this metadata",
        "user guide rules /= OBSERVED call although rules_safe holds",
        "user guide rules /= OBSERVED stub although rules_safe and safe hold"]


# ------------------------------------------------------------------------------ gfortran (thorough)
def build_infrastructure(ctx):
    src = core.REPO / "src" / "psyclone" / "tests" / "test_files" / "dynamo0p3" / "infrastructure"
    dst = Path("/var/tmp/C21-%d" % os.getpid()) / "infrastructure"
    shutil.rmtree(dst.parent, ignore_errors=True)
    shutil.copytree(src, dst)
    rc, out = core.sh("make F90=gfortran F90FLAGS='-g' -j4 > make.log 2>&1; tail -5 make.log", cwd=dst, timeout=900)
    if not (dst / "liblfric.a").exists():
        shutil.rmtree(dst.parent, ignore_errors=True)
        raise RuntimeError("LFRic infrastructure build failed:\n" + out[-1500:])
    incs = []
    for d in sorted(p for p in dst.rglob("*") if p.is_dir()):
        incs += ["-I", str(d)]
    return dst.parent, incs


def compile_pair(workdir, incs, tag, stub_text, psy_text):
    d = workdir / tag
    d.mkdir(parents=True, exist_ok=True)
    (d / "kern.f90").write_text(stub_text + "\n")
    (d / "psy.f90").write_text(psy_text + "\n")
    rc, out = core.sh(["gfortran", "-c", "-ffree-line-length-none"] + incs + ["kern.f90"], cwd=d, timeout=120)
    if rc != 0:
        return "stub", out
    rc, out = core.sh(["gfortran", "-c", "-ffree-line-length-none"] + incs + ["psy.f90"], cwd=d, timeout=120)
    shutil.rmtree(d, ignore_errors=True)
    return ("ok", "") if rc == 0 else ("psy", out)


# ------------------------------------------------------------------------------ main
def run(ctx):
    ctx.cov["rule"] = (
        "valid LFRic kernel metadata drawn by props/C21/gen.py from 9 streams (general-purpose: scalars real/"
        "integer/logical incl. literals x fields real/integer x vectors x LMA operators x all access modes "
        "allowed for the space x 33 function spaces x 6 stencil types x basis/diff-basis in either order x 1-4 "
        "of the 4 gh_shapes x gh_evaluator_targets x reference-element and mesh properties; CMA assembly / "
        "application / matrix-matrix; inter-grid; domain; dof; the two boundary-condition kernels), mixed "
        "precision in 25% of the cases, distributed memory and colouring at random; a matching algorithm "
        "file with one invoke.  evaluation = one case run through real PSy-layer and stub generation; "
        "non-trivial = both a kernel call and a stub were produced (the property's antecedent); distinct = "
        "canonical metadata")
    ctx.cov["trusted_base"] = core.BASE_TRUST + [
        "model coq/C21/Model.v is hand-written; tied to ArgOrdering/KernCallArgList/KernStubArgList by the "
        "logged hook sequences and argument shapes of every generated case (CaseCheck.case_ok) and to the "
        "source by the regenerated tables of GenHooks.v",
        "coq/C21/Rules.v is my transcription of the numbered rules of doc/user_guide/dynamo0p3.rst",
        "extraction of (type, kind, rank, intent) from the generated Fortran uses fparser2 + the small "
        "resolver of props/C21/extract.py (fail-closed); cross-checked by gfortran in the thorough tier",
        "role of an argument is read off its generated NAME by the regular expressions of coqenc.tag_of",
        "gfortran 12 as the acceptance oracle of the thorough tier; LFRic infrastructure stubs shipped in the tree"]
    ctx.assumptions = [
        "the algorithm layer declares default-precision objects (safe strict); mixed precision: kinds not compared",
        "valid metadata has pairwise distinct gh_shape entries (with duplicates PSy-layer generation itself fails)",
        "intent of an actual argument = Fortran intent implied by the access mode KernCallArgList records for it"]
    t0 = time.time()
    # ---- 1. translator
    tr_err = None
    try:
        info = T.generate(scratch=ctx.scratch / "translate")
        variant = info["variant"]
        ctx.notes["variant"] = {"basis_in_shape_order": variant[0], "stencil_sizes_per_arg": variant[1]}
    except Exception as err:      # fail-closed translator: report below, keep searching for inputs
        tr_err = "%s: %s" % (type(err).__name__, err)
        variant = (False, False)
    # ---- 2. proofs
    ok, rep = ctx.prove()
    # the executable checks are not in the closure of Properties/C21.v but depend on GenHooks.v; they are
    # built (and the search for a failing input goes on) even when a proof obligation is broken
    can_eval, out = ctx.coq_make(["C21/CaseCheck.vo"])
    if not can_eval and ok:
        ok = False
        rep.setdefault("errors", []).append("coq build of C21/CaseCheck.vo failed")
        rep["build_log_tail"] = out[-3000:]
    ctx.log("translator %s; proof ok=%s discharged=%d/%d" % ("ok variant=%s" % (variant,) if not tr_err else tr_err,
                                                            ok, ctx.cov["discharged"], ctx.cov["obligations"]))
    # ---- 3. cases
    X.install_hooks()
    rng = ctx.rng("gen")
    n = int(os.environ.get("C21_CASES", ctx.pick(90, 900)))      # C21_CASES: debugging override only
    specs = [T.W_SHAPES, T.W_STENCIL, T.W_STENCIL_REV, W_NFACES] + [w for _, w in DOC_WITNESSES]
    n_fixed = len(specs)
    corpus = HERE / "corpus"
    if corpus.is_dir():
        for f in sorted(corpus.glob("*.json")):
            specs.append(json.loads(f.read_text()))
    for i in range(n):
        sp = G.gen_spec(rng, i)
        sp["dm"] = rng.random() < 0.3
        sp["colour"] = rng.random() < 0.3
        if rng.random() < 0.08:          # malformed stream: one metadata rule broken
            sp["malformed"] = G.make_invalid(rng, sp)
            sp["mode"] = "malformed"
        specs.append(sp)
    items = list(specs)
    # multi-kernel invokes: 2-3 kernels of ONE invoke share algorithm-layer arguments which their metadata
    # describe differently (the model is per kernel: independence from the rest of the invoke is tested here)
    groups = []
    for f in sorted((HERE / "corpus_groups").glob("*.json")) if (HERE / "corpus_groups").is_dir() else []:
        groups.append(json.loads(f.read_text()))
    rngm = ctx.rng("multi")
    for i in range(int(os.environ.get("C21_GROUPS", ctx.pick(16, 120)))):
        g = (G.gen_cma_group if i % 3 == 0 else G.gen_shared_group)(rngm, 5000 + i)
        groups.append({"group": g, "dm": rngm.random() < 0.3, "colour": rngm.random() < 0.3})
    for g in groups:
        items.append(g)
        for j, sp in enumerate(g["group"]):
            sp["dm"], sp["colour"] = g.get("dm", False), g.get("colour", False)
            sp["invoke"] = [x["name"] for x in g["group"]]
            sp["group"] = g["group"]
            specs.append(sp)
    for k, it in enumerate(items):
        it["id"] = k
    workdir = ctx.scratch / "cases"
    workdir.mkdir(parents=True, exist_ok=True)
    results = []
    for r in run_all(ctx, items, workdir):
        results += r if isinstance(r, list) else [r]
    ctx.log("ran %d cases through PSy-layer and stub generation in %.0fs" % (len(specs), time.time() - t0))
    # ---- 4. the property on the implementation's results
    violations, coq_cases, coq_idx = [], [], []
    n_unexplained = n_unencodable = n_dup = 0
    both = []
    for k, (sp, res) in enumerate(zip(specs, results)):
        key = {x: sp[x] for x in ("operates_on", "args", "funcs", "shapes", "targets", "refelem", "mesh", "code")
               if k >= n_fixed or x != "code"}
        has_both = bool(res.get("call") and res.get("stub"))
        ctx.count(json.dumps(key, sort_keys=True, default=str), has_both)
        ctx.hist("stream", sp["mode"])
        ctx.hist("n_meta_args", len(sp["args"]))
        if sp["shapes"]:
            ctx.hist("gh_shape", "+".join(s.replace("gh_", "").replace("quadrature_", "q") for s in sp["shapes"]))
        for a in sp["args"]:
            ctx.hist("arg_kind", a["k"] + ("*" if a.get("vec", 1) > 1 else "") +
                     (":" + a["stencil"] if a.get("stencil") else ""))
        outcome = ("call+stub" if has_both else
                   "call only (%s)" % res["stub_err"] if res.get("call") else
                   "stub only (%s)" % (res["call_err"] or "")[:70] if res.get("stub") else
                   "neither (%s | %s)" % ((res["call_err"] or "")[:60], (res["stub_err"] or "")[:50]))
        ctx.hist("outcome", outcome)
        if sp.get("malformed"):
            ctx.hist("malformed", "%s: %s" % (sp["malformed"], "accepted" if (res.get("call") or res.get("stub"))
                                              else "rejected by both generators"))
        ctx.hist("safe", "safe" if not S.unsafe_reasons(sp, True, variant) else
                 ",".join(S.unsafe_reasons(sp, True, variant)))
        if res.get("coloured"):
            ctx.hist("options", "coloured")
        if sp.get("dm"):
            ctx.hist("options", "distributed-memory")
        if sp.get("invoke"):
            ctx.hist("options", "%d kernels in the invoke" % len(sp["invoke"]))
        # (0) direct oracles on each generated list: every quantity is passed once
        dup_s = dup_c = []
        if res.get("stub"):
            names = [d["name"] for d in res["stub"]["dummies"]]
            dup_s = sorted({x for x in names if names.count(x) > 1})
        if res.get("call"):
            acts = [X.norm(x["text"]) for x in res["call"]["shapes"] if x["definable"] or not
                    (x["text"].strip()[0] in "0123456789.+-")]
            dup_c = sorted({x for x in acts if acts.count(x) > 1})
        if dup_s or dup_c:
            n_dup += 1
            ctx.hist("duplicate_argument", ",".join(dup_s or dup_c))
            if n_dup <= 3:
                ctx.violation(replay_info(ctx, sp, res, {
                    "what": "an argument is passed twice: the documented rules pass every quantity once"
                            + ("; a dummy argument name occurring twice makes the generated stub invalid Fortran"
                               if dup_s else ""),
                    "duplicated_stub_dummies": dup_s, "duplicated_call_actuals": dup_c,
                    "known_doc_discrepancy_classes_of_this_metadata": S.rules_unsafe_reasons(sp, variant)}))
        # (i) call vs stub
        if has_both:
            both.append(k)
            fails = compare(sp, res)
            if fails:
                WHAT = {K_BASIS: "gh_shape lists gh_evaluator before a quadrature shape: the kernel call passes "
                                 "the quadrature basis arrays (rank 4) first, the stub (and the user guide) the "
                                 "evaluator arrays (rank 3) first",
                        K_STSIZE: "kernel with a cross2d stencil and another stencil type: the stub declares all "
                                  "stencil sizes with the shape of the FIRST stencil argument, the call passes "
                                  "size(cell) / size(:,cell)"}
                keyed = [(classify(sp, f, variant), f) for f in fails]
                unknown = [(k_, f) for k_, f in keyed if k_ not in WHAT]
                for key_ in sorted({k_ for k_, _ in keyed if k_ in WHAT}):
                    ctx.finding(key_, WHAT[key_], replay_info(ctx, sp, res, {
                        "failures": [f for k_, f in keyed if k_ == key_][:4]}))
                if unknown:
                    # one report per case: its first differing position (later ones are usually a consequence)
                    n_unexplained += 1
                    ctx.hist("unexplained_difference", unknown[0][0])
                    if n_unexplained <= 4:
                        ctx.finding(unknown[0][0], "kernel call and generated stub disagree",
                                    replay_info(ctx, sp, res, {"first_failure": unknown[0][1],
                                                               "n_failures_in_case": len(fails)}))
        # (ii) a call argument that is not declared in the PSy layer
        if nfaces_defect(sp, res):
            ctx.finding(K_NFACES, "meta_mesh adjacent_face + reference-element properties without a horizontal one: "
                        "the PSy layer assigns and passes nfaces_re_h but never declares it",
                        replay_info(ctx, sp, res))
        elif sp["operates_on"] == "dof" and not res.get("call"):
            # "Support for DoF kernels has not yet been implemented" (user guide): PSy-layer generation
            # fails in various places (loop bounds, halo exchanges); the stub generator refuses them too
            ctx.hist("refused", "dof kernel: " + (res.get("call_err") or "")[:60])
        elif res.get("call_err") and not res["call_err"].startswith("refused/") and \
                (res.get("stub") or (res.get("stub_err") or "").startswith("stub-refused/")):
            ctx.violation(replay_info(ctx, sp, res, {
                "what": "the metadata is accepted (a stub is generated or refused only for a documented reason) but "
                        "PSy-layer generation / resolution of the kernel call failed"}))
        elif res.get("stub_err") and res.get("call") and not res["stub_err"].startswith("stub-refused/"):
            ctx.violation(replay_info(ctx, sp, res, {
                "what": "a kernel call is generated but the kernel-stub generator fails with an undocumented error"}))
        # Coq case
        try:
            coq_cases.append(case_term(sp, res, variant))
            coq_idx.append(k)
        except E.CannotEncode as err:
            n_unencodable += 1
            ctx.hist("not_expressible_in_model", str(err)[:80])
            if n_unencodable <= 3:
                ctx.violation(replay_info(ctx, sp, res, {"what": "result cannot be expressed in the model: %s" % err}))
    nb = len(both)
    if both:
        k = both[min(len(both) - 1, n_fixed + 3)]
        ctx.sample({"metadata": G.kernel_text(specs[k]).split("\n")[6:-8],
                    "call": [s["text"] for s in results[k]["call"]["shapes"]],
                    "stub": [d["name"] for d in results[k]["stub"]["dummies"]]})
        k = both[-1]
        ctx.sample({"metadata": G.kernel_text(specs[k]).split("\n")[6:-8],
                    "call_shapes": ["%s/%s/r%d" % (s["type"], s["kind"], s["rank"]) for s in results[k]["call"]["shapes"]],
                    "stub_shapes": ["%s/%s/r%d/%s" % (d["type"], d["kind"], d["rank"], d["intent"])
                                    for d in results[k]["stub"]["dummies"]]})
    # ---- 5. documented-rule findings: replay the witnesses against the OBSERVED lists
    doc_cases, doc_keys = [], []
    for j, (key_, w) in enumerate(DOC_WITNESSES):
        res = results[4 + j]
        obs = res.get("stub") or res.get("call")
        if not obs:
            continue
        slots = E.stub_slots(obs) if res.get("stub") else E.call_slots(obs)
        try:
            doc_cases.append("(%s, %s)" % (E.metadata(w), E.events_term(obs["events"], slots)))
            doc_keys.append((key_, w, res))
        except E.CannotEncode:
            pass
    # ---- 6. model vs implementation, guide vs implementation (vm_compute)
    failing, doc_failing = [], []
    if can_eval:
        failing = ctx.coq_eval_failing(HEADER, CASE_TYPE, "case_ok", coq_cases, shard=ctx.pick(60, 150))
        if doc_cases:
            doc_failing = ctx.coq_eval_failing(HEADER, "metadata * list obs_event", "doc_agrees_obs", doc_cases)
    ctx.cov["disagreements_checked"] = len(failing)
    DOCWHAT = {
        "general-3.2.4-xory1d-direction-after-dofmap": "user guide rule 3.2.4 lists the XORY1D direction argument "
        "after the stencil dofmap; caller and stub pass size, direction, dofmap",
        "cma-application-4-6-indirection-maps-last": "user guide CMA-application rules 4-6 list both indirection maps "
        "after all ndf/undf/dofmap blocks; caller and stub interleave them per function space",
        "cma-assembly-4-single-ncell3d": "user guide CMA-assembly rule 4 has one ncell_3d before the meta_args loop; "
        "caller and stub pass <op>_ncell_3d in front of every LMA operator",
        "general-4.3-basis-operations-in-metadata-order": "user guide rule 4.3 orders basis/diff-basis as written in "
        "meta_funcs; caller and stub always pass basis first",
        "general-5-face-normals-integer": "user guide rule 5 declares the face-normal arrays integer(i_def); caller "
        "and stub declare them real(r_def)",
        "domain-dofmap-rank": "user guide: domain kernels differ from general-purpose ones only by ncell_2d_no_halos; "
        "the caller passes the whole (rank-2) dofmap"}
    for j in doc_failing:
        key_, w, res = doc_keys[j]
        ctx.finding(key_, DOCWHAT[key_.split("/")[-1]], replay_info(ctx, w, res, {
            "documented_rules": "coq/C21/Rules.v doc_list (transcription of doc/user_guide/dynamo0p3.rst)"}))
    ctx.notes["cases_with_unexplained_call_vs_stub_difference"] = n_unexplained
    ctx.log("cases=%d call+stub=%d unexplained call/stub differences=%d model/guide disagreements=%d known findings "
            "printed=%d violations=%d (%.0fs)" % (len(specs), nb, n_unexplained, len(failing), len(ctx.known_printed),
                                                  len(ctx.violations), time.time() - t0))
    # ---- 7. thorough: gfortran type-checks the call against the stub
    if ctx.thorough:
        gfortran_tier(ctx, specs, results, both, variant)
    # ---- 8. verdict for broken proof / translator / correspondence
    first = None
    n_doc_viol = 0
    for fi in failing[:8]:
        k = coq_idx[fi]
        diag = ctx.coq_eval_show(HEADER, ["case_diag %s" % coq_cases[fi]])
        flags = [x == "true" for x in diag[0].replace("=", " ").replace("[", " ").replace("]", " ")
                 .replace(";", " ").split() if x in ("true", "false")][:len(DIAG)]
        broken = [DIAG[i] for i, f in enumerate(flags) if not f]
        ctx.hist("broken_relation", " + ".join(broken) or "unparsed")
        if len(flags) == len(DIAG) and not all(flags[i] for i in (0, 1, 7, 8)) and n_doc_viol < 3:
            n_doc_viol += 1
            # concrete input on which the implementation departs from the documented rules: either directly
            # (rules_safe holds) or because it departs from the model, which is proved equal to the rules
            # except for the listed discrepancy classes (all of which the model reproduces)
            m_ = E.metadata(specs[k])
            doc = ctx.coq_eval_show(HEADER, ["map (fun s => role_tag (fst s)) (doc_list %s)" % m_,
                                             "map (fun s => role_tag (fst s)) (call_list gen_variant %s)" % m_,
                                             "map (fun s => role_tag (fst s)) (stub_list gen_variant %s)" % m_])
            ctx.violation(replay_info(ctx, specs[k], results[k], {
                "what": "the argument list generated for this metadata does not follow the documented "
                        "argument-ordering rules (doc/user_guide/dynamo0p3.rst): it differs from the rules directly "
                        "(rules_safe holds) and/or from the model of ArgOrdering, which is proved to equal the rules "
                        "up to the known discrepancy classes listed below (none of which explains the difference, "
                        "the model reproduces them)",
                "known_doc_discrepancy_classes_of_this_metadata": S.rules_unsafe_reasons(specs[k], variant),
                "documented_roles": doc[0][:2500], "model_call_roles": doc[1][:2500], "model_stub_roles": doc[2][:2500],
                "observed_call_roles": [E.tag_of(x["text"]) for x in results[k]["call"]["shapes"]] if results[k].get("call") else None,
                "observed_stub_roles": [E.tag_of(x["name"]) for x in results[k]["stub"]["dummies"]] if results[k].get("stub") else None,
                "broken_relations": broken}))
        if first is None:
            first = {"case": replay_info(ctx, specs[k], results[k]), "broken_relations": broken,
                     "model_call": ctx.coq_eval_show(HEADER, ["map (expect (call_args gen_variant)) (walk %s)"
                                                              % E.metadata(specs[k])])[0][:3000]}
    if (tr_err or not ok or failing) and not ctx.violations:
        ctx.violation({"property": "C21",
                       "broken": ("translator (fail-closed): " + tr_err) if tr_err else
                       "proof obligations of Properties/C21.v" if not ok else
                       "correspondence CaseCheck.case_ok (model / user-guide rules vs implementation)",
                       "proof_report": rep if not ok else None, "n_differing": len(failing),
                       "first_differing_case": first}, no_input=True)


def gfortran_tier(ctx, specs, results, both, variant):
    t0 = time.time()
    tmp = None
    try:
        tmp, incs = build_infrastructure(ctx)
        rng = ctx.rng("gfortran")
        # (a multi-kernel PSy layer would need the stubs of all its kernels: single-kernel invokes only)
        cand = [k for k in both if not specs[k].get("mixed") and not specs[k].get("invoke")]
        fixed = [k for k in cand if specs[k]["mode"] == "witness"]
        rest = [k for k in cand if specs[k]["mode"] != "witness"]
        rng.shuffle(rest)
        todo = fixed + rest[:220]
        n_ok = n_rej = 0
        for k in todo:
            sp, res = specs[k], results[k]
            if res["stub"]["subname"].lower() != sp["code"].lower() or \
                    res["stub"]["modname"].lower() != (sp["name"] + "_mod").lower():
                # the stub generator names module and subroutine after the procedure name (bc kernels)
                ctx.hist("gfortran", "skipped: stub is %s/%s" % (res["stub"]["modname"][:24], res["stub"]["subname"][:24]))
                continue
            verdict, out = compile_pair(tmp, incs, "c%d" % k, res["stub"]["text"], res["call"]["text"])
            expect_ok = not compare(sp, res)
            ctx.hist("gfortran", "%s / property %s" % (verdict, "holds" if expect_ok else "fails"))
            if verdict == "ok":
                n_ok += 1
            else:
                n_rej += 1
            if verdict != "ok" and expect_ok:
                ctx.violation(replay_info(ctx, sp, res, {
                    "what": "position-by-position comparison found no difference but gfortran rejects the %s"
                            % ("generated kernel stub" if verdict == "stub" else
                               "PSy layer compiled against the generated stub"), "gfortran": out[-1500:]}))
            elif verdict == "ok" and not expect_ok:
                # explicit-shape dummies: a rank mismatch between arrays is legal sequence association
                ctx.notes.setdefault("gfortran_accepts_mismatch", []).append(sp["name"])
        ctx.notes["gfortran"] = {"compiled": len(todo), "accepted": n_ok, "rejected": n_rej,
                                 "wall_s": round(time.time() - t0, 1)}
        ctx.log("gfortran: %d pairs compiled, %d accepted, %d rejected (%.0fs)" % (len(todo), n_ok, n_rej,
                                                                                  time.time() - t0))
    finally:
        if tmp:
            shutil.rmtree(tmp, ignore_errors=True)
