"""C21 translator (fail-closed):  working tree under test  ->  coq/C21/GenHooks.v

1. static (ast): the sequence of `self.<hook>(...)` calls in the source of ArgOrdering.generate, in
   source order.  Any call on `self` that is not one of the known hooks raises.
2. static+dynamic: per hook, whether ArgOrdering gives it a body (more than a docstring) and whether
   KernCallArgList / KernStubArgList define it themselves (class __dict__).  A hook that becomes
   overridden in one class only changes this table and breaks the obligation Hooks.overrides_ok_.
3. dynamic: which variant of the two repaired defects the tree contains (Model.variant): the two
   refutation witnesses are run through the real PSy-layer / stub generation.  Anything but the
   two known behaviours raises.

Run stand-alone (as `./check --setup` does, PYTHONPATH=<tree>/src:/verif, PSYCLONE_CONFIG set) or
through generate()."""
import ast
import os
import shutil
import sys
from pathlib import Path

HERE = Path(__file__).resolve().parent
sys.path.insert(0, str(HERE.parent.parent))
sys.path.insert(0, str(HERE))
from vlib import core  # noqa: E402

OUT = core.COQ / "C21" / "GenHooks.v"


class TranslateError(Exception):
    pass


def hook_calls_and_bodies(src_path):
    import extract as X
    tree = ast.parse(Path(src_path).read_text())
    cls = [n for n in tree.body if isinstance(n, ast.ClassDef) and n.name == "ArgOrdering"]
    if len(cls) != 1:
        raise TranslateError("class ArgOrdering not found in %s" % src_path)
    funcs = {n.name: n for n in cls[0].body if isinstance(n, ast.FunctionDef)}
    if "generate" not in funcs:
        raise TranslateError("ArgOrdering.generate not found")
    order = []

    class V(ast.NodeVisitor):
        def visit_Call(self, node):
            f = node.func
            if isinstance(f, ast.Attribute) and isinstance(f.value, ast.Name) and f.value.id == "self":
                if f.attr not in X.HOOKS:
                    raise TranslateError("ArgOrdering.generate calls self.%s(), which is not a known hook" % f.attr)
                order.append(f.attr)
            self.generic_visit(node)
    V().visit(funcs["generate"])
    bodies = {}
    for h in X.HOOKS:
        fn = funcs.get(h)
        if fn is None:
            bodies[h] = None
            continue
        stmts = [s for s in fn.body
                 if not (isinstance(s, ast.Expr) and isinstance(getattr(s, "value", None), ast.Constant)
                         and isinstance(s.value.value, str))]
        stmts = [s for s in stmts if not isinstance(s, ast.Pass)]
        bodies[h] = bool(stmts)
    return order, bodies


def override_table(bodies):
    import extract as X
    from psyclone.domain.lfric import KernCallArgList, KernStubArgList
    table = []
    for h in X.HOOKS:
        if bodies[h] is None:
            raise TranslateError("hook %s is not defined in ArgOrdering" % h)
        table.append((h, bodies[h], h in KernCallArgList.__dict__, h in KernStubArgList.__dict__))
    return table


W_SHAPES = {"name": "c21w_shapes_kernel", "code": "c21w_shapes_kernel_code", "mode": "witness",
            "operates_on": "cell_column",
            "args": [{"k": "field", "dtype": "real", "acc": "inc", "fs": "w1", "vec": 1, "stencil": None,
                      "mesh": None, "prec": "r_def"},
                     {"k": "field", "dtype": "real", "acc": "read", "fs": "w2", "vec": 1, "stencil": None,
                      "mesh": None, "prec": "r_def"},
                     {"k": "field", "dtype": "real", "acc": "read", "fs": "w2", "vec": 1, "stencil": None,
                      "mesh": None, "prec": "r_def"},
                     {"k": "field", "dtype": "real", "acc": "read", "fs": "w3", "vec": 1, "stencil": None,
                      "mesh": None, "prec": "r_def"}],
            "funcs": [("w1", ["gh_basis"]), ("w2", ["gh_diff_basis"]), ("w3", ["gh_basis", "gh_diff_basis"])],
            "shapes": ["gh_evaluator", "gh_quadrature_face"], "targets": None, "refelem": [], "mesh": [],
            "mixed": False}


def w_stencil(first, second, name):
    def fld(acc, fs, st):
        return {"k": "field", "dtype": "real", "acc": acc, "fs": fs, "vec": 1, "stencil": st, "mesh": None,
                "prec": "r_def"}
    return {"name": name, "code": name + "_code", "mode": "witness", "operates_on": "cell_column",
            "args": [fld("readwrite", "w3", None), fld("read", "w2", first), fld("read", "w2broken", second)],
            "funcs": [], "shapes": [], "targets": None, "refelem": [], "mesh": [], "mixed": False}


W_STENCIL = w_stencil("y1d", "cross2d", "c21w_stencil_kernel")
W_STENCIL_REV = w_stencil("cross2d", "y1d", "c21w_stencil_rev_kernel")


def detect_variant(workdir):
    import extract as X
    import coqenc as E
    X.install_hooks()
    workdir.mkdir(parents=True, exist_ok=True)
    r = X.run_case(W_SHAPES, workdir)
    if not r["call"]:
        raise TranslateError("witness (shapes) could not be run through the PSy layer: %s" % r["call_err"])
    tags = [E.tag_of(s["text"]) for s in r["call"]["shapes"]]
    basis = [t for t in tags if t.startswith("basis_") or t.startswith("diff_basis_")]
    first2 = [t.split(":")[0] for t in basis[:2]]
    if first2 == ["basis_q", "basis_e"]:
        b1 = False
    elif first2 == ["basis_e", "basis_q"]:
        b1 = True
    else:
        raise TranslateError("unrecognised basis-argument order in the kernel call: %s" % basis)
    ranks = {}
    for w in (W_STENCIL, W_STENCIL_REV):
        r = X.run_case(w, workdir)
        if not r["stub"]:
            raise TranslateError("witness (stencil) stub could not be generated: %s" % r["stub_err"])
        ranks[w["name"]] = [d["rank"] for d in r["stub"]["dummies"] if E.tag_of(d["name"]) == "st_size"]
    got = (ranks[W_STENCIL["name"]], ranks[W_STENCIL_REV["name"]])
    if got == ([0, 0], [1, 1]):
        b2 = False
    elif got == ([0, 1], [1, 0]):
        b2 = True
    else:
        raise TranslateError("unrecognised stencil-size declarations in the stub: %s" % (got,))
    return b1, b2


def cbool(b):
    return "true" if b else "false"


def generate(scratch=None):
    src = core.REPO / "src" / "psyclone" / "domain" / "lfric" / "arg_ordering.py"
    order, bodies = hook_calls_and_bodies(src)
    table = override_table(bodies)
    wd = Path(scratch) if scratch else core.VERIF / ".scratch" / ("C21-translate-%d" % os.getpid())
    try:
        b1, b2 = detect_variant(wd)
    finally:
        if not scratch:
            shutil.rmtree(wd, ignore_errors=True)
    L = ["(* GENERATED by props/C21/translate.py from the tree under test - do not edit. *)",
         "From Coq Require Import List String.", "Import ListNotations.", "From PV Require Import C21.Model.",
         "Local Open Scope string_scope.", "",
         "(* self.<hook>() calls in ArgOrdering.generate, in source order *)",
         "Definition gen_hook_order : list string :=",
         "  [" + "; ".join('"%s"' % h for h in order) + "].", "",
         "(* hook, (ArgOrdering gives it a body, KernCallArgList defines it, KernStubArgList defines it) *)",
         "Definition gen_overrides : list (string * (bool * bool * bool)) :=", "  ["]
    L.append(";\n".join('   ("%s", (%s, %s, %s))' % (h, cbool(a), cbool(b), cbool(c)) for h, a, b, c in table))
    L += ["  ].", "",
          "(* variant of the anchored code in this tree (Model.variant) *)",
          "Definition gen_variant : variant := mkV %s %s." % (cbool(b1), cbool(b2)), ""]
    changed = core.write_if_changed(OUT, "\n".join(L))
    return {"order": order, "table": table, "variant": (b1, b2), "changed": changed}


if __name__ == "__main__":
    info = generate()
    print("C21 translator: %d hook calls, variant=%s, %s" % (len(info["order"]), info["variant"],
                                                             "written" if info["changed"] else "unchanged"))
