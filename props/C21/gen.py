"""C21 — generator of VALID LFRic kernel metadata + a matching algorithm layer.

A case is a plain dict (the *spec*):
  name      base name (module <name>_mod, type <name>_type, procedure <code>)
  code      name of the kernel subroutine (normally <name>_code; special for the bc kernels)
  mode      generator stream: general | cma_asm | cma_apply | cma_mm | intergrid | domain | dof |
            bc_field | bc_op
  operates_on  cell_column | domain | dof
  args      list of dicts:
              {k: scalar, dtype: real|integer|logical, acc: read, prec: <kind>, literal: bool}
              {k: field, dtype: real|integer, acc, fs, vec: n>=1, stencil: None|type, mesh: None|coarse|fine,
               prec: <kind>}
              {k: op,  acc, fs, fs2, prec}
              {k: cma, acc, fs, fs2}
  funcs     list of (fs, [gh_basis|gh_diff_basis, ...])   (order as written in meta_funcs)
  shapes    list of gh_shape entries (order as written)
  targets   None | list of function spaces (gh_evaluator_targets)
  refelem   list of reference-element properties, mesh: list of mesh properties
The rules enforced are those of LFRicArgDescriptor / LFRicKernMetadata (see NOTES.md)."""

CONT = ["w0", "w1", "w2", "w2trace", "w2h", "w2htrace", "any_w2"]
DISC = ["w3", "wtheta", "w2v", "w2vtrace", "w2broken"]
ANYS = ["any_space_%d" % i for i in range(1, 11)]
ANYD = ["any_discontinuous_space_%d" % i for i in range(1, 11)]
RO = ["wchi"]
ALL_FS = CONT + DISC + RO + ANYS + ANYD
DISC_ALL = DISC + ANYD
STENCILS = ["x1d", "y1d", "xory1d", "cross", "region", "cross2d"]
QSHAPES = ["gh_quadrature_xyoz", "gh_quadrature_face", "gh_quadrature_edge"]
SHAPES = QSHAPES + ["gh_evaluator"]
REFPROPS = ["normals_to_horizontal_faces", "normals_to_vertical_faces", "normals_to_faces",
            "outward_normals_to_horizontal_faces", "outward_normals_to_vertical_faces",
            "outward_normals_to_faces"]
# spaces for which the stub generator knows the basis dimension
BASIS_KNOWN = ["w0", "w1", "w2", "w2trace", "w2h", "w2htrace", "any_w2", "w3", "wtheta", "w2v", "w2vtrace",
               "w2broken", "wchi"]
REAL_PRECS = ["r_def", "r_solver", "r_tran", "r_bl", "r_phys"]
OP_PRECS = ["r_def", "r_solver", "r_tran"]
FIELD_TYPE = {"r_def": ("field_mod", "field_type"), "r_solver": ("r_solver_field_mod", "r_solver_field_type"),
              "r_tran": ("r_tran_field_mod", "r_tran_field_type"), "r_bl": ("r_bl_field_mod", "r_bl_field_type"),
              "r_phys": ("r_phys_field_mod", "r_phys_field_type"),
              "i_def": ("integer_field_mod", "integer_field_type")}
OP_TYPE = {"r_def": ("operator_mod", "operator_type"),
           "r_solver": ("r_solver_operator_mod", "r_solver_operator_type"),
           "r_tran": ("r_tran_operator_mod", "r_tran_operator_type")}
QR_TYPE = {"gh_quadrature_xyoz": ("quadrature_xyoz_mod", "quadrature_xyoz_type"),
           "gh_quadrature_face": ("quadrature_face_mod", "quadrature_face_type"),
           "gh_quadrature_edge": ("quadrature_edge_mod", "quadrature_edge_type")}


def is_cont(fs):
    return fs in CONT or fs in ANYS


def field_accesses(fs, operates_on):
    if fs in RO:
        return ["read"]
    if operates_on == "dof":
        return ["read", "write", "readwrite"]
    if is_cont(fs):
        return ["read", "write", "inc", "readinc"]
    return ["read", "write", "readwrite"]


def pick_fs(rng, pool_bias=None):
    """Function space with a bias towards re-using spaces already present (so unique_fss has repeats)."""
    if pool_bias and rng.random() < 0.45:
        return rng.choice(pool_bias)
    r = rng.random()
    if r < 0.40:
        return rng.choice(CONT)
    if r < 0.72:
        return rng.choice(DISC)
    if r < 0.84:
        return rng.choice(ANYS[:4])
    if r < 0.94:
        return rng.choice(ANYD[:4])
    return "wchi"


def real_prec(rng, mixed, choices=REAL_PRECS):
    return rng.choice(choices) if mixed else "r_def"


def mk_field(rng, fs, operates_on, allow_int, mixed, want_write=None, allow_stencil=True, allow_vec=True):
    accs = field_accesses(fs, operates_on)
    if want_write is True:
        accs = [a for a in accs if a != "read"] or accs
    elif want_write is False:
        accs = ["read"]
    acc = rng.choice(accs)
    dtype = "integer" if (allow_int and rng.random() < 0.2) else "real"
    a = {"k": "field", "dtype": dtype, "acc": acc, "fs": fs, "vec": 1, "stencil": None, "mesh": None,
         "prec": "i_def" if dtype == "integer" else real_prec(rng, mixed)}
    if allow_vec and rng.random() < 0.22:
        a["vec"] = rng.choice([2, 3, 3, 4])
    if allow_stencil and acc == "read" and rng.random() < 0.45:
        a["stencil"] = rng.choice(STENCILS)
    return a


def mk_scalar(rng, mixed):
    dtype = rng.choice(["real", "real", "integer", "logical"])
    prec = {"real": real_prec(rng, mixed), "integer": "i_def", "logical": "l_def"}[dtype]
    # (a logical literal is refused by the algorithm-layer parser: "Unsupported argument structure")
    return {"k": "scalar", "dtype": dtype, "acc": "read", "prec": prec,
            "literal": dtype != "logical" and rng.random() < 0.15}


def spaces_of(args):
    out = []
    for a in args:
        for key in ("fs", "fs2"):
            if a.get(key) and a[key] not in out:
                out.append(a[key])
    return out


def add_funcs(rng, spec, p=0.5, allow_unknown_basis=True):
    """meta_funcs / gh_shape / gh_evaluator_targets (rules of LFRicKernMetadata.__init__/_validate)."""
    fss = spaces_of(spec["args"])
    if not fss or rng.random() > p:
        return
    cand = [f for f in fss if f in BASIS_KNOWN or (allow_unknown_basis and rng.random() < 0.08)]
    rng.shuffle(cand)
    chosen = cand[:rng.choice([1, 1, 2, 2, 3])]
    funcs = []
    for f in chosen:
        ops = rng.choice([["gh_basis"], ["gh_diff_basis"], ["gh_basis", "gh_diff_basis"],
                          ["gh_diff_basis", "gh_basis"]])
        funcs.append((f, ops))
    if not funcs:
        return
    n = rng.choice([1, 1, 1, 2, 2, 3, 4])
    shapes = rng.sample(SHAPES, n)
    spec["funcs"] = funcs
    spec["shapes"] = shapes
    if "gh_evaluator" in shapes and rng.random() < 0.5:
        k = rng.choice([1, 1, 2, 3])
        t = list(fss)
        rng.shuffle(t)
        spec["targets"] = t[:k]


def add_props(rng, spec, p_ref=0.3, p_mesh=0.25):
    if rng.random() < p_ref:
        n = rng.choice([1, 1, 2, 2, 3, 4])
        spec["refelem"] = rng.sample(REFPROPS, n)      # duplicates are a ParseError
    if rng.random() < p_mesh:
        spec["mesh"] = ["adjacent_face"]


def gen_general(rng, spec, mixed):
    n = rng.choice([1, 2, 2, 3, 3, 4, 4, 5, 6, 7])
    kinds = [rng.choice(["scalar", "field", "field", "field", "op"]) for _ in range(n)]
    if all(k == "scalar" for k in kinds):
        kinds[rng.randrange(n)] = "field"
    has_op = "op" in kinds
    args, pool = [], []
    for k in kinds:
        if k == "scalar":
            args.append(mk_scalar(rng, mixed))
        elif k == "field":
            fs = pick_fs(rng, pool)
            args.append(mk_field(rng, fs, "cell_column", not has_op, mixed))
            pool.append(fs)
        else:
            fs, fs2 = pick_fs(rng, pool), pick_fs(rng, pool)
            args.append({"k": "op", "acc": rng.choice(["read", "write", "readwrite"]), "fs": fs, "fs2": fs2,
                         "prec": real_prec(rng, mixed, OP_PRECS)})
            pool += [fs, fs2]
    ensure_written(rng, args, "cell_column")
    spec["args"] = args
    add_funcs(rng, spec)
    add_props(rng, spec)


def ensure_written(rng, args, operates_on):
    """At least one non-scalar argument is written (a stencil field is read-only, wchi is read-only)."""
    if any(a["acc"] != "read" for a in args):
        return
    cands = [a for a in args if a["k"] in ("field", "op") and a.get("fs") not in RO]
    if not cands:
        fs = rng.choice(CONT + DISC)
        a = mk_field(rng, fs, operates_on, False, False, want_write=True, allow_stencil=False)
        args.insert(rng.randrange(len(args) + 1), a)
        return
    a = rng.choice(cands)
    if a["k"] == "op":
        a["acc"] = rng.choice(["write", "readwrite"])
    else:
        a["stencil"] = None
        a["acc"] = rng.choice([x for x in field_accesses(a["fs"], operates_on) if x != "read"])


def gen_cma_asm(rng, spec, mixed):
    fs, fs2 = pick_fs(rng), pick_fs(rng)
    if rng.random() < 0.35:
        fs2 = fs
    args = [{"k": "cma", "acc": rng.choice(["write", "readwrite"]), "fs": fs, "fs2": fs2}]
    pool = [fs, fs2]
    for _ in range(rng.choice([1, 1, 2])):
        a, b = pick_fs(rng, pool), pick_fs(rng, pool)
        args.append({"k": "op", "acc": "read", "fs": a, "fs2": b, "prec": real_prec(rng, mixed, OP_PRECS)})
    for _ in range(rng.choice([0, 0, 1, 2])):
        if rng.random() < 0.5:
            args.append(mk_scalar(rng, mixed))
        else:
            f = pick_fs(rng, pool)
            args.append(mk_field(rng, f, "cell_column", False, mixed, want_write=False, allow_stencil=False,
                                 allow_vec=False))
    rng.shuffle(args)
    spec["args"] = args
    add_funcs(rng, spec, p=0.2)
    add_props(rng, spec, 0.1, 0.1)


def gen_cma_apply(rng, spec, mixed):
    fs, fs2 = pick_fs(rng), pick_fs(rng)
    while fs in RO:
        fs = pick_fs(rng)
    if rng.random() < 0.35:
        fs2 = fs
    args = [{"k": "cma", "acc": "read", "fs": fs, "fs2": fs2},
            mk_field(rng, fs, "cell_column", False, mixed, want_write=True, allow_stencil=False, allow_vec=False),
            mk_field(rng, fs2, "cell_column", False, mixed, want_write=False, allow_stencil=False,
                     allow_vec=False)]
    rng.shuffle(args)
    spec["args"] = args


def gen_cma_mm(rng, spec, mixed):
    n = rng.choice([2, 2, 3, 4])
    args = []
    pool = []
    for i in range(n):
        fs, fs2 = pick_fs(rng, pool), pick_fs(rng, pool)
        if rng.random() < 0.3:
            fs2 = fs
        pool += [fs, fs2]
        args.append({"k": "cma", "acc": "read", "fs": fs, "fs2": fs2})
    args[rng.randrange(n)]["acc"] = rng.choice(["write", "readwrite"])
    for _ in range(rng.choice([0, 0, 1, 2])):
        args.append(mk_scalar(rng, mixed))
    rng.shuffle(args)
    spec["args"] = args


def gen_intergrid(rng, spec, mixed):
    fsc, fsf = rng.sample(CONT + DISC + ANYS[:3] + ANYD[:3], 2)
    nc, nf = rng.choice([1, 1, 2]), rng.choice([1, 1, 2])
    args = []
    for mesh, fs, n in (("coarse", fsc, nc), ("fine", fsf, nf)):
        for _ in range(n):
            a = mk_field(rng, fs, "cell_column", True, mixed, allow_stencil=False)
            a["mesh"] = mesh
            args.append(a)
    rng.shuffle(args)
    ensure_written(rng, args, "cell_column")
    spec["args"] = args


def gen_domain(rng, spec, mixed):
    n = rng.choice([1, 2, 3, 4])
    args, pool = [], []
    for _ in range(n):
        if rng.random() < 0.3:
            args.append(mk_scalar(rng, mixed))
        else:
            fs = rng.choice(pool) if pool and rng.random() < 0.4 else rng.choice(DISC + ANYD[:3])
            pool.append(fs)
            args.append(mk_field(rng, fs, "domain", True, mixed, allow_stencil=False))
    if not any(a["k"] == "field" for a in args):
        args.append(mk_field(rng, rng.choice(DISC), "domain", True, mixed, allow_stencil=False))
    ensure_written(rng, args, "domain")
    spec["args"] = args
    spec["operates_on"] = "domain"


def gen_dof(rng, spec, mixed):
    fs = pick_fs(rng)
    while fs in RO:
        fs = pick_fs(rng)
    n = rng.choice([1, 2, 3])
    args = [mk_field(rng, fs, "dof", True, mixed, allow_stencil=False) for _ in range(n)]
    for _ in range(rng.choice([0, 1, 2])):
        args.append(mk_scalar(rng, mixed))
    rng.shuffle(args)
    ensure_written(rng, args, "dof")
    spec["args"] = args
    spec["operates_on"] = "dof"


def gen_bc_field(rng, spec, mixed):
    # MetadataToArgumentsRules.bc_kern_regex matches the *subroutine* name enforce_bc_code;
    # the boundary-dofs argument is added for the space called any_space_1
    spec["name"] = "enforce_bc_kernel"
    spec["code"] = "enforce_bc_code"
    args = [mk_field(rng, "any_space_1", "cell_column", False, mixed, want_write=True, allow_stencil=False,
                     allow_vec=False)]
    spec["args"] = args


def gen_bc_op(rng, spec, mixed):
    spec["name"] = "enforce_operator_bc_kernel"
    spec["code"] = "enforce_operator_bc_code"
    fs, fs2 = pick_fs(rng), pick_fs(rng)
    spec["args"] = [{"k": "op", "acc": "readwrite", "fs": fs, "fs2": fs2, "prec": real_prec(rng, mixed, OP_PRECS)}]


MODES = [("general", 58, gen_general), ("cma_asm", 8, gen_cma_asm), ("cma_apply", 6, gen_cma_apply),
         ("cma_mm", 5, gen_cma_mm), ("intergrid", 7, gen_intergrid), ("domain", 6, gen_domain),
         ("dof", 3, gen_dof), ("bc_field", 4, gen_bc_field), ("bc_op", 3, gen_bc_op)]


def gen_spec(rng, idx, mode=None):
    if mode is None:
        tot = sum(w for _, w, _ in MODES)
        r = rng.random() * tot
        for name, w, _ in MODES:
            r -= w
            if r < 0:
                mode = name
                break
    fn = {n: f for n, _, f in MODES}[mode]
    spec = {"name": "k%d_kernel" % idx, "mode": mode, "operates_on": "cell_column", "args": [], "funcs": [],
            "shapes": [], "targets": None, "refelem": [], "mesh": []}
    spec["code"] = spec["name"] + "_code"
    mixed = rng.random() < 0.25
    fn(rng, spec, mixed)
    spec["mixed"] = any(a.get("prec") in ("r_solver", "r_tran", "r_bl", "r_phys") for a in spec["args"])
    return spec


# ------------------------------------------------------------------------------------- malformed stream
def make_invalid(rng, spec):
    """Break exactly one metadata rule of a valid spec (in place); returns the reason code or None when no
    rule can be broken on this spec.  Every such metadata is refused by LFRicKernMetadata (ParseError)."""
    import copy
    args = spec["args"]
    cands = []
    scal = [a for a in args if a["k"] == "scalar"]
    flds = [a for a in args if a["k"] == "field"]
    if scal:
        cands.append("scalar-written")
    if [a for a in flds if a["stencil"]]:
        cands.append("stencil-not-read-only")
    if [a for a in flds if a["fs"] in DISC + ANYD[:4]] and spec["operates_on"] != "dof":
        cands.append("inc-on-discontinuous-space")
    if [a for a in flds if is_cont(a["fs"])] and spec["operates_on"] == "cell_column":
        cands.append("readwrite-on-continuous-space")
    if not spec["funcs"]:
        cands.append("gh_shape-without-meta_funcs")
    if spec["funcs"]:
        cands.append("meta_funcs-space-not-in-meta_args")
    if spec["refelem"]:
        cands.append("duplicate-reference-element-property")
    cands.append("nothing-written")
    why = rng.choice(cands)
    if why == "scalar-written":
        rng.choice(scal)["acc"] = "write"
    elif why == "stencil-not-read-only":
        a = rng.choice([a for a in flds if a["stencil"]])
        a["acc"] = "inc" if is_cont(a["fs"]) else "readwrite"
    elif why == "inc-on-discontinuous-space":
        rng.choice([a for a in flds if a["fs"] in DISC + ANYD[:4]])["acc"] = "inc"
    elif why == "readwrite-on-continuous-space":
        rng.choice([a for a in flds if is_cont(a["fs"])])["acc"] = "readwrite"
    elif why == "gh_shape-without-meta_funcs":
        spec["shapes"] = [rng.choice(SHAPES)]
    elif why == "meta_funcs-space-not-in-meta_args":
        used = spaces_of(args)
        other = [f for f in CONT + DISC if f not in used]
        spec["funcs"] = list(spec["funcs"]) + [(rng.choice(other), ["gh_basis"])]
    elif why == "duplicate-reference-element-property":
        spec["refelem"] = list(spec["refelem"]) + [spec["refelem"][0]]
    else:
        for a in args:
            a["acc"] = "read"
    return why


# ------------------------------------------------------------------------------------- text
def arg_meta(a):
    acc = "gh_" + a["acc"]
    if a["k"] == "scalar":
        return "arg_type(gh_scalar, gh_%s, %s)" % (a["dtype"], acc)
    if a["k"] == "field":
        first = "gh_field" + ("*%d" % a["vec"] if a["vec"] > 1 else "")
        extra = ""
        if a["stencil"]:
            extra = ", stencil(%s)" % a["stencil"]
        elif a["mesh"]:
            extra = ", mesh_arg=gh_%s" % a["mesh"]
        return "arg_type(%s, gh_%s, %s, %s%s)" % (first, a["dtype"], acc, a["fs"], extra)
    first = "gh_operator" if a["k"] == "op" else "gh_columnwise_operator"
    return "arg_type(%s, gh_real, %s, %s, %s)" % (first, acc, a["fs"], a["fs2"])


def kernel_text(spec):
    n = spec["name"]
    L = ["module %s_mod" % n, "  use argument_mod", "  use fs_continuity_mod", "  use kernel_mod",
         "  use constants_mod", "  implicit none", "  type, extends(kernel_type) :: %s_type" % n]
    args = spec["args"]
    L.append("     type(arg_type), dimension(%d) :: meta_args = (/ &" % len(args))
    for i, a in enumerate(args):
        L.append("          %s%s &" % (arg_meta(a), "," if i < len(args) - 1 else ""))
    L.append("          /)")
    if spec["funcs"]:
        L.append("     type(func_type), dimension(%d) :: meta_funcs = (/ &" % len(spec["funcs"]))
        for i, (fs, ops) in enumerate(spec["funcs"]):
            L.append("          func_type(%s, %s)%s &" % (fs, ", ".join(ops), "," if i < len(spec["funcs"]) - 1 else ""))
        L.append("          /)")
    if spec["refelem"]:
        L.append("     type(reference_element_data_type), dimension(%d) :: meta_reference_element = (/ &"
                 % len(spec["refelem"]))
        for i, p in enumerate(spec["refelem"]):
            L.append("          reference_element_data_type(%s)%s &" % (p, "," if i < len(spec["refelem"]) - 1 else ""))
        L.append("          /)")
    if spec["mesh"]:
        L.append("     type(mesh_data_type), dimension(%d) :: meta_mesh = (/ &" % len(spec["mesh"]))
        for i, p in enumerate(spec["mesh"]):
            L.append("          mesh_data_type(%s)%s &" % (p, "," if i < len(spec["mesh"]) - 1 else ""))
        L.append("          /)")
    L.append("     integer :: operates_on = %s" % spec["operates_on"])
    if len(spec["shapes"]) == 1:
        L.append("     integer :: gh_shape = %s" % spec["shapes"][0])
    elif spec["shapes"]:
        L.append("     integer :: gh_shape(%d) = (/ %s /)" % (len(spec["shapes"]), ", ".join(spec["shapes"])))
    if spec["targets"]:
        L.append("     integer :: gh_evaluator_targets(%d) = (/ %s /)" % (len(spec["targets"]), ", ".join(spec["targets"])))
    L += ["   contains", "     procedure, nopass :: code => %s" % spec["code"], "  end type %s_type" % n, "contains",
          "  subroutine %s()" % spec["code"], "  end subroutine %s" % spec["code"], "end module %s_mod" % n]
    return "\n".join(L) + "\n"


def alg_names(spec):
    """Algorithm-layer actual arguments of one kernel call, in invoke order.  Returns (uses, decls, actuals);
    decls is a list of (variable name, declaration).  An argument may carry an explicit algorithm-layer
    name ("alg", "extent_alg", "dir_alg"; spec["qr_alg"][shape]) so that several kernels of one invoke
    share the same object."""
    uses, decls, actuals = {}, [], []

    def use(mod, sym):
        uses.setdefault(mod, [])
        if sym not in uses[mod]:
            uses[mod].append(sym)
    use("constants_mod", "r_def")
    use("constants_mod", "i_def")
    for i, a in enumerate(spec["args"], 1):
        if a["k"] == "scalar":
            if a.get("literal"):
                lit = {"real": "1.0_%s" % a["prec"], "integer": "2_i_def", "logical": ".true."}[a["dtype"]]
                use("constants_mod", a["prec"])
                actuals.append(lit)
                continue
            nm = a.get("alg") or {"real": "rsc", "integer": "isc", "logical": "lsc"}[a["dtype"]] + str(i)
            use("constants_mod", a["prec"])
            decls.append((nm, "%s(%s) :: %s" % (a["dtype"], a["prec"], nm)))
            actuals.append(nm)
        elif a["k"] == "field":
            nm = a.get("alg") or "f%d" % i
            mod, ty = FIELD_TYPE[a["prec"]]
            use(mod, ty)
            decls.append((nm, "type(%s) :: %s%s" % (ty, nm, "(%d)" % a["vec"] if a["vec"] > 1 else "")))
            actuals.append(nm)
            if a["stencil"]:
                ext = a.get("extent_alg") or "%s_extent" % nm
                decls.append((ext, "integer(i_def) :: %s" % ext))
                actuals.append(ext)
                if a["stencil"] == "xory1d":
                    dr = a.get("dir_alg") or "%s_direction" % nm
                    decls.append((dr, "integer(i_def) :: %s" % dr))
                    actuals.append(dr)
        elif a["k"] == "op":
            nm = a.get("alg") or "op%d" % i
            mod, ty = OP_TYPE[a["prec"]]
            use(mod, ty)
            decls.append((nm, "type(%s) :: %s" % (ty, nm)))
            actuals.append(nm)
        else:
            nm = a.get("alg") or "cma%d" % i
            use("columnwise_operator_mod", "columnwise_operator_type")
            decls.append((nm, "type(columnwise_operator_type) :: %s" % nm))
            actuals.append(nm)
    for s in spec["shapes"]:
        if s in QR_TYPE:
            mod, ty = QR_TYPE[s]
            use(mod, ty)
            nm = (spec.get("qr_alg") or {}).get(s) or "qr_" + s.split("_")[-1] + "v"
            decls.append((nm, "type(%s) :: %s" % (ty, nm)))
            actuals.append(nm)
    return uses, decls, actuals


def alg_text_group(specs):
    """One algorithm file with ONE invoke calling every kernel of `specs` (shared variables declared once)."""
    uses, decls, calls = {}, {}, []
    for spec in specs:
        u, d, actuals = alg_names(spec)
        for mod, syms in u.items():
            for sym in syms:
                uses.setdefault(mod, [])
                if sym not in uses[mod]:
                    uses[mod].append(sym)
        for nm, decl in d:
            if decls.setdefault(nm, decl) != decl:
                raise ValueError("algorithm variable %s declared twice differently: %s / %s" % (nm, decls[nm], decl))
        calls.append("%s_type(%s)" % (spec["name"], ", ".join(actuals)))
    name = specs[0]["name"]
    L = ["program alg_%s" % name]
    for mod, syms in uses.items():
        L.append("  use %s, only: %s" % (mod, ", ".join(syms)))
    for spec in specs:
        L.append("  use %s_mod, only: %s_type" % (spec["name"], spec["name"]))
    L.append("  implicit none")
    L += ["  " + d for d in decls.values()]
    text = "  call invoke( " + ", ".join(calls) + " )"
    out = []
    while len(text) > 100:
        cut = text.rfind(",", 0, 100)
        out.append(text[:cut + 1] + " &")
        text = "       " + text[cut + 1:]
    out.append(text)
    L += out
    L.append("end program alg_%s" % name)
    return "\n".join(L) + "\n"


def alg_text(spec):
    return alg_text_group([spec])


# ------------------------------------------------------------------------------------- multi-kernel invokes
def _name_args(spec, base):
    """Give every argument an explicit algorithm-layer name (numbers start at `base`)."""
    for i, a in enumerate(spec["args"], 1):
        if a["k"] == "scalar":
            a.setdefault("alg", {"real": "rsc", "integer": "isc", "logical": "lsc"}[a["dtype"]] + str(base + i))
        else:
            a.setdefault("alg", {"field": "f", "op": "op", "cma": "cma"}[a["k"]] + str(base + i))


def _fresh(spec, idx, tag):
    spec["name"] = "k%d%s_kernel" % (idx, tag)
    spec["code"] = spec["name"] + "_code"


def share_view(rng, base, idx, tag):
    """Another kernel that is passed the SAME algorithm-layer objects as `base` (a general-purpose kernel) but
    whose metadata sees them differently: other function spaces, access modes, stencil types (same extent
    variable), other argument order, own meta_funcs / gh_shape (same quadrature objects)."""
    import copy
    sp = copy.deepcopy(base)
    _fresh(sp, idx, tag)
    sp["funcs"], sp["shapes"], sp["targets"], sp["refelem"], sp["mesh"] = [], [], None, [], []
    for a in sp["args"]:
        if a["k"] == "field":
            a["fs"] = pick_fs(rng)
            a["acc"] = rng.choice(field_accesses(a["fs"], "cell_column"))
            a["stencil"] = rng.choice(STENCILS) if (a["acc"] == "read" and rng.random() < 0.5) else None
        elif a["k"] == "op":
            a["fs"], a["fs2"] = pick_fs(rng), pick_fs(rng)
            a["acc"] = rng.choice(["read", "write", "readwrite"])
    if rng.random() < 0.8:
        rng.shuffle(sp["args"])
    if rng.random() < 0.3 and len(sp["args"]) > 1:
        sp["args"].pop(rng.randrange(len(sp["args"])))
    if all(a["k"] == "scalar" for a in sp["args"]):
        sp["args"].append(mk_field(rng, rng.choice(CONT + DISC), "cell_column", False, False, want_write=True,
                                   allow_stencil=False))
    ensure_written(rng, sp["args"], "cell_column")
    _name_args(sp, 100 * (1 + "abc".index(tag)))
    add_funcs(rng, sp)
    add_props(rng, sp)
    return sp


def gen_shared_group(rng, idx):
    """2-3 general-purpose kernels in one invoke sharing fields / vectors / operators / scalars / stencil
    extents / quadrature objects, each with its own metadata view."""
    mixed = rng.random() < 0.2
    base = {"name": "", "mode": "multi", "operates_on": "cell_column", "args": [], "funcs": [], "shapes": [],
            "targets": None, "refelem": [], "mesh": []}
    _fresh(base, idx, "a")
    gen_general(rng, base, mixed)
    _name_args(base, 0)
    group = [base] + [share_view(rng, base, idx, t) for t in "bc"[:rng.choice([1, 1, 2])]]
    for sp in group:
        sp["mode"] = "multi"
        sp["mixed"] = any(a.get("prec") in ("r_solver", "r_tran", "r_bl", "r_phys") for a in sp["args"])
    if rng.random() < 0.5:
        group.reverse()
    return group


def _cma_kernel(rng, idx, tag, kind, view, shared_written):
    """A CMA kernel of the given kind whose metadata sees the SHARED operator `cma1` on the spaces `view`."""
    to, frm = view
    sp = {"name": "", "mode": "multi_cma", "operates_on": "cell_column", "args": [], "funcs": [], "shapes": [],
          "targets": None, "refelem": [], "mesh": [], "mixed": False}
    _fresh(sp, idx, tag)
    n0 = 100 * (1 + "abc".index(tag))
    shared = {"k": "cma", "acc": "read", "fs": to, "fs2": frm, "alg": "cma1"}
    if kind == "apply":
        w = mk_field(rng, to, "cell_column", False, False, want_write=True, allow_stencil=False, allow_vec=False)
        r = mk_field(rng, frm, "cell_column", False, False, want_write=False, allow_stencil=False, allow_vec=False)
        sp["args"] = [w, r, shared]
    elif kind == "mm":
        own = {"k": "cma", "acc": rng.choice(["write", "readwrite"]), "fs": pick_fs(rng), "fs2": pick_fs(rng)}
        sp["args"] = [shared, own] + ([mk_scalar(rng, False)] if rng.random() < 0.5 else [])
        for a in sp["args"]:
            if a["k"] == "scalar":
                a["literal"] = False
    else:   # assembly: writes the shared operator
        shared["acc"] = rng.choice(["write", "readwrite"])
        sp["args"] = [{"k": "op", "acc": "read", "fs": to, "fs2": frm, "prec": "r_def"}, shared]
    rng.shuffle(sp["args"])
    _name_args(sp, n0)
    return sp


def gen_cma_group(rng, idx):
    """One invoke in which the SAME column-wise operator is passed to 2-3 CMA kernels whose metadata disagree
    about its spaces ((a, b) / (b, b) / (a, a)), in either order."""
    pool = ["any_space_1", "any_space_2", "w2", "w3", "w0", "any_discontinuous_space_1", "wtheta"]
    a, b = rng.sample(pool, 2)
    views = [(a, b), rng.choice([(b, b), (a, a)])]
    if rng.random() < 0.3:
        views.append(rng.choice([(a, b), (b, a), (a, a)]))
    rng.shuffle(views)
    group = []
    for j, view in enumerate(views):
        kind = rng.choice(["apply", "apply", "mm", "asm"] if j == 0 else ["apply", "apply", "mm"])
        if kind == "apply" and view[0] == "wchi":
            kind = "mm"
        group.append(_cma_kernel(rng, idx, "abc"[j], kind, view, False))
    return group


