"""C18 translator (fail-closed): psyclone/line_length.py  ->  coq/C18/Gen.v

Dynamic part: imports ``psyclone.line_length`` from the tree under test ($VERIF_REPO/src, default
/repo/src), instantiates ``FortLineLength`` and dumps the tables ``_cont_start``, ``_cont_end``,
``_key_lists``, the four regexes (pattern text + flags, decomposed into a keyword alternation and
literal sentinels) and the set of Latin-1 code points that ``str.lstrip()`` / ``\\s`` treat as
white space.  Anything that is not of the recognised shape raises ``TranslateError``.

Static part: the normalised AST (docstrings removed) of ``find_break_point``,
``FortLineLength.process``, ``FortLineLength._get_line_type`` and ``FortLineLength.long_lines`` is
hashed and compared with the hash of the code that coq/C18/Model.v models; ``__init__`` must consist
only of ``self._x = <literal dict | re.compile(<str>[, flags=re.I])>`` assignments.  A differing
hash does NOT raise: it is returned (``structure_ok = False``) and the check then cannot claim the
tie by translation for the control structure and relies on the correspondence run alone.
"""
import ast
import hashlib
import importlib
import os
import re
import sys
from pathlib import Path

VERIF = Path(__file__).resolve().parent.parent.parent
sys.path.insert(0, str(VERIF))
from vlib import core  # noqa: E402

LTYPES = ["statement", "openmp_directive", "openacc_directive", "comment", "unknown"]
COQ_LTYPE = {"statement": "Statement", "openmp_directive": "Omp", "openacc_directive": "Acc",
             "comment": "CommentT", "unknown": "Unknown"}
# sha256 of the normalised AST of the modelled functions (see structure_hash) for the code that
# coq/C18/Model.v was written against.
EXPECTED_STRUCTURE = "5f290fc60c5188aa11bbfd8d6ce8dfc7bb1e142bc826c0a2fb8ec6556003e681"


class TranslateError(Exception):
    pass


def _need(cond, msg):
    if not cond:
        raise TranslateError("C18 translator: " + msg)


def _strip_doc(node):
    for n in ast.walk(node):
        if isinstance(n, (ast.FunctionDef, ast.ClassDef, ast.Module)) and n.body:
            b0 = n.body[0]
            if isinstance(b0, ast.Expr) and isinstance(b0.value, ast.Constant) and isinstance(b0.value.value, str):
                n.body = n.body[1:] or [ast.Pass()]
    return node


def structure_hash(src_text):
    """Hash of the normalised AST of the modelled control structure; also checks __init__."""
    mod = ast.parse(src_text)
    funcs = {}
    cls = None
    for n in mod.body:
        if isinstance(n, ast.FunctionDef):
            funcs[n.name] = n
        if isinstance(n, ast.ClassDef) and n.name == "FortLineLength":
            cls = n
    _need(cls is not None, "class FortLineLength not found")
    _need("find_break_point" in funcs, "function find_break_point not found")
    meth = {n.name: n for n in cls.body if isinstance(n, ast.FunctionDef)}
    for m in ("__init__", "process", "_get_line_type", "long_lines"):
        _need(m in meth, "method %s not found" % m)
    # __init__: only literal tables / re.compile of string constants
    init = _strip_doc(meth["__init__"])
    _need([a.arg for a in init.args.args] == ["self", "line_length"], "__init__ signature changed")
    seen = []
    for st in init.body:
        if isinstance(st, ast.Pass):
            continue
        _need(isinstance(st, ast.Assign) and len(st.targets) == 1 and isinstance(st.targets[0], ast.Attribute)
              and isinstance(st.targets[0].value, ast.Name) and st.targets[0].value.id == "self",
              "__init__ contains a statement that is not `self._x = ...`: " + ast.dump(st)[:120])
        name = st.targets[0].attr
        seen.append(name)
        v = st.value
        if name == "_line_length":
            _need(isinstance(v, ast.Name) and v.id == "line_length", "_line_length is not the argument")
        elif name in ("_cont_start", "_cont_end", "_key_lists"):
            _need(isinstance(v, ast.Dict), name + " is not a dict literal")
            for k, x in zip(v.keys, v.values):
                _need(isinstance(k, ast.Constant) and isinstance(k.value, str), name + ": non-literal key")
                if name == "_key_lists":
                    _need(isinstance(x, ast.List) and all(isinstance(e, ast.Constant) and isinstance(e.value, str)
                                                          for e in x.elts), name + ": non-literal list")
                else:
                    _need(isinstance(x, ast.Constant) and isinstance(x.value, str), name + ": non-literal value")
        elif name in ("_stat", "_omp", "_acc", "_comment"):
            _need(isinstance(v, ast.Call) and isinstance(v.func, ast.Attribute) and v.func.attr == "compile"
                  and isinstance(v.func.value, ast.Name) and v.func.value.id == "re" and len(v.args) == 1
                  and isinstance(v.args[0], ast.Constant) and isinstance(v.args[0].value, str),
                  name + " is not re.compile(<string literal>, ...)")
        else:
            raise TranslateError("C18 translator: unknown attribute self.%s set in __init__" % name)
    _need(sorted(seen) == sorted(["_line_length", "_cont_start", "_cont_end", "_key_lists", "_stat", "_omp",
                                  "_acc", "_comment"]), "__init__ attribute set changed: %s" % seen)
    parts = [ast.dump(_strip_doc(funcs["find_break_point"]))]
    for m in ("process", "_get_line_type", "long_lines"):
        parts.append(ast.dump(_strip_doc(meth[m])))
    return hashlib.sha256("\n".join(parts).encode()).hexdigest()


def coq_str_lit(s):
    """Python str (code points < 256, no newline needed) -> Coq term of type `list ascii`."""
    _need(all(ord(c) < 256 for c in s), "non Latin-1 character in table string %r" % s)
    if all(32 <= ord(c) < 127 for c in s):
        return '(list_ascii_of_string "%s")' % s.replace('"', '""')
    return "[" + "; ".join("ascii_of_N %d" % ord(c) for c in s) + "]"


def dump_tables(repo):
    src_dir = str(Path(repo) / "src")
    if src_dir not in sys.path:
        sys.path.insert(0, src_dir)
    mod = importlib.import_module("psyclone.line_length")
    _need(Path(mod.__file__).resolve() == (Path(repo) / "src/psyclone/line_length.py").resolve(),
          "psyclone.line_length was imported from %s, not from the tree under test" % mod.__file__)
    a, b = mod.FortLineLength(), mod.FortLineLength(57)
    t = {}
    for name in ("_cont_start", "_cont_end", "_key_lists"):
        d = getattr(a, name)
        _need(isinstance(d, dict) and d == getattr(b, name), name + " depends on the line length or is not a dict")
        _need(sorted(d) == sorted(LTYPES), "%s keys are %s" % (name, sorted(d)))
        t[name] = d
    for ty in LTYPES:
        _need(isinstance(t["_cont_start"][ty], str) and isinstance(t["_cont_end"][ty], str), "non-str continuation")
        _need("\n" not in t["_cont_start"][ty] + t["_cont_end"][ty], "newline in continuation string")
        kl = t["_key_lists"][ty]
        _need(isinstance(kl, list) and kl and all(isinstance(k, str) and k and "\n" not in k for k in kl),
              "key list of %s is not a non-empty list of non-empty strings" % ty)
    # regexes
    U = re.UNICODE
    pat = {n: getattr(a, n) for n in ("_stat", "_omp", "_acc", "_comment")}
    for n, p in pat.items():
        _need(isinstance(p, re.Pattern) and isinstance(p.pattern, str), n + " is not a compiled str pattern")
    m = re.fullmatch(r"\^\\s\*\(([A-Za-z]+(?:\|[A-Za-z]+)*)\)", pat["_stat"].pattern)
    _need(m and pat["_stat"].flags == (re.I | U), "_stat pattern/flags not of the modelled shape: %r flags=%d"
          % (pat["_stat"].pattern, pat["_stat"].flags))
    keywords = m.group(1).split("|")

    def sentinel(n, need_i):
        p = pat[n]
        mm = re.fullmatch(r"\^\\s\*((?:[A-Za-z!]|\\\$)+)", p.pattern)
        _need(mm, "%s pattern not of the modelled shape: %r" % (n, p.pattern))
        lit = mm.group(1).replace("\\$", "$")
        has_alpha = any(c.isalpha() for c in lit)
        _need(p.flags in ((re.I | U), U), "%s flags %d" % (n, p.flags))
        _need((p.flags == (re.I | U)) or not has_alpha or not need_i, "%s lost re.I" % n)
        return lit, bool(p.flags & re.I)
    omp, omp_i = sentinel("_omp", True)
    acc, acc_i = sentinel("_acc", True)
    com, com_i = sentinel("_comment", False)
    _need(omp_i and acc_i, "directive sentinels must be case-insensitive in the model")
    _need(not any(c.isalpha() for c in com), "comment regex with letters is not modelled")
    # white space: Latin-1 code points stripped by lstrip and matched by \s must coincide
    ws_l = [c for c in range(256) if (chr(c) + "a").lstrip() == "a"]
    ws_r = [c for c in range(256) if re.match(r"^\s$", chr(c))]
    _need(ws_l == ws_r, "str.lstrip() and \\s disagree on Latin-1 white space")
    # re.I on Latin-1 text for ASCII letters: exactly the two ASCII cases
    for ch in set("".join(keywords) + omp + acc):
        got = [c for c in range(256) if re.match("^" + re.escape(ch) + "$", chr(c), re.I)]
        want = sorted({ord(ch.upper()), ord(ch.lower())}) if ch.isalpha() else [ord(ch)]
        _need(got == want, "case-insensitive match set of %r is %s" % (ch, got))
    return t, keywords, omp, acc, com, ws_l


def render(t, keywords, omp, acc, com, ws):
    out = ["(* GENERATED by props/C18/translate.py from src/psyclone/line_length.py -- do not edit *)",
           "From Coq Require Import List NArith Ascii String.", "Import ListNotations.",
           "From PV Require Import C18.Types.", "Local Open Scope N_scope.", ""]
    out.append("Definition ws_codes : list N := [%s]." % "; ".join(str(c) for c in ws))
    out.append("Definition stat_keywords : list str := [%s]." % "; ".join(coq_str_lit(k) for k in keywords))
    out.append("Definition omp_sentinel : str := %s." % coq_str_lit(omp))
    out.append("Definition acc_sentinel : str := %s." % coq_str_lit(acc))
    out.append("Definition comment_sentinel : str := %s." % coq_str_lit(com))
    for name, field in (("cont_start", "_cont_start"), ("cont_end", "_cont_end")):
        out.append("Definition %s (t : ltype) : str :=\n  match t with" % name)
        for ty in LTYPES:
            out.append("  | %s => %s" % (COQ_LTYPE[ty], coq_str_lit(t[field][ty])))
        out.append("  end.")
    out.append("Definition key_list (t : ltype) : list str :=\n  match t with")
    for ty in LTYPES:
        out.append("  | %s => [%s]" % (COQ_LTYPE[ty], "; ".join(coq_str_lit(k) for k in t["_key_lists"][ty])))
    out.append("  end.")
    return "\n".join(out) + "\n"


def translate(repo=None, write=True):
    repo = Path(repo or os.environ.get("VERIF_REPO", "/repo"))
    src = (repo / "src/psyclone/line_length.py").read_text()
    h = structure_hash(src)
    t, keywords, omp, acc, com, ws = dump_tables(repo)
    text = render(t, keywords, omp, acc, com, ws)
    changed = core.write_if_changed(core.COQ / "C18" / "Gen.v", text) if write else False
    return {"structure_hash": h, "structure_ok": h == EXPECTED_STRUCTURE, "changed": changed,
            "tables": t, "keywords": keywords, "omp": omp, "acc": acc, "comment": com, "ws": ws, "text": text}


if __name__ == "__main__":
    info = translate()
    print("C18 Gen.v %s; structure hash %s (%s)" % ("rewritten" if info["changed"] else "unchanged",
                                                    info["structure_hash"][:16],
                                                    "as modelled" if info["structure_ok"] else "DIFFERS from the modelled code"))
