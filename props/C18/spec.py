"""Executable mirror (Python) of coq/C18/Join.v: the meaning of free-form source lines once
continuation lines are joined.  Every function mirrors the Gallina definition of the same name; the
correspondence run cross-checks the two on every generated case (the Coq side recomputes
``prop_on`` / ``safe`` and compares with the values computed here)."""

WS = frozenset(chr(c) for c in (9, 10, 11, 12, 13, 28, 29, 30, 31, 32, 133, 160))   # reset by set_ws
KSTMT, KCOND, KOMP, KACC = "stmt", "cond", "omp", "acc"
SENT = {KOMP: "!$OMP", KACC: "!$ACC"}
CMT_MARKER = "!& "


def set_ws(codes):
    global WS
    WS = frozenset(chr(c) for c in codes)


def is_ws(c):
    return c in WS


def lstrip(s):
    i = 0
    while i < len(s) and s[i] in WS:
        i += 1
    return s[i:]


def rstrip(s):
    return lstrip(s[::-1])[::-1]


def strip(s):
    return lstrip(rstrip(s))


def upper(c):
    return chr(ord(c) - 32) if "a" <= c <= "z" else c


def iprefix(p, s):
    return len(s) >= len(p) and all(upper(a) == upper(b) for a, b in zip(p, s))


def scan(q, s):
    """-> (code, final q, trailing comment or None)"""
    code = []
    for i, c in enumerate(s):
        if q is None:
            if c == "!":
                return "".join(code), None, s[i:]
            if c in "'\"":
                q = c
        elif c == q:
            q = None
        code.append(c)
    return "".join(code), q, None


def lone(q, body):
    return strip(scan(q, body)[0]) == "&"


class St:
    def __init__(self):
        self.items, self.cmts, self.pend, self.merge = [], [], None, False


def finish(st, k, acc, q, text):
    code, q2, cm = scan(q, text)
    if cm is not None:
        st.cmts.append(cm)
        st.merge = True
    else:
        st.merge = False
    r = lstrip(code[::-1])
    if r and r[0] == "&":
        st.pend = (k, acc + r[1:][::-1], q2)
        return True
    if q2 is not None:
        return False
    st.items.append((k, lstrip(acc + code)))
    st.pend = None
    return True


def dir_start(sent, body):
    if not iprefix(sent, body):
        return False
    rest = body[len(sent):]
    return rest == "" or is_ws(rest[0]) or rest[0] == "&"


def cond_start(body):
    return len(body) >= 3 and body[0] == "!" and body[1] == "$" and is_ws(body[2])


def step_idle(st, line):
    body = lstrip(line)
    if body == "":
        st.merge = False
        return True
    if body[0] == "!":
        if dir_start(SENT[KOMP], body):
            return finish(st, KOMP, body[:5], None, body[5:])
        if dir_start(SENT[KACC], body):
            return finish(st, KACC, body[:5], None, body[5:])
        if cond_start(body):
            if lone(None, body[2:]):
                return False
            return finish(st, KCOND, "", None, body[2:])
        if body.startswith(CMT_MARKER) and st.merge:
            if not st.cmts:
                return False
            st.cmts[-1] = st.cmts[-1] + body[3:]
            st.merge = True
            return True
        st.cmts.append(body)
        st.merge = True
        return True
    if lone(None, body):
        return False
    return finish(st, KSTMT, "", None, line)


ILL, SKIP = object(), object()


def cont_text(k, q, body, line):
    if k == KSTMT:
        if body[:1] == "!":
            return SKIP
        if body[:1] == "&":
            return ILL if lone(q, body) else body[1:]
        if q is None:
            return ILL if lone(q, body) else line
        return ILL
    if k == KCOND:
        if cond_start(body):
            b = body[2:]
            if lone(q, b):
                return ILL
            lb = lstrip(b)
            if lb[:1] == "&":
                return lb[1:]
            return b if q is None else ILL
        return SKIP if body[:1] == "!" else ILL
    sent = SENT[k]
    if iprefix(sent, body):
        b = body[5:]
        lb = lstrip(b)
        return lb[1:] if lb[:1] == "&" else b
    return ILL


def step(st, line):
    if st.pend is None:
        return step_idle(st, line)
    body = lstrip(line)
    if body == "":
        return True
    k, acc, q = st.pend
    t = cont_text(k, q, body, line)
    if t is ILL:
        return False
    if t is SKIP:
        if body.startswith(CMT_MARKER) and st.merge:
            if not st.cmts:
                return False
            st.cmts[-1] = st.cmts[-1] + body[3:]
        else:
            st.cmts.append(body)
        st.merge = True
        return True
    return finish(st, k, acc, q, t)


def join(lines):
    """-> (items, comments) or None"""
    st = St()
    for ln in lines:
        if not step(st, ln):
            return None
    if st.pend is not None:
        return None
    return st.items, st.cmts


def is_word(c):
    return ("0" <= c <= "9") or ("A" <= c <= "Z") or ("a" <= c <= "z") or c == "_"


def squeeze(s):
    out, prev_soft = [], True
    for c in s:
        if is_ws(c):
            if not prev_soft:
                out.append(c)
            prev_soft = True
        else:
            out.append(c)
            prev_soft = not is_word(c)
    return "".join(out)


def canon(s):
    return squeeze(squeeze(s)[::-1])[::-1]


def jequiv(a, b):
    if len(a[0]) != len(b[0]) or a[1] != b[1]:
        return False
    for (k1, t1), (k2, t2) in zip(a[0], b[0]):
        if k1 != k2:
            return False
        if k1 in (KOMP, KACC):
            if canon(t1) != canon(t2):
                return False
        elif t1 != t2:
            return False
    return True


def safe(line, ltype):
    """ltype: the limiter's own classification of the line (FortLineLength._get_line_type)."""
    j = join([line])
    if j is None:
        return False
    items, cmts = j
    if len(items) == 1 and not cmts:
        k = items[0][0]
        if ltype in ("statement", "unknown") and k == KSTMT:
            return bool(line) and not is_ws(line[-1])
        return (ltype, k) in (("openmp_directive", KOMP), ("openacc_directive", KACC))
    if not items and len(cmts) == 1:
        return ltype == "comment"
    return False


def prop_on(line, out_lines):
    """0 = holds, 1 = fails, 2 = the input line alone is ill-formed"""
    r = join([line])
    if r is None:
        return 2
    r2 = join(out_lines)
    if r2 is None:
        return 1
    return 0 if jequiv(r2, r) else 1


def prop_on_lines(lines, out_lines):
    """multi-line input: 0 = join(out) ~ join(in), 1 = differs, 2 = the input itself is ill-formed"""
    r = join(lines)
    if r is None:
        return 2
    r2 = join(out_lines)
    if r2 is None:
        return 1
    return 0 if jequiv(r2, r) else 1
