"""C18 — FortLineLength.process (src/psyclone/line_length.py).  Tie: translator + correspondence.

* translate.py regenerates coq/C18/Gen.v (continuation strings, key lists, regex keyword list,
  white-space class) from the tree under test and hashes the control structure of the modelled
  functions; the theorems of coq/Properties/C18.v are re-checked against the regenerated tables.
* correspondence: generated lines x limits 40..132 are run through the real FortLineLength.process
  and through the Gallina model (vm_compute inside coqc); output lines must be equal.
* independently the property itself is evaluated on the implementation's output with an executable
  `join` (spec.py, mirror of coq/C18/Join.v, cross-checked against the Coq definition on every case
  and validated against fparser's free-form reader): every output line within the limit, joined
  output = joined input, output is a fixed point, no exception.  Failures are classified
  (site/reason code); listed open ones print KNOWN-FINDING, anything else is a VIOLATION.
"""
import importlib.util
from pathlib import Path

from vlib import core

HERE = Path(__file__).resolve().parent


def _load(name):
    spec = importlib.util.spec_from_file_location("c18_" + name, HERE / (name + ".py"))
    mod = importlib.util.module_from_spec(spec)
    spec.loader.exec_module(mod)
    return mod


spec = _load("spec")
translate = _load("translate")

LT_IDX = {"statement": 0, "openmp_directive": 1, "openacc_directive": 2, "comment": 3, "unknown": 4}
HEADER = "From PV Require Import C18.Types C18.Gen C18.Model C18.Join C18.Check."


# ------------------------------------------------------------------------------------ implementation
def impl_process(L, text):
    """-> ('ok', output text) | ('internal', msg) | ('exc', repr)"""
    from psyclone.line_length import FortLineLength
    from psyclone.errors import InternalError
    try:
        return "ok", FortLineLength(L).process(text)
    except InternalError as e:
        return "internal", str(e)[:200]
    except Exception as e:          # noqa: BLE001 - any other exception is a failure of the property
        return "exc", "%s: %s" % (type(e).__name__, str(e)[:200])


def impl_type(line):
    from psyclone.line_length import FortLineLength
    return FortLineLength()._get_line_type(line)


# ------------------------------------------------------------------------------------------ encoding
def coq_s(s):
    if all(32 <= ord(c) < 127 for c in s):
        return '(s "%s")' % s.replace('"', '""')
    return coq_b(s)


def coq_lines(ls):
    return "[" + "; ".join(coq_s(x) for x in ls) + "]"


def line_hash(x):
    """mirror of C18.Check.hash"""
    h = 7
    for c in x:
        h = (h * 131 + ord(c) + 1) & 281474976710655
    return h


def coq_sums(ls):
    return "[" + "; ".join("(%d, %d)" % (len(x), line_hash(x)) for x in ls) + "]%N"


# ---------------------------------------------------------------------------------------- generators
IDS = ["a", "b", "i", "j", "x", "y", "n", "df", "cell", "nlayers", "map_w1", "ndf_w2", "undf_w3", "field_proxy",
       "f1_data", "basis_w1_qr", "diff_basis_w2_qr", "mesh", "ncolour", "cmap", "loop0_start", "loop0_stop",
       "istp", "ssh_fld", "p_fld", "u_fld", "integer_thing", "realvar", "type_x", "call_count", "use_it"]
WORDS = ["the", "loop", "over", "cells", "halo", "exchange", "is", "needed", "for", "field", "f1", "because",
         "it's", "dirty.", "See", "eq.", "(3),", "e.g.", "a,b", "x=1", "don't", "\"quoted\"", "50%", "&", "!", "!$omp",
         "end", "kernel", "call", "at", "depth", "2.", "TODO:", "fix", "this,", "later"]
OMP = ["parallel", "do", "parallel do", "default(shared)", "private(i,j)", "private(cell, df, k)", "schedule(static)",
       "schedule(dynamic, 4)", "reduction(+:asum)", "firstprivate(a,b)", "shared(f1_data,f2_data)", "collapse(2)",
       "num_threads(nthreads)", "if(n>100)", "target", "teams distribute", "map(tofrom: a, b)", "simd", "nowait",
       "taskloop", "grainsize(10)", "depend(in: a(1:n))", "default(none)", "copyin(zz)"]
ACC = ["parallel", "loop", "kernels", "data", "enter data", "copyin(a,b,c)", "copyout(res)", "copy(f1_data, f2_data)",
       "present(fld)", "collapse(2)", "independent", "gang", "vector", "vector_length(128)", "num_gangs(4)",
       "default(present)", "async(1)", "wait", "routine seq", "private(i, j)", "create(tmp(1:n))", "update host(a)"]
WS_ODD = ["\t", "\x0c", "\x0b", "\r", "\x1c", "\x1f", "\x85", "\xa0"]


class Gen:
    def __init__(self, rng):
        self.r = rng

    def ident(self):
        r = self.r
        x = r.choice(IDS)
        if r.random() < 0.08:
            x += "_" + "".join(r.choice("abcdefghij_0123456789") for _ in range(r.choice([3, 8, 20, 45, 90])))
        return x

    def literal(self):
        r = self.r
        k = r.random()
        if k < 0.3:
            return str(r.choice([0, 1, 2, 10, 100, 123456789]))
        if k < 0.45:
            return r.choice(["1.0", "0.5_r_def", "1.0e-6", "2.0d0", ".true.", ".false."])
        return self.charlit()

    def charlit(self):
        r = self.r
        q = r.choice("'\"")
        n = r.choice([1, 3, 6, 12, 25])
        parts = []
        for _ in range(n):
            w = r.choice(WORDS + IDS[:8] + [",", ", ", "  ", "=", "+", ")", "("])
            w = w.replace(q, q + q)
            parts.append(w)
        sep = r.choice([" ", " ", "", ", "])
        return q + sep.join(parts) + q

    def expr(self, depth=0):
        r = self.r
        k = r.random()
        if depth > 3 or k < 0.3:
            return self.ident() if r.random() < 0.7 else self.literal()
        if k < 0.5:
            return "%s(%s)" % (self.ident(), r.choice([", ", ","]).join(self.expr(depth + 1)
                                                                          for _ in range(r.randint(1, 4))))
        if k < 0.6:
            return "(%s)" % self.expr(depth + 1)
        if k < 0.65:
            return "%s%%%s" % (self.ident(), self.ident())
        op = r.choice([" + ", " - ", "*", "/", "**", " == ", " .and. ", " // ", "+", "-", " >= ", " => ", "=", " = "])
        return self.expr(depth + 1) + op + self.expr(depth + 1)

    def arglist(self, n):
        r = self.r
        sep = r.choice([", ", ",", ", ", " , "])
        return sep.join(self.expr(2) if r.random() < 0.5 else self.ident() for _ in range(n))

    def statement(self):
        r = self.r
        k = r.random()
        n = r.choice([1, 2, 4, 8, 15, 30])
        if k < 0.25:
            return "%s = %s" % (self.ident(), (r.choice([" + ", " * ", "+", " - "])).join(self.expr(1) for _ in range(n)))
        if k < 0.45:
            return "%s %s(%s)" % (r.choice(["call", "CALL", "Call"]), self.ident() + r.choice(["", "%", "_code"]),
                                  self.arglist(n))
        if k < 0.65:
            ty = r.choice(["integer", "INTEGER", "real", "REAL(KIND=r_def)", "integer(kind=i_def)", "type(field_type)",
                           "TYPE(mesh_type)", "Real(r_def)", "character(len=*)", "logical", "class(foo)",
                           "double precision"])
            attr = r.choice(["", ", intent(in)", ", intent(inout)", ", dimension(:,:)", ", pointer", ", allocatable",
                             ", parameter", ", intent(in), dimension(ndf_w1, nlayers)"])
            ents = r.choice([", ", ","]).join(self.ident() + r.choice(["", "(:)", "(ndf)", " = 0", " => null()"])
                                              for _ in range(n))
            return "%s%s :: %s" % (ty, attr, ents)
        if k < 0.75:
            return "%s %s, only%s %s" % (r.choice(["use", "USE"]), self.ident() + "_mod", r.choice([":", " :"]),
                                         r.choice([", ", ","]).join(self.ident() for _ in range(n)))
        if k < 0.83:
            return "%s %s(%s)" % (r.choice(["subroutine", "SUBROUTINE"]), self.ident(),
                                  r.choice([", ", ","]).join(self.ident() for _ in range(n)))
        if k < 0.9:
            return "if (%s) then" % r.choice([" .and. ", " .or. ", ".and."]).join(self.expr(2) for _ in range(n))
        if k < 0.95:
            return "write(*,%s) %s" % (self.charlit(), self.arglist(n))
        return " ; ".join("%s = %s" % (self.ident(), self.expr(2)) for _ in range(n))

    def comment_text(self):
        r = self.r
        return r.choice([" ", " ", "", "  "]).join([""] + [r.choice(WORDS + IDS[:6]) for _ in range(r.choice([2, 6, 14, 30, 60]))]) \
            if r.random() < 0.15 else " " + " ".join(r.choice(WORDS + IDS[:6]) for _ in range(r.choice([2, 6, 14, 30, 60])))

    def comment(self):
        r = self.r
        return r.choice(["!", "!", "!", "!!", "!-", "!& ", "!$", "!>", "!dir$"]) + self.comment_text()

    def directive(self):
        r = self.r
        if r.random() < 0.5:
            sent, pool = r.choice(["!$omp", "!$omp", "!$OMP", "!$Omp"]), OMP
        else:
            sent, pool = r.choice(["!$acc", "!$acc", "!$ACC", "!$aCc"]), ACC
        n = r.choice([2, 4, 7, 12, 20])
        body = r.choice([" ", " ", ", ", "  "]).join(r.choice(pool) for _ in range(n))
        gap = " " if r.random() < 0.93 else r.choice(["", "x", "&", "\t", "_"])
        return sent + gap + body

    def clauses(self, pool, n):
        r = self.r
        return [r.choice(pool) for _ in range(n)]

    def directive_cont(self, more=None):
        """one continuation line of an already split directive: `!$omp& clauses [&]`"""
        r = self.r
        if r.random() < 0.5:
            sent, pool = r.choice(["!$omp", "!$omp", "!$OMP", "!$Omp"]), OMP
        else:
            sent, pool = r.choice(["!$acc", "!$acc", "!$ACC", "!$aCc"]), ACC
        body = r.choice([" ", ", "]).join(self.clauses(pool, r.choice([1, 3, 6, 10, 16])))
        more = (r.random() < 0.3) if more is None else more
        return sent + r.choice(["& ", "& ", "&", " & ", " "]) + body + (r.choice([" &", "&", "  &"]) if more else "")

    def clean_statement(self):
        """a statement without the shapes of the known findings (no trailing comment, no trailing
        white space, no key-free long token)"""
        r = self.r
        for _ in range(20):
            s = self.statement()
            if "!" in s.replace("'", "").replace('"', "") and r.random() < 0.7:
                continue
            if all(len(w) < 30 for w in s.replace(",", " ").split(" ")):
                return s
        return "x = y + 1"

    def split_directive(self):
        """a directive already written over 2-3 lines; continuation lines of arbitrary length"""
        r = self.r
        if r.random() < 0.5:
            sent, pool = r.choice(["!$omp", "!$OMP"]), OMP
        else:
            sent, pool = r.choice(["!$acc", "!$ACC"]), ACC
        ind = " " * r.choice([0, 2, 4, 8])
        n = r.choice([2, 2, 3])
        lines = []
        for i in range(n):
            body = r.choice([" ", ", "]).join(self.clauses(pool, r.choice([1, 2, 5, 9, 15])))
            head = sent + " " if i == 0 else r.choice([sent.lower(), sent]) + r.choice(["& ", "& ", "&", " "])
            lines.append(r.choice([ind, ind, ""]) + head + body + (r.choice([" &", " &", "&"]) if i < n - 1 else ""))
        return lines

    def continued_statement(self):
        """a statement already continued with `&` over 2-3 lines (leading `&` or not)"""
        r = self.r
        s = self.clean_statement()
        cuts = [i + 2 for i in range(len(s) - 2) if s[i:i + 2] == ", "]
        q = None
        ok = []
        for i, c in enumerate(s):            # cut only outside character context unless a leading & is used
            if q is None and c in "'\"":
                q = c
            elif q == c:
                q = None
            if i in cuts:
                ok.append((i, q is None))
        if not ok:
            return [" " * r.choice([0, 2, 6]) + s]
        k = min(len(ok), r.choice([1, 1, 2]))
        pts = sorted(r.sample(ok, k))
        ind = " " * r.choice([0, 2, 6, 10])
        lines, prev = [], 0
        lead_prev = False
        for pos, outside in pts:
            seg = s[prev:pos]
            lines.append((ind if not lead_prev else ind + "&") + seg + "&")
            lead_prev = (not outside) or r.random() < 0.5
            prev = pos
        lines.append((ind if not lead_prev else ind + "  &") + s[prev:])
        if r.random() < 0.2 and len(lines) > 1:
            lines.insert(1, ind + "! a comment line between continuation lines")
        return lines

    def comment_block(self):
        r = self.r
        ind = " " * r.choice([0, 2, 6])
        return [ind + r.choice(["!", "!", "!!", "!>"]) + self.comment_text() for _ in range(r.randint(2, 4))]

    def structured_text(self, L):
        """-> (tag, list of input lines)"""
        r = self.r
        k = r.random()
        if k < 0.34:
            return "split_directive", self.split_directive()
        if k < 0.58:
            return "continued_statement", self.continued_statement()
        if k < 0.68:
            return "comment_block", self.comment_block()
        if k < 0.90:
            # the output of a previous run at a larger limit, processed again at the smaller limit L
            big = L + r.choice([5, 20, 40, 80])
            kind = r.random()
            line = self.indent()[:12] + (self.clean_statement() if kind < 0.5 else
                                         self.directive() if kind < 0.8 else "!" + self.comment_text())
            st, out = impl_process(big, line)
            if st != "ok":
                return "reprocessed", [line]
            return "reprocessed", out.split("\n")
        parts = []
        for _ in range(r.randint(2, 3)):
            parts += r.choice([self.split_directive, self.continued_statement, self.comment_block])()
        return "mixed", parts

    def indent(self):
        r = self.r
        k = r.random()
        if k < 0.75:
            return " " * r.choice([0, 0, 2, 4, 6, 8, 10, 14, 20])
        if k < 0.9:
            return " " * r.choice([30, 45, 60, 100, 135])
        return "".join(r.choice([" ", " ", "\t"] + WS_ODD) for _ in range(r.randint(1, 6)))

    def line(self):
        """-> (kind tag, line)"""
        r = self.r
        k = r.random()
        if k < 0.36:
            tag, body = "statement", self.statement()
        elif k < 0.48:
            tag, body = "trailing_comment", self.statement() + r.choice([" ", "  ", ""]) + "!" + self.comment_text()
        elif k < 0.62:
            tag, body = "directive", self.directive()
        elif k < 0.645:
            tag, body = "directive_comment", self.directive() + " !" + self.comment_text()
        elif k < 0.66:
            tag, body = "directive_cont", self.directive_cont()
        elif k < 0.78:
            tag, body = "comment", self.comment()
        elif k < 0.84:
            tag, body = "charlit", "%s = %s" % (self.ident(), " // ".join(self.charlit() for _ in range(r.randint(1, 4))))
        elif k < 0.87:
            tag, body = "cond_comp", "!$ " + self.statement()
        elif k < 0.90:
            tag, body = "trailing_ws", self.statement() + " " * r.choice([1, 3, 20, 60, 150, 300])
        elif k < 0.93:
            tag, body = "no_key", self.ident() + r.choice(["", " = ", "="]) + "".join(
                r.choice("abcdefxyz_0123456789%") for _ in range(r.choice([30, 60, 140, 200])))
        elif k < 0.95:
            tag, body = "amp_edge", r.choice(["&", "& ", ""]) + self.statement() + r.choice([" &", "&", " & ! c", ""])
        elif k < 0.97:
            tag, body = "blank_run", self.statement().replace(" ", " " * r.choice([2, 9, 50]), r.randint(1, 3))
        else:
            tag = "malformed"
            alpha = "abcxyz_0123 ,,  ()=+.!&'\"$%:;\t" + "".join(WS_ODD) + "\xe9\xb5"
            body = "".join(r.choice(alpha) for _ in range(r.choice([5, 41, 80, 133, 200])))
        return tag, self.indent() + body

    def fit(self, line, L):
        """sometimes trim/pad the line so that its length is at an interesting distance from L"""
        r = self.r
        if r.random() < 0.25 and len(line) > 4:
            target = L + r.choice([-2, -1, 0, 1, 2, 3, 5])
            if len(line) >= target > 0:
                return line[:target]
            pad = target - len(line)
            return line + " " + "".join(r.choice("abcdefgh, ") for _ in range(pad - 1)) + ("z" if pad > 1 else "")
        return line


# ---------------------------------------------------------------------- property on the implementation
def classify(line, L, status, out_lines, ltype):
    """Evaluate the property on the implementation's result for one line.
    -> None when it holds, else (key, why)"""
    if status == "internal":
        return "process/internal-error-no-break-point", "InternalError raised by find_break_point"
    if status == "exc":
        return "process/unexpected-exception", "exception other than InternalError"
    too_long = [x for x in out_lines if len(x) > L]
    if too_long:
        return "process/limit-exceeded", "output line of length %d > %d" % (len(too_long[0]), L)
    st2, again = impl_process(L, "\n".join(out_lines))
    if st2 != "ok" or again != "\n".join(out_lines):
        return "process/not-idempotent", "processing the output again changes it (%s)" % st2
    code = spec.prop_on(line, out_lines)
    if code != 1:
        return None
    jin = spec.join([line])
    jout = spec.join(out_lines)
    items, cmts = jin
    kinds = [k for k, _ in items]
    if kinds == [spec.KSTMT] and cmts:
        return "process/trailing-comment-split", "statement with trailing comment is split inside the comment"
    if kinds in ([spec.KOMP], [spec.KACC]) and cmts:
        return "process/directive-trailing-comment-split", "directive with trailing comment is split inside the comment"
    if kinds == [spec.KCOND]:
        return "process/conditional-compilation-split", "`!$ ` conditional-compilation line continued as a `!& ` comment"
    if not items and len(cmts) == 1 and ltype in ("openmp_directive", "openacc_directive"):
        return ("line_type/sentinel-prefix-comment",
                "comment starting with the letters of a directive sentinel is continued with the sentinel")
    if kinds == [spec.KSTMT] and not cmts and jout is None and line and spec.is_ws(line[-1]) \
            and any(spec.strip(x) == "&" for x in out_lines):
        return "process/lone-ampersand-line", "trailing white space becomes a line consisting of a single `&`"
    return "process/join-mismatch-unclassified", "joined output differs from joined input"


def classify_text(lines, L, status, out_lines, check_join=True):
    """Property on a multi-line input: join(process(lines)) ~ join(lines), limit, fixed point.
    check_join=False (random mixtures of unrelated lines, e.g. a directive dropped between the
    continuation lines of a statement): only exception / limit / fixed point; the join property of
    such lines is evaluated line by line in the single-line cases.
    A failure is attributed to the key of an over-long input line that fails on its own; a failure
    that no single line explains gets its own key.  -> None | (key, why)"""
    per_line = []
    for ln in lines:
        if len(ln) > L:
            st1, o1 = impl_process(L, ln)
            res = classify(ln, L, st1, o1.split("\n") if st1 == "ok" else [], impl_type(ln))
            if res:
                per_line.append(res)
    if status == "exc":
        return "process/unexpected-exception", "exception other than InternalError"
    if status == "internal":
        return per_line[0] if per_line else ("process/internal-error-no-break-point", "InternalError")
    too_long = [x for x in out_lines if len(x) > L]
    if too_long:
        return "process/limit-exceeded", "output line of length %d > %d" % (len(too_long[0]), L)
    st2, again = impl_process(L, "\n".join(out_lines))
    if st2 != "ok" or again != "\n".join(out_lines):
        return "process/not-idempotent", "processing the output again changes it (%s)" % st2
    if not check_join or spec.prop_on_lines(lines, out_lines) != 1:
        return None
    if per_line:
        return per_line[0]
    return ("process/multiline-join-mismatch",
            "joined output differs from joined input although every over-long line is fine on its own")


def fparser_items(lines):
    """Statements and comments as fparser's free-form reader sees them (validation of the join spec)."""
    from fparser.common.readfortran import FortranStringReader, Comment, Line
    from fparser.common.sourceinfo import FortranFormat
    import logging
    logging.disable(logging.CRITICAL)
    try:
        rd = FortranStringReader("\n".join(lines), ignore_comments=False)
        rd.set_format(FortranFormat(True, True))
        stm, cmt = [], []
        for it in rd:
            if isinstance(it, Comment):
                if it.comment.strip():
                    cmt.append(it.comment.strip())
            elif isinstance(it, Line):
                stm.append(it.get_line(apply_map=True).strip())
            else:
                return None
        return stm, cmt
    except Exception:      # noqa: BLE001 - fparser refusing the text just means "no validation data"
        return None
    finally:
        logging.disable(logging.NOTSET)


def gfortran_ok(ctx, body, flags=("-fopenmp", "-fopenacc"), run=False):
    """Compile (and optionally run) a small program around `body`; -> (ok, output or message)."""
    src = ("program p\n  implicit none\n  integer :: x, y, i\n  real :: a(10)\n  character(len=200) :: s\n"
           "  y = 1\n  x = 0\n  a = 0.0\n  s = ''\n" + body + "\n  print *, x, trim(s)\nend program p\n")
    d = ctx.scratch / "gf"
    d.mkdir(exist_ok=True)
    f = d / "t.f90"
    f.write_text(src)
    if not run:
        rc, out = core.sh(["gfortran", "-fsyntax-only", "-ffree-line-length-none", *flags, str(f)], timeout=60, cwd=d)
        return rc == 0, out[-400:]
    rc, out = core.sh(["gfortran", "-ffree-line-length-none", *flags, str(f), "-o", str(d / "t.exe")], timeout=60, cwd=d)
    if rc != 0:
        return False, out[-400:]
    rc, out = core.sh([str(d / "t.exe")], timeout=20, cwd=d)
    return rc == 0, out.strip()


def replay_known(ctx):
    """Re-demonstrate every listed finding on the tree under test (prints KNOWN-FINDING if it still fails)."""
    import shutil
    have_gf = shutil.which("gfortran") is not None
    for k in ctx.known_findings():
        w = k.get("witness", {})
        line, L = w.get("line"), w.get("limit")
        if line is None or L is None:
            continue
        st, out = impl_process(L, line)
        out_lines = out.split("\n") if st == "ok" else []
        res = classify(line, L, st, out_lines, impl_type(line))
        extra = {}
        if res and have_gf and w.get("gfortran") and st == "ok":
            mode = w["gfortran"]
            oi, mi = gfortran_ok(ctx, line, run=(mode == "run"))
            oo, mo = gfortran_ok(ctx, out, run=(mode == "run"))
            extra = {"gfortran_input": [oi, mi], "gfortran_output": [oo, mo]}
        if res and res[0] == k["key"]:
            ctx.finding(k["key"], res[1], {"property": "C18", "line": line, "limit": L, "impl_status": st,
                                          "impl_output": out_lines, "why": res[1], **extra,
                                          "replay": "FortLineLength(%d).process(%r)" % (L, line)})
            ctx.hist("known_finding_replayed", k["key"])
        elif res:
            ctx.finding(res[0], res[1], {"property": "C18", "line": line, "limit": L, "impl_status": st,
                                         "impl_output": out_lines, "why": res[1],
                                         "note": "witness of %s now fails differently" % k["key"]})


# ------------------------------------------------------------------------------------------------ run
def run(ctx):
    ctx.cov["rule"] = (
        "one case = (limit L in 40..132, one free-form line) drawn from a grammar of statements / declarations / "
        "calls / use / subroutine / if / write lines, directives (!$omp, !$acc, mixed case), comments, statements and "
        "directives with trailing comments, character literals containing blanks ! & quotes and break keys, `!$ ` "
        "conditional compilation, trailing white space, key-free long tokens, leading/trailing `&`, long blank runs, "
        "a malformed character stream incl. odd white space and Latin-1; 25% of the lines are cut/padded to "
        "L-2..L+5; plus multi-line texts.  non-trivial = the line is longer than L (the limiter really wrapped or "
        "raised); distinct = (L, line).")
    ctx.cov["trusted_base"] = core.BASE_TRUST + [
        "props/C18/translate.py (dynamic dump of the tables + AST hash of the modelled functions) is trusted glue",
        "coq/C18/Join.v is MY formalisation of free-form continuation (Fortran 2008 3.3.2, OpenMP/OpenACC sentinels, "
        "`!$ ` conditional compilation, the limiter's `!& ` comment convention); validated against fparser's "
        "free-form reader on statement lines and against gfortran on the finding witnesses only",
        "Python str/re semantics on Latin-1 text (lstrip, rfind, slicing, \\s, re.I) are modelled by list functions; "
        "characters above U+00FF and limits below len(c_start)+len(c_end) are outside the model",
    ]
    ctx.assumptions = [
        "join theorems are per input line read on its own (the line is not itself a continuation of a previous line)",
        "directive equality is modulo white space next to white space or a non-word character (canon); the theorem "
        "proves the finer squeeze-equality (only blanks after a blank or delimiter were inserted); character "
        "literals inside directives are not treated specially",
    ]
    # --- 1. translator
    tr_err = None
    try:
        info = translate.translate(core.REPO)
        spec.set_ws(info["ws"])
        ctx.notes["structure_hash_as_modelled"] = info["structure_ok"]
        ctx.notes["tables"] = {k: info["tables"][k] for k in info["tables"]}
        ctx.log("translator: Gen.v %s, control structure %s" % (
            "rewritten" if info["changed"] else "unchanged",
            "as modelled" if info["structure_ok"] else "DIFFERS from the modelled code (tie by correspondence only)"))
    except Exception as e:      # noqa: BLE001 - fail closed: reported below after the failing-input search
        tr_err = "%s: %s" % (type(e).__name__, e)
        ctx.log("translator FAILED: " + tr_err)
    # --- 2. proofs (against the regenerated tables)
    ok, rep = ctx.prove()
    okc, outc = ctx.coq_make(["C18/Check.vo"])
    ctx.log("proof ok=%s discharged=%d/%d; Check.vo %s" % (ok, ctx.cov["discharged"], ctx.cov["obligations"],
                                                          "built" if okc else "FAILED"))
    # --- 3. known findings re-demonstrated
    replay_known(ctx)
    # --- 4. generated cases
    rng = ctx.rng("gen")
    g = Gen(rng)
    ncases = ctx.pick(900, 9000)
    cases = []
    seen = set()
    corpus = HERE / "corpus" / "lines.txt"
    if corpus.exists():
        for row in corpus.read_text().split("\n"):
            if row.strip() and not row.startswith("#"):
                L, _, ln = row.partition("|")
                cases.append(("corpus", int(L), ln.encode().decode("unicode_escape")))
    while len(cases) < ncases:
        tag, ln = g.line()
        L = rng.randint(40, 132) if rng.random() < 0.9 else rng.choice([40, 41, 72, 80, 100, 131, 132])
        ln = g.fit(ln, L)
        if "\n" in ln or (L, ln) in seen or any(ord(c) > 255 for c in ln):
            continue
        seen.add((L, ln))
        cases.append((tag, L, ln))
    coq_cases, cases_of, failures, fp_cmp, fp_bad = [], [], [], 0, []
    nontriv = 0
    for tag, L, ln in cases:
        st, out = impl_process(L, ln)
        out_lines = out.split("\n") if st == "ok" else []
        lt = impl_type(ln)
        wrapped = len(ln) > L
        nontriv += wrapped
        ctx.count((L, ln), wrapped)
        ctx.hist("kind", tag)
        ctx.hist("limiter_line_type", lt)
        ctx.hist("limit_band", "%d-%d" % (L // 20 * 20, L // 20 * 20 + 19))
        ctx.hist("outcome", "unchanged" if (st == "ok" and not wrapped) else
                 ("wrapped_%d_lines" % min(len(out_lines), 6) if st == "ok" else st))
        res = classify(ln, L, st, out_lines, lt)
        sf = spec.safe(ln, lt)
        if wrapped:
            ctx.hist("safe_region", "safe" if sf else "gap")
        if res:
            ctx.hist("property_failures", res[0])
            failures.append((tag, L, ln, st, out_lines, res))
            if sf and st == "ok":
                failures.append((tag, L, ln, st, out_lines, ("process/failure-inside-safe-region", res[1])))
        pp = spec.prop_on(ln, out_lines) if st == "ok" else 3
        if st == "exc":
            continue
        cases_of.append((tag, L, ln))
        coq_cases.append("mk %d%%N %s %s %d%%N %s %d%%N" % (
            L, coq_s(ln), ("(Some %s)" % coq_sums(out_lines)) if st == "ok" else "None", pp,
            "true" if sf else "false", LT_IDX[lt]))
        # validation of the join spec against fparser (plain statement lines only)
        if st == "ok" and wrapped and tag in ("statement", "charlit", "trailing_comment") and fp_cmp < ctx.pick(400, 3000) \
                and all(c == " " or not spec.is_ws(c) for c in ln):
            mine = spec.join(out_lines)
            fp = fparser_items(out_lines)
            if mine is not None and fp is not None and all(k == spec.KSTMT for k, _ in mine[0]) \
                    and not any(x.lstrip().startswith("!&") for x in out_lines):
                fp_cmp += 1
                if ([spec.strip(t) for _, t in mine[0]], sorted(spec.strip(c) for c in mine[1])) != (fp[0], sorted(fp[1])):
                    fp_bad.append({"lines": out_lines, "join": mine, "fparser": fp})
    ctx.notes["join_spec_vs_fparser"] = {"compared": fp_cmp, "different": len(fp_bad), "first": fp_bad[:2]}
    for i in (1, len(cases) // 3, len(cases) // 2, len(cases) - 1):
        tag, L, ln = cases[i]
        st, out = impl_process(L, ln)
        ctx.sample({"kind": tag, "limit": L, "line": ln, "impl": out.split("\n") if st == "ok" else st})
    # multi-line texts: free mixtures of single lines + structured inputs whose lines are themselves
    # continued (split directives with long `!$omp&` lines, `&`-continued statements, comment blocks,
    # output of a run at a larger limit processed again at a smaller one)
    tcases, texts_of = [], []
    ntext = ctx.pick(170, 1600)
    for it in range(ntext):
        L = rng.randint(40, 132)
        if it % 4 == 0:
            tag, lines = "free_mixture", [g.fit(g.line()[1], L) for _ in range(rng.randint(0, 5))]
            if rng.random() < 0.3:
                lines.insert(rng.randint(0, len(lines)), "")
        else:
            tag, lines = g.structured_text(L)
            if rng.random() < 0.5:      # make sure something has to be wrapped
                longest = max((len(x) for x in lines), default=0)
                if longest > 45:
                    L = max(40, min(132, longest - rng.choice([1, 3, 10, 25])))
        text = "\n".join(lines)
        if any(ord(c) > 255 for c in text):
            continue
        lines = text.split("\n")
        st, out = impl_process(L, text)
        out_lines = out.split("\n") if st == "ok" else []
        wrapped = any(len(x) > L for x in lines)
        ctx.count(("text", L, text), wrapped)
        ctx.hist("text_kind", tag)
        ctx.hist("text_outcome", st if st != "ok" else ("wrapped" if wrapped else "unchanged"))
        res = classify_text(lines, L, st, out_lines, check_join=(tag != "free_mixture"))
        if res:
            ctx.hist("property_failures_text", res[0])
            failures.append((tag, L, text, st, out_lines, res))
        if st == "exc":
            continue
        pp = spec.prop_on_lines(lines, out_lines) if st == "ok" else 3
        if tag != "free_mixture" and wrapped and st == "ok" and len(ctx.cov["samples"]) < 6:
            ctx.sample({"kind": tag, "limit": L, "lines": lines, "impl": out_lines})
        texts_of.append((tag, L, text))
        tcases.append("(%d%%N, %s, %s, %d%%N)" % (L, coq_b(text), ("Some " + coq_sums(out_lines)) if st == "ok" else "None", pp))
    # --- 5. model vs implementation, Coq spec vs Python mirror, property re-evaluated by the Coq spec
    bad_model, bad_spec, bad_prop, bad_text, bad_text_spec = [], [], [], [], []
    if okc:
        bad_any = ctx.coq_eval_failing(HEADER, "line_case", "line_check", coq_cases, shard=ctx.pick(250, 800))
        if bad_any:       # attribute: model != implementation / Coq spec != Python mirror / property on model output
            sub = [coq_cases[i] for i in bad_any[:400]]
            bad_model = [bad_any[i] for i in ctx.coq_eval_failing(HEADER, "line_case", "model_agrees", sub)]
            bad_spec = [bad_any[i] for i in ctx.coq_eval_failing(HEADER, "line_case", "spec_agrees", sub)]
            bad_prop = [bad_any[i] for i in ctx.coq_eval_failing(HEADER, "line_case", "property_ok", sub)]
        bad_text_any = ctx.coq_eval_failing(HEADER, "text_case", "text_check", tcases, shard=ctx.pick(90, 400))
        if bad_text_any:
            sub = [tcases[i] for i in bad_text_any[:300]]
            bad_text = [bad_text_any[i] for i in ctx.coq_eval_failing(HEADER, "text_case", "text_model_agrees", sub)]
            bad_text_spec = [bad_text_any[i] for i in ctx.coq_eval_failing(HEADER, "text_case", "text_spec_agrees", sub)]
    ctx.cov["disagreements_checked"] = len(bad_model) + len(bad_spec) + len(bad_prop) + len(bad_text) + len(bad_text_spec)
    ctx.log("cases=%d wrapped=%d | model!=impl: %d | coq-spec!=py-mirror: %d | theorem content false on model output: %d "
            "| texts=%d model!=impl: %d, spec/limit/fixed-point on texts: %d | property failures on impl: %d | fparser "
            "validation %d compared / %d different"
            % (len(cases), nontriv, len(bad_model), len(bad_spec), len(bad_prop), len(tcases), len(bad_text),
               len(bad_text_spec), len(failures), fp_cmp, len(fp_bad)))
    # --- 6. verdict
    reported = set()
    concrete = False
    for tag, L, ln, st, out_lines, (key, why) in failures:
        if key in reported:
            continue
        reported.add(key)
        if ctx.finding(key, why, {"property": "C18", "kind": tag, "limit": L, "line": ln, "impl_status": st,
                                  "impl_output": out_lines, "why": why,
                                  "expected": "every output line <= limit; join(output) = join([line]) "
                                              "(statements/comments exactly, directives modulo blanks); "
                                              "process(output) = output; no exception",
                                  "replay": "PYTHONPATH=$VERIF_REPO/src python -c \"from psyclone.line_length import "
                                            "FortLineLength as F; print(F(%d).process(%r))\"" % (L, ln)}):
            concrete = True
    broken = []
    if tr_err:
        broken.append("translator props/C18/translate.py: " + tr_err)
    if not ok:
        broken.append("proof obligations of Properties/C18.v: " + "; ".join(rep.get("errors", [])))
    if not okc:
        broken.append("coq/C18/Check.v does not build: " + outc[-800:])
    if bad_model:
        broken.append("correspondence C18.Model.process_line = FortLineLength.process (%d cases)" % len(bad_model))
    if bad_text:
        broken.append("correspondence C18.Model.process_text = FortLineLength.process on texts (%d cases)" % len(bad_text))
    if bad_prop:
        broken.append("limit/safe-join/fixed-point re-evaluated on the model output is false (%d cases): the theorems of "
                      "Properties/C18.v cannot hold of these tables" % len(bad_prop))
    if bad_text_spec:
        broken.append("multi-line texts: Coq join spec vs Python mirror, or limit / fixed point on the model output "
                      "(%d cases)" % len(bad_text_spec))
    if bad_spec:
        broken.append("Coq spec Join.v / Python mirror spec.py disagree (%d cases)" % len(bad_spec))
    if fp_bad:
        broken.append("join spec disagrees with fparser's free-form reader (%d of %d)" % (len(fp_bad), fp_cmp))
    if broken and not concrete:
        first = None
        if bad_model or bad_spec or bad_prop:
            i = (bad_model or bad_spec or bad_prop)[0]
            tag, L, ln = cases_of[i]
            st, out = impl_process(L, ln)
            first = {"kind": tag, "limit": L, "line": ln, "impl": out.split("\n") if st == "ok" else st,
                     "model": ctx.coq_eval_show(HEADER, ["let c := (%s) in (process_line (N.to_nat (c_limit c)) (c_line c), "
                                                         "safe (c_line c))" % coq_cases[i]])}
        elif bad_text or bad_text_spec:
            tag, L, text = texts_of[(bad_text or bad_text_spec)[0]]
            first = {"kind": tag, "limit": L, "text": text, "impl": impl_process(L, text)[1]}
        elif fp_bad:
            first = fp_bad[0]
        ctx.violation({"property": "C18", "broken": broken, "first_differing_case": first,
                       "proof_report": rep if not ok else None}, no_input=True)


def coq_b(s):
    """arbitrary Latin-1 text: printable ASCII runs as byte-string literals, other code points as N"""
    parts, run = [], []
    for c in s:
        if 32 <= ord(c) < 127:
            run.append(c)
        else:
            if run:
                parts.append('s "%s"' % "".join(run).replace('"', '""'))
                run = []
            if parts and parts[-1].startswith("b ["):
                parts[-1] = parts[-1][:-3] + "; %d]%%N" % ord(c)
            else:
                parts.append("b [%d]%%N" % ord(c))
    if run:
        parts.append('s "%s"' % "".join(run).replace('"', '""'))
    if not parts:
        return "(@nil Ascii.ascii)"
    return "(" + " ++ ".join(parts) + ")"
