"""C05 — Accepted loop transformations preserve serial semantics.

Tie: correspondence + direct evaluation of the property (DESIGN 5/C05, BUILDING "shared MiniFortran core").
For every generated program (props/C05/c05gen.py) and every valid target x option of the eight generic loop
transformations the check
  (1) runs the real validate/apply (in-process, tree under test = $VERIF_REPO),
  (2) runs the faithful mirror (props/C05/c05model.py) and the Coq model (coq/C05, by vm_compute) and compares
      verdict and output tree,
  (3) evaluates the property itself: `vlib.minifort.interp` on original vs transformed over a grid of stores,
      comparing prints and final values (excluding the DO variables of transformed loops and introduced names).
A concrete semantic difference is reported through ctx.finding with key <transformation>/<reason code>;
reason codes are computed by the model-side classifier.  Witnesses of props/C05/known_findings.json are
replayed on every run."""
import contextlib
import io
import json
import os
import sys
from pathlib import Path

HERE = Path(__file__).resolve().parent
if str(HERE) not in sys.path:
    sys.path.insert(0, str(HERE))

from vlib import core, minifort as mf          # noqa: E402
import c05model as M                           # noqa: E402
import c05gen as GEN                           # noqa: E402

# ------------------------------------------------------------------------------------------ calls (harness only)
# ("call", name, [args]): a call of a subroutine defined in the same module (bump, setv) or of an external,
# opaque, non-pure routine (ext).  Arguments are passed by reference; the callee semantics used by the
# failing-input search is given by `inline_calls` (no hidden state in the callees).  vlib.minifort is extended
# in-process (its files are not edited): serialiser, Fortran printer and name collection.
CALLEES = """
  subroutine bump(k)
    integer, intent(inout) :: k
    k = k + 100
  end subroutine bump
  subroutine setv(k, v)
    integer, intent(out) :: k
    integer, intent(in) :: v
    k = 2 * v + 1
  end subroutine setv
"""


def inline_calls(ss):
    """replace every call by the assignments that have the callee's effect"""
    out = []
    for s in ss:
        k = s[0]
        if k == "call":
            args = s[2]
            if s[1] == "bump":
                a = args[0]
                if a[0] in ("var", "idx"):       # (an expression argument is passed by value: no effect)
                    out.append(("assign", a[1], a[2] if a[0] == "idx" else [], ("bin", "Add", a, ("lit", 100))))
            elif s[1] == "setv":
                a = args[0]
                if a[0] in ("var", "idx"):
                    out.append(("assign", a[1], a[2] if a[0] == "idx" else [],
                                ("bin", "Add", ("bin", "Mul", ("lit", 2), args[1]), ("lit", 1))))
            else:       # ext: opaque; modifies every by-reference argument
                for a in args:
                    if a[0] in ("var", "idx"):
                        out.append(("assign", a[1], a[2] if a[0] == "idx" else [],
                                    ("bin", "Add", ("bin", "Mul", ("lit", 2), a), ("lit", 3))))
        elif k == "if":
            out.append(("if", s[1], inline_calls(s[2]), inline_calls(s[3])))
        elif k == "do":
            out.append(s[:5] + (inline_calls(s[5]),))
        elif k in ("region", "dir"):
            out.append((k, s[1], inline_calls(s[2])))
        else:
            out.append(s)
    return out


def _install_call_support():
    if getattr(mf, "_c05_calls", False):
        return
    mf._c05_calls = True
    orig_from = mf.stmt_from_psyir

    def stmt_from_psyir(n):
        from psyclone.psyir import nodes as N
        if isinstance(n, N.Call) and not isinstance(n, N.IntrinsicCall):
            if any(n.argument_names):
                raise mf.OutOfSubset("named call argument")
            return ("call", n.routine.name.lower(), [mf.expr_from_psyir(a) for a in n.arguments])
        return orig_from(n)
    mf.stmt_from_psyir = stmt_from_psyir
    orig_f = mf.stmts_to_fortran

    def stmts_to_fortran(ss, ind="  "):
        out = []
        for s in ss:
            if s[0] == "call":
                out.append("%scall %s(%s)" % (ind, s[1], ", ".join(mf.expr_to_fortran(x) for x in s[2])))
            elif s[0] == "if":
                out.append("%sif (%s) then" % (ind, mf.expr_to_fortran(s[1])))
                out += stmts_to_fortran(s[2], ind + "  ")
                if s[3]:
                    out.append(ind + "else")
                    out += stmts_to_fortran(s[3], ind + "  ")
                out.append(ind + "end if")
            elif s[0] == "do":
                out.append("%sdo %s = %s, %s, %s" % (ind, s[1], mf.expr_to_fortran(s[2]), mf.expr_to_fortran(s[3]),
                                                    mf.expr_to_fortran(s[4])))
                out += stmts_to_fortran(s[5], ind + "  ")
                out.append(ind + "end do")
            else:
                out += orig_f([s], ind)
        return out
    mf.stmts_to_fortran = stmts_to_fortran
    orig_names = mf.all_names

    def all_names(stmts, acc=None):
        acc = set() if acc is None else acc
        for s in stmts:
            if s[0] == "call":
                for x in s[2]:
                    mf.expr_names(x, acc)
            elif s[0] == "if":
                mf.expr_names(s[1], acc)
                all_names(s[2], acc)
                all_names(s[3], acc)
            elif s[0] == "do":
                acc.add(s[1])
                for x in s[2:5]:
                    mf.expr_names(x, acc)
                all_names(s[5], acc)
            else:
                orig_names([s], acc)
        return acc
    mf.all_names = all_names


_install_call_support()

TRANS = ["fuse", "swap", "chunk", "tile", "hoist", "hoistbound", "induction", "fold"]
BNDS = {a: bs for a, _, bs in GEN.DECLS if bs}
DECLARED = {a for a, _, _ in GEN.DECLS}


# ------------------------------------------------------------------------------------------ implementation side
class Impl:
    def __init__(self):
        from psyclone.psyir.frontend.fortran import FortranReader
        from psyclone.psyir import nodes as N
        from psyclone.psyir import transformations as T
        from psyclone.psyir.transformations import TransformationError
        from psyclone.core import SymbolicMaths
        self.N = N
        self.reader = FortranReader()
        self.TE = TransformationError
        self.sm = SymbolicMaths.get()
        self.t = {"fuse": T.LoopFuseTrans, "swap": T.LoopSwapTrans, "chunk": T.ChunkLoopTrans,
                  "tile": T.LoopTiling2DTrans, "hoist": T.HoistTrans, "hoistbound": T.HoistLoopBoundExprTrans,
                  "induction": T.ReplaceInductionVariablesTrans, "fold": T.FoldConditionalReturnExpressionsTrans}

    def read(self, stmts, neglit=False):
        """tuples -> (psyir container, canonical tuples as the reader sees them, fortran text)"""
        text = mf.to_fortran("sub", stmts, GEN.DECLS)
        if M.has_kind(stmts, ("call",)):
            text = "module c05mod\ncontains\n" + text + CALLEES + "end module c05mod\n"
        return self.read_text(text, neglit)

    def read_text(self, text, neglit=False):
        N = self.N
        psy = self.reader.psyir_from_source(text)
        rt = psy.walk(N.Routine)[0]
        if neglit:
            # a negative literal step (as built through the PSyIR API: Literal("-1", INTEGER_TYPE)); the Fortran
            # reader itself produces UnaryOperation(MINUS, 1), which ChunkLoopTrans refuses as "non-literal"
            from psyclone.psyir.symbols import INTEGER_TYPE
            for lp in rt.walk(N.Loop):
                st = lp.step_expr
                if isinstance(st, N.UnaryOperation) and st.operator == N.UnaryOperation.Operator.MINUS and \
                        isinstance(st.children[0], N.Literal):
                    st.replace_with(N.Literal("-" + st.children[0].value, INTEGER_TYPE))
        return psy, mf.from_psyir(rt), text

    def node_at(self, rt, path):
        N = self.N
        blk = rt.children
        i = 0
        while True:
            nd = blk[path[i]]
            i += 1
            if i == len(path):
                return nd
            if isinstance(nd, N.IfBlock):
                blk = nd.if_body.children if path[i] == 0 else nd.else_body.children
                i += 1
            elif isinstance(nd, N.Loop):
                blk = nd.loop_body.children
            else:
                raise ValueError("path")

    def apply(self, psy, trans, target, opts):
        """-> ("accepted", tuples) | ("refused", msg) | ("crash", msg)"""
        N = self.N
        cp = psy.copy()
        rt = cp.walk(N.Routine)[0]
        t = self.t[trans]()
        try:
            with contextlib.redirect_stdout(io.StringIO()):
                if trans == "fuse":
                    t.apply(self.node_at(rt, target[0]), self.node_at(rt, target[1]))
                elif trans == "fold":
                    t.apply(rt)
                elif trans == "chunk":
                    t.apply(self.node_at(rt, target), {"chunksize": opts} if opts is not None else None)
                elif trans == "tile":
                    t.apply(self.node_at(rt, target), {"tilesize": opts} if opts is not None else None)
                else:
                    t.apply(self.node_at(rt, target))
        except self.TE as e:
            return ("refused", str(e.value)[:200])
        except Exception as e:       # noqa: BLE001  (classified, see NOTES: IndexError of Fold on an empty IF body)
            return ("crash", "%s: %s" % (type(e).__name__, str(e)[:200]))
        try:
            return ("accepted", mf.from_psyir(rt))
        except mf.OutOfSubset as e:
            return ("crash", "OutOfSubset: %s" % e)

    def sym_equal(self, e1, e2):
        """SymbolicMaths.equal on two bound expressions (as PSyIR read from text)"""
        txt = mf.to_fortran("sub", [("assign", "s", [], e1), ("assign", "s", [], e2)], GEN.DECLS)
        psy = self.reader.psyir_from_source(txt)
        asg = psy.walk(self.N.Assignment)
        return bool(self.sm.equal(asg[0].rhs, asg[1].rhs))


# ------------------------------------------------------------------------------------------ Coq terms
# (flat list notations parse much faster than nested constructor applications; names carry %nat)
def cq_e(e, nm):
    return mf.expr_to_coq(e, nm)


def cq_ss(ss, nm):
    return mf.stmts_to_coq(ss, nm)


def cq_path(t):
    return "[%s]" % "; ".join("%d%%nat" % i for i in t)


def cq_n(i):
    return "%d%%nat" % i


# ------------------------------------------------------------------------------------------ targets and options
def targets(p0, trans, tier_thorough):
    out = []
    if trans == "fold":
        return [((), None)]
    for path, s in M.walk_stmts(p0):
        if trans == "fuse":
            if s[0] == "do":
                nxt = path[:-1] + (path[-1] + 1,)
                try:
                    s2 = M.get_stmt(p0, nxt)
                except IndexError:
                    continue
                if s2[0] == "do":
                    out.append(((path, nxt), None))
                    out.append(((nxt, path), None))
        elif trans in ("swap", "hoistbound", "induction"):
            if s[0] == "do":
                out.append((path, None))
        elif trans == "chunk":
            if s[0] == "do":
                for c in ([1, 2, 3, 4, None] if tier_thorough else [2, 3, 4, None]):
                    out.append((path, c))
        elif trans == "tile":
            if s[0] == "do":
                for c in ([1, 2, 3, 4, None] if tier_thorough else [2, 3, None]):
                    out.append((path, c))
        elif trans == "hoist":
            if s[0] == "assign" and M.enclosing_loops(p0, path):
                out.append((path, None))
    return out


def fresh_names(p1, p0):
    return sorted(mf.all_names(p1) - mf.all_names(p0) - DECLARED)


def pick(names, prefix):
    c = [n for n in names if n.startswith(prefix)]
    return c[0] if len(c) == 1 else None


def run_model(impl, p0, trans, target, opt, p_impl):
    """-> ("accepted", tuples, aux) | ("refused", reason)."""
    try:
        if trans == "fuse":
            return ("accepted", M.m_fuse(p0, target[0], target[1], impl.sym_equal, GEN.ARRAYS), None)
        if trans == "swap":
            return ("accepted", M.m_swap(p0, target), None)
        if trans == "chunk":
            x = M.get_stmt(p0, target)[1]
            fr = fresh_names(p_impl, p0) if p_impl is not None else []
            out = pick(fr, x + "_out_var") or x + "_out_var"
            el = pick(fr, x + "_el_inner") or x + "_el_inner"
            return ("accepted", M.m_chunk(p0, target, 32 if opt is None else opt, out, el), (out, el))
        if trans == "tile":
            o = M.get_stmt(p0, target)
            fr = fresh_names(p_impl, p0) if p_impl is not None else []
            xo = o[1]
            xi = o[5][0][1] if o[5] and o[5][0][0] == "do" else "?"
            names = tuple(pick(fr, pre) or pre for pre in (xo + "_out_var", xo + "_el_inner", xi + "_out_var", xi + "_el_inner"))
            return ("accepted", M.m_tile(p0, target, 32 if opt is None else opt, names), names)
        if trans == "hoist":
            return ("accepted", M.m_hoist(p0, target), None)
        if trans == "hoistbound":
            fr = fresh_names(p_impl, p0) if p_impl is not None else []
            names = {}
            for k in M.hoistbound_which(M.get_stmt(p0, target)):
                names[k] = pick(fr, "loop_" + k) or "loop_" + k
            return ("accepted", M.m_hoistbound(p0, target, names), names)
        if trans == "induction":
            q, nrep = M.m_induction(p0, target)
            return ("accepted", q, nrep)
        if trans == "fold":
            return ("accepted", M.m_fold(p0), None)
    except M.Refuse as e:
        return ("refused", e.args[0])
    raise ValueError(trans)


def excluded_names(p0, p1, trans, target):
    ex = set(fresh_names(p1, p0))
    if trans == "fuse":
        ex |= {M.get_stmt(p0, target[0])[1], M.get_stmt(p0, target[1])[1]}
    elif trans in ("swap", "tile"):
        o = M.get_stmt(p0, target)
        ex |= {o[1], o[5][0][1]}
    elif trans == "chunk":
        ex |= {M.get_stmt(p0, target)[1]}
    return ex


# ------------------------------------------------------------------------------------------ the property itself
def observe(r, ex):
    _, s, tr, ctl = r
    outs = [e[1] for e in tr if e[0] == "O"]
    fin = {k: v for k, v in s.vals.items() if k[0] not in ex and v != 0}
    return outs, fin


def sem_diff(p0, p1, stores, ex):
    """first store on which the observable results differ -> dict, else None.  Stores on which the original
    faults (division by zero, zero step) are skipped: the property is about defined executions."""
    nrun = 0
    p0, p1 = inline_calls(p0), inline_calls(p1)
    for vals in stores:
        r0 = mf.interp(p0, vals, BNDS)
        if r0[0] != "ok":
            continue
        nrun += 1
        r1 = mf.interp(p1, vals, BNDS)
        if r1[0] != "ok":
            return {"store": vals, "original": "ok", "transformed": r1[0] + (":" + r1[1] if len(r1) > 1 else "")}, nrun
        o0, f0 = observe(r0, ex)
        o1, f1 = observe(r1, ex)
        if o0 != o1 or f0 != f1:
            d = sorted(k for k in set(f0) | set(f1) if f0.get(k, 0) != f1.get(k, 0))[:6]
            return {"store": vals, "differing_locations": [(k, f0.get(k, 0), f1.get(k, 0)) for k in d],
                    "prints_original": o0[:5], "prints_transformed": o1[:5]}, nrun
    return None, nrun


def classify(trans, p0, target, opt, p1, stores, ex):
    """reason code for a semantic difference in a case where implementation = model (both accepted)"""
    if trans == "fuse":
        rs = M.fuse_reasons(p0, target[0], target[1], GEN.ARRAYS)
        for r in rs:
            if r not in ("bodies-share-written-names", "different-loop-variables"):
                return r
        return "unexplained" if not rs else "unexplained-" + rs[0]
    if trans == "swap":
        rs = M.swap_reasons(p0, target, GEN.ARRAYS)
        return rs[0] if rs else "unexplained"
    if trans == "chunk":
        rs = M.chunk_reasons(p0, target, 32 if opt is None else opt)
        return rs[0] if rs else "unexplained"
    if trans == "tile":
        rs = M.tile_reasons(p0, target, 32 if opt is None else opt, GEN.ARRAYS)
        return rs[0] if rs else "unexplained"
    if trans == "hoist":
        rs = M.hoist_reasons(p0, target)
        if rs[0] != "zero-trip":
            return rs[0]
        # confirm "zero-trip": guarding the hoisted statement by the loop's trip condition removes the difference
        lpath = M.enclosing_loops(p0, target)[-1]
        loop = M.get_stmt(p0, lpath)
        st = M.get_stmt(p0, target)

        def guard(blk, n):
            blk[n] = ("if", M.trip_positive(loop), [st], [])
            return blk
        d, _ = sem_diff(p0, M.map_block(p1, lpath, guard), stores, ex)
        return "zero-trip" if d is None else "unexplained"
    if trans == "induction":
        rs = M.induction_reasons(p0, target)
        if rs[0] != "zero-trip":
            return rs[0]
        loop = M.get_stmt(p0, target)
        _, nrep = M.m_induction(p0, target)

        def guard(blk, n):
            # the trip condition is evaluated before the loop (its operands may be changed by the loop)
            post = blk[n + 1:n + 1 + nrep]
            return (blk[:n] + [("assign", "c05_trip", [], M.trip_positive(loop)), blk[n],
                               ("if", ("var", "c05_trip"), post, [])] + blk[n + 1 + nrep:])
        d, _ = sem_diff(p0, M.map_block(p1, target, guard), stores, ex | {"c05_trip"})
        return "zero-trip" if d is None else "unexplained"
    return "unexplained"


def in_safe(trans, p0, target, opt):
    if trans == "fuse":
        return not M.fuse_reasons(p0, target[0], target[1], GEN.ARRAYS)
    if trans == "swap":
        return not M.swap_reasons(p0, target, GEN.ARRAYS)
    if trans == "chunk":
        return not M.chunk_reasons(p0, target, 32 if opt is None else opt)
    if trans == "tile":
        return not M.tile_reasons(p0, target, 32 if opt is None else opt, GEN.ARRAYS)
    if trans in ("hoistbound", "fold"):
        return True
    return False       # hoist / induction: safe needs a run-time fact (trip count >= 1), see NOTES


# ------------------------------------------------------------------------------------------ one case
class Runner:
    def __init__(self, ctx):
        self.ctx = ctx
        self.impl = Impl()
        self.nviol = {}
        self.mismatch = []        # verdict / tree mismatches without a failing input
        self.coq_groups = {}      # program -> (Names, program, [request terms], [descriptions])
        self.stats = {}

    def st(self, k, n=1):
        self.stats[k] = self.stats.get(k, 0) + n

    def report(self, trans, code, replay):
        key = "%s/%s" % (trans, code)
        self.nviol[key] = self.nviol.get(key, 0) + 1
        if self.nviol[key] > 2 and not any(k.get("key") == key and k.get("status") == "open" for k in self.ctx.known_findings()):
            return
        what = "semantic difference after %s (%s)" % (trans, code)
        self.ctx.finding(key, what, replay)

    def case(self, psy, p0, text, trans, target, opt, stores, kind, neglit=False):
        ctx = self.ctx
        r_impl = self.impl.apply(psy, trans, target, opt)
        p_impl = r_impl[1] if r_impl[0] == "accepted" else None
        r_mod = run_model(self.impl, p0, trans, target, opt, p_impl)
        accepted = r_impl[0] == "accepted"
        ckey = (text, trans, target, opt, neglit)
        ctx.count(ckey, accepted)
        ctx.hist("verdict_" + trans, r_impl[0] + ("" if accepted else ":" + (r_mod[1] if r_mod[0] == "refused" else "model-accepts")))
        self.st("cases")
        replay = {"property": "C05", "transformation": trans, "target_path": target, "option": opt,
                  "negative_literal_step": neglit, "fortran": text, "generator": kind,
                  "replay": "FortranReader().psyir_from_source(fortran); apply the transformation to the node at "
                            "target_path (statement indices; below an IF the next index is 0=then/1=else); "
                            "run original and transformed from `store`"}
        if r_impl[0] == "crash":
            ctx.hist("crash", trans + ":" + r_impl[1][:60])
            if not (r_mod[0] == "refused" and r_mod[1].startswith("crash")):
                self.mismatch.append(dict(replay, what="implementation raised a non-TransformationError the model does not predict",
                                          impl=r_impl[1], model=r_mod[:2]))
            return
        if not (r_mod[0] == "refused" and r_mod[1].startswith(("crash", "model-"))):
            self.coq_case(trans, p0, target, opt, r_mod, r_mod[2] if r_mod[0] == "accepted" else self.aux_default(trans, p0, target))
        if not accepted:
            if r_mod[0] == "accepted":
                self.st("impl_stricter")
                ctx.hist("impl_stricter", trans + ":" + r_impl[1][:50])
                if os.environ.get("C05_DEBUG"):
                    print("IMPL-STRICTER", trans, target, opt, r_impl[1], "\n" + text)
            return
        ex = excluded_names(p0, p_impl, trans, target)
        diff, nrun = sem_diff(p0, p_impl, stores, ex)
        self.st("interp_pairs", nrun)
        replay["transformed"] = "\n".join(mf.stmts_to_fortran(p_impl))
        if diff and trans in ("fuse", "swap", "chunk", "tile"):
            # The post-loop value of the DO variables of the transformed loops is excluded from the observation.
            # If the rest of the program reads it, compare again with those variables reset right after the
            # target in both programs: only a difference that survives is a failure of the property.
            d2 = self.diff_modulo_do_variables(p0, p_impl, trans, target, stores, ex)
            if d2 is None:
                ctx.hist("excluded_do_variable_read_after_loop", trans)
                diff = None
            else:
                diff = d2
        if diff:
            replay.update(diff)
            replay["store"] = {"%s%s" % (k[0], list(k[1]) if k[1] else ""): v for k, v in sorted(diff["store"].items())
                               if k[0] in mf.all_names(p0)}
        if r_mod[0] == "refused":
            # implementation accepts what the faithful model of the unchanged code refuses
            if diff:
                self.report(trans, "accepts-what-the-model-refuses:" + r_mod[1], replay)
            else:
                self.mismatch.append(dict(replay, what="implementation accepts, model of the unchanged validate refuses: " + r_mod[1]))
            return
        if r_mod[1] != p_impl:
            if diff:
                self.report(trans, "output-tree-differs-from-model", dict(replay, model_output="\n".join(mf.stmts_to_fortran(r_mod[1]))))
            else:
                self.mismatch.append(dict(replay, what="output tree differs from the model's apply",
                                          model_output="\n".join(mf.stmts_to_fortran(r_mod[1]))))
            return
        safe = in_safe(trans, p0, target, opt)
        nontrivial_change = p_impl != p0
        ctx.hist("bucket_" + trans, "safe" if safe else ("gap" if nontrivial_change else "identity"))
        if diff:
            code = classify(trans, p0, target, opt, p_impl, stores, ex)
            ctx.hist("semantic_difference", trans + "/" + code)
            self.report(trans, code, replay)

    @staticmethod
    def diff_modulo_do_variables(p0, p1, trans, target, stores, ex):
        path = min(target) if trans == "fuse" else target
        nseg = 2 if trans == "fuse" else 1
        dovars = sorted(x for x in ex if x in DECLARED)
        reset = [("assign", x, [], ("lit", 0)) for x in dovars]
        sizes = {}

        def ins0(blk, n):
            sizes["old"] = len(blk)
            return blk[:n + nseg] + reset + blk[n + nseg:]
        q0 = M.map_block(p0, path, ins0)

        def ins1(blk, n):
            k = nseg + (len(blk) - sizes["old"])
            return blk[:n + k] + reset + blk[n + k:]
        q1 = M.map_block(p1, path, ins1)
        d, _ = sem_diff(q0, q1, stores, ex)
        return d

    @staticmethod
    def aux_default(trans, p0, target):
        if trans == "chunk":
            return ("c05_out", "c05_el")
        if trans == "tile":
            return ("c05_oo", "c05_oe", "c05_io", "c05_ie")
        if trans == "hoistbound":
            return {}
        return None

    def coq_case(self, trans, p0, target, opt, r_mod, aux_names):
        """queue the case for the Coq model: request, program, the mirror's result (None = refuses)"""
        if M.has_kind(p0, ("call",)):
            self.st("cases_with_calls_not_sent_to_coq")
            return                      # calls are harness-only (Fort.Syntax has no call statement)
        exp = r_mod[1] if r_mod[0] == "accepted" else None
        key = repr(p0)
        if key not in self.coq_groups:
            nm0 = mf.Names().collect(p0)
            for extra in sorted(GEN.ARRAYS) + ["c05_out", "c05_el", "c05_oo", "c05_oe", "c05_io", "c05_ie", "loop_start", "loop_stop", "loop_step"]:
                nm0.get(extra)
            self.coq_groups[key] = (nm0, p0, [], [])
        nm, _, reqs, descr = self.coq_groups[key]
        if trans == "fuse":
            l1, l2 = M.get_stmt(p0, target[0]), M.get_stmt(p0, target[1])
            tbl = []
            if l1[0] == "do" and l2[0] == "do":
                for k in (2, 3, 4):
                    if self.impl.sym_equal(l1[k], l2[k]):
                        tbl.append("(%s, %s)" % (cq_e(l1[k], nm), cq_e(l2[k], nm)))
            tbl = "[%s]" % "; ".join(tbl)
            rev = target[0][-1] > target[1][-1]
            arrs = cq_path([nm.get(a) for a in sorted(GEN.ARRAYS)])
            req = "RFuse %s %s %s %s" % (tbl, arrs, "true" if rev else "false", cq_path(min(target)))
        elif trans == "swap":
            req = "RSwap %s" % cq_path(target)
        elif trans == "chunk":
            out, el = aux_names
            req = "RChunk (%d) %s %s %s" % (32 if opt is None else opt, cq_n(nm.get(out)), cq_n(nm.get(el)), cq_path(target))
        elif trans == "tile":
            req = "RTile (%d) %s %s" % (32 if opt is None else opt, " ".join(cq_n(nm.get(x)) for x in aux_names), cq_path(target))
        elif trans == "hoist":
            req = "RHoist %s" % cq_path(target)
        elif trans == "hoistbound":
            req = "RHoistBound %s %s" % (" ".join(cq_n(nm.get(aux_names.get(k, "loop_" + k))) for k in ("start", "stop", "step")), cq_path(target))
        elif trans == "induction":
            req = "RInduction %s" % cq_path(target)
        else:
            req = "RFold"
        reqs.append("(%s, %s)" % (req, "None" if exp is None else "(Some %s)" % cq_ss(exp, nm)))
        descr.append((trans, target, opt))


# ------------------------------------------------------------------------------------------ known findings
def replay_known(ctx, rn):
    n = 0
    for k in ctx.known_findings():
        w = k.get("witness")
        if not w:
            continue
        trans = k["key"].split("/")[0]
        text = HEADER + "\n".join("  " + ln for ln in w["body"]) + "\nend subroutine sub\n"
        if any(ln.strip().startswith("call ") for ln in w["body"]):
            text = "module c05mod\ncontains\n" + text + CALLEES + "end module c05mod\n"
        psy, p0, _ = rn.impl.read_text(text, w.get("negative_literal_step", False))
        target = w["target"]
        target = tuple(tuple(t) for t in target) if trans == "fuse" else tuple(target)
        stores = [{(a, tuple(ix)): v for a, ix, v in w["store"]}]
        stores += GEN.G(ctx.rng("known" + k["key"])).stores(6)
        before = len(ctx.known_printed)
        rn.case(psy, p0, text, trans, target, w.get("option"), stores, "known-finding-witness", w.get("negative_literal_step", False))
        n += len(ctx.known_printed) > before
    return n


HEADER = mf.to_fortran("sub", [], GEN.DECLS).split("end subroutine")[0]


# ------------------------------------------------------------------------------------------ run
KINDS = ["fuse", "fuse", "fusei", "nest", "nest", "nestp", "chunk", "chunk", "hoist", "hoistbound", "induction", "induction", "fold"]


def run(ctx):
    ctx.cov["rule"] = ("programs = loop nests over 1-D/2-D integer arrays and scalars from 9 targeted generators "
                       "(props/C05/c05gen.py); every program x 8 transformations x every valid target (every Loop, every "
                       "adjacent Loop pair in both orders, every Assignment inside a loop, the Routine) x option grid "
                       "(chunk/tile size 1-4 and default 32; negative literal steps); non-trivial = the implementation "
                       "accepted; distinct = (program text, transformation, target, option)")
    ctx.cov["trusted_base"] = core.BASE_TRUST + [
        "MiniFortran semantics coq/Fort/Sem.v and its Python mirror vlib/minifort.interp (validated by ./check _FORT)",
        "props/C05/c05model.py (Python mirror of the Coq model; both compared with the implementation on every case)",
        "SymbolicMaths.equal is an oracle for LoopFuseTrans' bound comparison (property C17)"]
    ctx.assumptions = ["values are integers (exactly representable domain); no out-of-bounds detection",
                       "observable result = prints + final values of all program variables except the DO variables of "
                       "the transformed loops and PSyclone-introduced variables",
                       "executions on which the original program faults (division by zero, zero step) are not compared"]
    rn = Runner(ctx)
    if (core.COQ / "Properties" / "C05.v").exists():
        ok, rep = ctx.prove()
        ctx.log("proof ok=%s discharged=%d/%d" % (ok, ctx.cov["discharged"], ctx.cov["obligations"]))
    else:
        ok, rep = False, {"errors": ["coq/Properties/C05.v missing"]}
    nk = replay_known(ctx, rn)
    ctx.log("known-finding witnesses reproduced: %d of %d" % (nk, len(ctx.known_findings())))
    rng = ctx.rng("gen")
    g = GEN.G(rng)
    nprog = ctx.pick(130, 1000)
    nstores = ctx.pick(8, 12)
    seen = set()
    for n in range(nprog):
        kind = KINDS[n % len(KINDS)]
        prog = g.program(kind)
        neglit = rng.random() < 0.35
        try:
            psy, p0, text = rn.impl.read(prog, neglit)
        except mf.OutOfSubset:
            ctx.hist("out_of_subset", kind)
            continue
        if (text, neglit) in seen:
            continue
        seen.add((text, neglit))
        ctx.hist("generator", kind)
        stores = g.stores(nstores)
        for trans in TRANS:
            for target, opt in targets(p0, trans, ctx.thorough):
                rn.case(psy, p0, text, trans, target, opt, stores, kind, neglit)
        if n < 3:
            ctx.sample({"generator": kind, "fortran": text})
    ctx.log("implementation/mirror/interpreter part done: %d cases" % rn.stats.get("cases", 0))
    header = ("From Coq Require Import ZArith. From PV Require Import Fort.Syntax C05.Model C05.Corr. "
              "Open Scope Z_scope.")
    # the Coq model is evaluated on the known-finding witnesses and on a deterministic subset of the programs
    # (every case is always compared implementation <-> mirror; coqc parsing of the case files dominates the cost)
    allg = list(rn.coq_groups.values())
    step, cap = ctx.pick(4, 1), ctx.pick(26, 250)
    nk_groups = len(ctx.known_findings())
    groups = allg[:nk_groups] + allg[nk_groups::step][:cap]
    terms = []
    for nm, p0, reqs, _ in groups:
        terms.append("(%s, [%s])" % (cq_ss(p0, nm), "; ".join(sorted(set(reqs), key=reqs.index))))
    ncoq = sum(len(set(g[2])) for g in groups)
    bad = ctx.coq_eval_failing(header, "gcase", "gcheck", terms, shard=ctx.pick(8, 12)) if terms else []
    ctx.log("Coq model vs mirror: %d cases on %d programs, %d programs with a difference" % (ncoq, len(terms), len(bad)))
    ctx.notes["coq_model_cases"] = ncoq
    for i in bad[:2]:
        nm, p0, reqs, descr = groups[i]
        single = ["(%s, [%s])" % (cq_ss(p0, nm), r) for r in reqs]
        which = ctx.coq_eval_failing(header, "gcase", "gcheck", single, shard=40)
        ctx.violation({"property": "C05", "broken": "Coq model coq/C05/Model.v differs from the mirror props/C05/c05model.py "
                       "(which agrees with the implementation on these cases)", "cases": [descr[j] for j in which[:5]],
                       "fortran": mf.to_fortran("sub", p0, GEN.DECLS), "n_programs_differing": len(bad)}, no_input=True)
    ctx.notes["harness_stats"] = rn.stats
    ctx.cov["disagreements_checked"] = len(rn.mismatch)
    ctx.log("cases=%d accepted(distinct)=%d interp pairs=%d impl-stricter=%d mismatches=%d" %
            (rn.stats.get("cases", 0), ctx.cov["distinct_nontrivial"], rn.stats.get("interp_pairs", 0),
             rn.stats.get("impl_stricter", 0), len(rn.mismatch)))
    for m in rn.mismatch[:3]:
        ctx.violation(dict(m, broken="correspondence implementation <-> model of the unchanged code (no failing input found "
                                     "on the store grid for this case)", n_mismatches=len(rn.mismatch)), no_input=True)
    if not ok and (core.COQ / "Properties" / "C05.v").exists():
        ctx.violation({"property": "C05", "broken": "proof obligations of Properties/C05.v", "proof_report": rep}, no_input=True)
