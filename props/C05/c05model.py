"""C05 — faithful Python mirror (on vlib.minifort tuples) of validate/apply of the eight generic loop
transformations, the access lists they consult (VariablesAccessInfo order), the sufficient `safe`
conditions and the reason-code classifiers.  The Coq development (coq/C05) contains the same
accept/apply/safe functions for the modelled transformations; props/C05/check.py compares implementation,
this mirror and the Coq model on every generated case.

Statement paths: a tuple of ints.  An int selects a statement in the current block; below a `do` the path
continues in its body; below an `if` the next int selects the branch (0 = then, 1 = else) and the path
continues in that branch."""

CTRL = ("exit", "cycle", "return")


class Refuse(Exception):
    """the model's TransformationError; args[0] = reason code"""


# --------------------------------------------------------------------------------------------- paths
def sub_blocks(s):
    """child blocks of a statement, as (step-prefix, block)"""
    k = s[0]
    if k == "do":
        return [((), s[5])]
    if k == "if":
        return [((0,), s[2]), ((1,), s[3])]
    if k in ("region", "dir"):
        return [((), s[2])]
    return []


def get_stmt(p, path):
    blk = p
    i = 0
    while True:
        s = blk[path[i]]
        i += 1
        if i == len(path):
            return s
        if s[0] == "if":
            blk = s[2] if path[i] == 0 else s[3]
            i += 1
        elif s[0] == "do":
            blk = s[5]
        else:
            blk = s[2]


def map_block(p, path, f):
    """rebuild p with the block containing the statement at `path` replaced by f(block, index)"""
    def go(blk, i):
        n = path[i]
        if i == len(path) - 1:
            return f(list(blk), n)
        s = blk[n]
        if s[0] == "if":
            br = path[i + 1]
            th, el = s[2], s[3]
            if br == 0:
                th = go(th, i + 2)
            else:
                el = go(el, i + 2)
            new = ("if", s[1], th, el)
        elif s[0] == "do":
            new = s[:5] + (go(s[5], i + 1),)
        else:
            new = (s[0], s[1], go(s[2], i + 1))
        return list(blk[:n]) + [new] + list(blk[n + 1:])
    return go(p, 0)


def walk_stmts(p, prefix=()):
    """yield (path, stmt) in PSyIR walk order"""
    for n, s in enumerate(p):
        path = prefix + (n,)
        yield path, s
        for step, blk in sub_blocks(s):
            yield from walk_stmts(blk, path + step)


def enclosing_loops(p, path):
    """paths of the `do` statements that are proper ancestors of the statement at path (outermost first)"""
    out = []
    blk = p
    i = 0
    while i < len(path) - 1:
        s = blk[path[i]]
        if s[0] == "do":
            out.append(tuple(path[:i + 1]))
            blk = s[5]
            i += 1
        elif s[0] == "if":
            blk = s[2] if path[i + 1] == 0 else s[3]
            i += 2
        else:
            blk = s[2]
            i += 1
    return out


# ------------------------------------------------------------------------------------- expressions
def e_names(e, acc=None, inquiry_skip=True):
    """names referenced by an expression (walk(Reference)); the first argument of an inquiry intrinsic IS a
    Reference node, so walk() sees it (inquiry_skip=False) while VariablesAccessInfo does not."""
    acc = set() if acc is None else acc
    k = e[0]
    if k == "var":
        acc.add(e[1])
    elif k == "idx":
        acc.add(e[1])
        for x in e[2]:
            e_names(x, acc, inquiry_skip)
    elif k == "un":
        e_names(e[2], acc, inquiry_skip)
    elif k == "bin":
        e_names(e[2], acc, inquiry_skip)
        e_names(e[3], acc, inquiry_skip)
    elif k == "intr":
        args = e[2]
        if inquiry_skip and e[1] in ("ILbound", "IUbound", "ISize"):
            args = args[1:]
        for x in args:
            e_names(x, acc, inquiry_skip)
    return acc


def e_subst_var(e, x, r):
    """replace every plain scalar reference to x by expression r"""
    k = e[0]
    if k == "var":
        return r if e[1] == x else e
    if k == "idx":
        return ("idx", e[1], [e_subst_var(i, x, r) for i in e[2]])
    if k == "un":
        return ("un", e[1], e_subst_var(e[2], x, r))
    if k == "bin":
        return ("bin", e[1], e_subst_var(e[2], x, r), e_subst_var(e[3], x, r))
    if k == "intr":
        return ("intr", e[1], [e_subst_var(i, x, r) for i in e[2]])
    return e


def s_subst_var(ss, x, r, lhs_too=False):
    """substitute in every expression of the statements (the scalar lhs `x = ...` itself only if lhs_too,
    in which case r must be ("var", y))"""
    out = []
    for s in ss:
        k = s[0]
        if k == "assign":
            nm = s[1]
            if lhs_too and not s[2] and nm == x:
                nm = r[1]
            out.append(("assign", nm, [e_subst_var(i, x, r) for i in s[2]], e_subst_var(s[3], x, r)))
        elif k == "if":
            out.append(("if", e_subst_var(s[1], x, r), s_subst_var(s[2], x, r, lhs_too), s_subst_var(s[3], x, r, lhs_too)))
        elif k == "do":
            out.append(("do", s[1], e_subst_var(s[2], x, r), e_subst_var(s[3], x, r), e_subst_var(s[4], x, r),
                        s_subst_var(s[5], x, r, lhs_too)))
        elif k == "print":
            out.append(("print", [e_subst_var(i, x, r) for i in s[1]]))
        elif k == "call":
            out.append(("call", s[1], [e_subst_var(i, x, r) for i in s[2]]))
        elif k in ("region", "dir"):
            out.append((k, s[1], s_subst_var(s[2], x, r, lhs_too)))
        else:
            out.append(s)
    return out


# ------------------------------------------------------------------- access lists (VariablesAccessInfo)
# an access is (name, 'R'|'W', indices-or-None, tag) in the order VariablesAccessInfo records them;
# tag identifies the node: ("lhs", stmtpath) for the written reference of an assignment, ("do", stmtpath)
# for the two accesses of a Loop node, None otherwise.
def acc_expr(e, out):
    k = e[0]
    if k == "var":
        out.append((e[1], "R", None, None))
    elif k == "idx":
        for x in e[2]:
            acc_expr(x, out)
        out.append((e[1], "R", e[2], None))
    elif k == "un":
        acc_expr(e[2], out)
    elif k == "bin":
        acc_expr(e[2], out)
        acc_expr(e[3], out)
    elif k == "intr":
        args = e[2][1:] if e[1] in ("ILbound", "IUbound", "ISize") else e[2]
        for x in args:
            acc_expr(x, out)
    return out


def acc_stmt(s, path, out):
    k = s[0]
    if k == "assign":
        acc_expr(s[3], out)
        for x in s[2]:
            acc_expr(x, out)
        out.append((s[1], "W", s[2] if s[2] else None, ("lhs", path)))
    elif k == "if":
        acc_expr(s[1], out)
        acc_block(s[2], path + (0,), out)
        acc_block(s[3], path + (1,), out)
    elif k == "do":
        out.append((s[1], "W", None, ("do", path)))
        out.append((s[1], "R", None, ("do", path)))
        acc_expr(s[2], out)
        acc_expr(s[3], out)
        acc_expr(s[4], out)
        acc_block(s[5], path, out)
    elif k == "print":
        for x in s[1]:
            acc_expr(x, out)
    elif k == "call":
        # Call.reference_accesses: a Reference argument is READWRITE (routine not known to be pure), recorded
        # before the reads of its index expressions; other arguments are walked as expressions
        for a in s[2]:
            if a[0] == "var":
                out.append((a[1], "RW", None, None))
            elif a[0] == "idx":
                out.append((a[1], "RW", a[2], None))
                for x in a[2]:
                    acc_expr(x, out)
            else:
                acc_expr(a, out)
    elif k in ("region", "dir"):
        acc_block(s[2], path, out)
    # exit / cycle (CodeBlocks without names) and return: no accesses
    return out


def acc_block(ss, prefix, out):
    for n, s in enumerate(ss):
        acc_stmt(s, prefix + (n,), out)
    return out


def by_name(accs):
    d = {}
    for a in accs:
        d.setdefault(a[0], []).append(a)
    return d


def written(al):
    return any(a[1] in ("W", "RW") for a in al)


def read_only(al):
    return all(a[1] == "R" for a in al)


def has_kind(ss, kinds, through_loops=True):
    """does the block contain a statement of one of the kinds (at any depth; optionally not below inner loops)"""
    for s in ss:
        if s[0] in kinds:
            return True
        if s[0] == "do" and not through_loops:
            continue
        for _, blk in sub_blocks(s):
            if has_kind(blk, kinds, through_loops):
                return True
    return False


def wnames(ss, acc=None):
    """statically written names: assignment targets and DO variables"""
    acc = set() if acc is None else acc
    for s in ss:
        if s[0] == "assign":
            acc.add(s[1])
        elif s[0] == "do":
            acc.add(s[1])
        elif s[0] == "call":
            for a in s[2]:
                if a[0] in ("var", "idx"):
                    acc.add(a[1])
        for _, blk in sub_blocks(s):
            wnames(blk, acc)
    return acc


def all_names(ss):
    from vlib import minifort as mf
    return mf.all_names(ss)


# ------------------------------------------------------------------------------------------ LoopFuseTrans
def loop_var_positions(idx1, idx2, v):
    pos = []
    for n in range(len(idx1)):
        if n < len(idx2):
            if v in e_names(idx1[n], inquiry_skip=False) or v in e_names(idx2[n], inquiry_skip=False):
                pos.append(n)
    return pos


def m_fuse(p, path1, path2, sym_equal, arrays):
    """path1/path2: the two nodes given to apply(node1, node2).  sym_equal(e1, e2) is the SymbolicMaths.equal
    oracle.  arrays: set of names that are arrays."""
    l1, l2 = get_stmt(p, path1), get_stmt(p, path2)
    if l1[0] != "do" or l2[0] != "do":
        raise Refuse("not-a-loop")
    if path1[:-1] != path2[:-1]:
        raise Refuse("different-parent")
    if abs(path1[-1] - path2[-1]) != 1:
        raise Refuse("not-adjacent")
    if not (sym_equal(l1[2], l2[2]) and sym_equal(l1[3], l2[3]) and sym_equal(l1[4], l2[4])):
        raise Refuse("bounds-differ")
    a1 = by_name(acc_stmt(l1, path1, []))
    a2 = by_name(acc_stmt(l2, path2, []))
    v1, v2 = l1[1], l2[1]
    if v1 != v2:
        if v2 in a1:
            raise Refuse("first-uses-second-variable")
        if v1 in a2:
            raise Refuse("second-uses-first-variable")
    for nm in sorted(set(a1) & set(a2)):
        if nm == v1:
            continue
        if read_only(a1[nm]) and read_only(a2[nm]):
            continue
        if nm not in arrays:
            if not (a1[nm][0][1] == "W" and a2[nm][0][1] == "W"):
                raise Refuse("scalar-not-written-first")
        else:
            alla = a1[nm] + a2[nm]
            c1 = alla[0][2]
            for other in alla:
                pos = loop_var_positions(c1, other[2], v1)
                if len(pos) > 1:
                    raise Refuse("different-index-locations")
                if not pos:
                    raise Refuse("array-without-loop-variable")
    # apply
    body2 = l2[5]
    if v1 != v2:
        body2 = s_subst_var(body2, v2, ("var", v1))
    fused = l1[:5] + (list(l1[5]) + list(body2),)

    def f(blk, n):
        blk[path1[-1]] = fused
        del blk[path2[-1]]
        return blk
    return map_block(p, path1, f)


def fuse_reasons(p, path1, path2, arrays):
    """why a fusion accepted by the model is not known to be safe (ordered; [] = inside `safe`)"""
    l1, l2 = get_stmt(p, path1), get_stmt(p, path2)
    out = []
    if path1[-1] > path2[-1]:
        out.append("reversed-order")
    if loopvar_in_bounds(l1) or loopvar_in_bounds(l2):
        out.append("loop-variable-in-bounds")
    b1, b2 = l1[5], l2[5]
    if has_kind(b1, ("return",)) or has_kind(b2, ("return",)) or \
            has_kind(b1, ("exit", "cycle"), False) or has_kind(b2, ("exit", "cycle"), False):
        out.append("control-transfer-in-body")
    v1, v2 = l1[1], l2[1]
    b2r = s_subst_var(b2, v2, ("var", v1)) if v1 != v2 else b2
    a1 = by_name(acc_block(b1, (), []))
    a2 = by_name(acc_block(b2r, (), []))
    differs = noninj = False
    for nm in sorted(set(a1) & set(a2)):
        if nm in arrays and (written(a1[nm]) or written(a2[nm])):
            subs = {repr(a[2]) for a in a1[nm] + a2[nm]}
            if len(subs) > 1:
                differs = True
            else:
                idx = (a1[nm] + a2[nm])[0][2]
                if not any(injective_in(x, v1) for x in idx):
                    noninj = True
    if differs:
        out.append("array-subscript-differs")
    if noninj:
        out.append("array-subscript-not-injective")
    for nm in sorted(set(a1) & set(a2)):
        if nm not in arrays and nm != v1 and (written(a1[nm]) or written(a2[nm])):
            if not (first_write_unconditional(b1, nm) and first_write_unconditional(b2r, nm)):
                out.append("scalar-conditionally-written")
                break
    if not (l1[2] == l2[2] and l1[3] == l2[3] and l1[4] == l2[4]):
        out.append("bounds-only-symbolically-equal")
    if v1 != v2:
        out.append("different-loop-variables")
    # name-level independence (the condition of fuse_sound_partial)
    hdr = e_names(l1[2]) | e_names(l1[3]) | e_names(l1[4])
    w1, w2 = wnames(b1), wnames(b2)
    n1, n2 = all_names(b1), all_names(b2)
    if (w1 & n2) or (w2 & n1) or ((w1 | w2) & (hdr | {v1})) or v1 in hdr:
        out.append("bodies-share-written-names")
    if has_kind(b1, ("call",)) or has_kind(b2, ("call",)):
        out.append("call-in-body")          # outside fuse_safe (the Coq syntax has no calls)
    return out


def loopvar_in_bounds(lp):
    """the DO variable occurs in the loop's own bound expressions (legal: they are evaluated before the loop)"""
    return any(lp[1] in e_names(b, inquiry_skip=False) for b in lp[2:5])


def injective_in(e, v):
    """syntactic: e is v, v+c, c+v, v-c with c a literal or a name other than v"""
    if e == ("var", v):
        return True
    if e[0] == "bin" and e[1] in ("Add", "Sub"):
        l, r = e[2], e[3]
        if l == ("var", v) and v not in e_names(r, inquiry_skip=False):
            return True
        if e[1] == "Add" and r == ("var", v) and v not in e_names(l, inquiry_skip=False):
            return True
    return False


def first_write_unconditional(ss, nm):
    """the first access to scalar nm in the block (access order) is a write by a top-level assignment"""
    for s in ss:
        accs = acc_stmt(s, (0,), [])
        mine = [a for a in accs if a[0] == nm]
        if not mine:
            continue
        return s[0] == "assign" and s[1] == nm and not s[2] and mine[0][1] == "W"
    return True


# ------------------------------------------------------------------------------------------ LoopSwapTrans
def m_swap_validate(p, path):
    outer = get_stmt(p, path)
    if outer[0] != "do":
        raise Refuse("not-a-loop")
    if has_kind([outer], ("exit", "cycle")):
        raise Refuse("codeblock")
    if not outer[5]:
        raise Refuse("empty-body")
    if outer[5][0][0] == "do" and len(outer[5]) == 1 and has_kind([outer], ("call",)):
        raise Refuse("impure-call")
    inner = outer[5][0]
    if inner[0] != "do":
        raise Refuse("first-statement-not-a-loop")
    if len(outer[5]) > 1:
        raise Refuse("more-than-one-inner-statement")
    for b in outer[2:5]:
        if inner[1] in e_names(b, inquiry_skip=False):
            raise Refuse("inner-variable-in-outer-bounds")
    for b in inner[2:5]:
        if outer[1] in e_names(b, inquiry_skip=False):
            raise Refuse("outer-variable-in-inner-bounds")
    return outer, inner


def m_swap(p, path):
    outer, inner = m_swap_validate(p, path)
    new = inner[:5] + ([outer[:5] + (inner[5],)],)

    def f(blk, n):
        blk[n] = new
        return blk
    return map_block(p, path, f)


def element_private(body, v1, v2, arrays, hdr_names):
    """sufficient syntactic condition for the iterations (v1, v2) of `body` to be pairwise independent:
    straight-line assignments / ifs, no scalar written, every written array always accessed with one and the
    same subscript tuple that has an injective subscript in v1 and another in v2, loop variables and header
    names not written."""
    if has_kind(body, ("do", "call") + CTRL + ("print",)):
        return False
    accs = by_name(acc_block(body, (), []))
    w = wnames(body)
    if (w & ({v1, v2} | hdr_names)) or ({v1, v2} & hdr_names):
        return False
    for nm in w:
        if nm not in arrays:
            return False
        subs = {repr(a[2]) for a in accs[nm]}
        if len(subs) != 1:
            return False
        idx = accs[nm][0][2]
        p1 = [n for n, x in enumerate(idx) if injective_in(x, v1) and v2 not in e_names(x, inquiry_skip=False)]
        p2 = [n for n, x in enumerate(idx) if injective_in(x, v2) and v1 not in e_names(x, inquiry_skip=False)]
        if not p1 or not p2:
            return False
        if any(nmx in w for x in idx for nmx in e_names(x, inquiry_skip=False)):
            return False
    return True


def swap_reasons(p, path, arrays):
    outer = get_stmt(p, path)
    inner = outer[5][0]
    hdr = set()
    for b in outer[2:5] + inner[2:5]:
        hdr |= e_names(b, inquiry_skip=False)
    if element_private(inner[5], outer[1], inner[1], arrays, hdr):
        return []
    return ["no-dependence-test"]


# ----------------------------------------------------------------------------------------- ChunkLoopTrans
def m_chunk_validate(p, path, c):
    lp = get_stmt(p, path)
    if lp[0] != "do":
        raise Refuse("not-a-loop")
    if not isinstance(c, int) or isinstance(c, bool) and False:
        raise Refuse("chunksize-not-int")
    if c <= 0:
        raise Refuse("chunksize-not-positive")
    st = lp[4]
    if st[0] != "lit":
        raise Refuse("non-literal-step")
    if abs(st[1]) > abs(c):
        raise Refuse("step-larger-than-chunk")
    if st[1] == 0:
        raise Refuse("zero-step")
    if c % abs(st[1]) != 0:
        raise Refuse("step-not-dividing-chunksize")          # (fix commit on /repo, props/C05/fix.patch)
    if has_kind(lp[5], ("exit", "cycle")):
        raise Refuse("codeblock")
    accs = []
    acc_expr(lp[2], accs)
    acc_expr(lp[3], accs)
    if lp[1] in by_name(accs):
        raise Refuse("loop-variable-in-bounds")               # (fix commit on /repo, props/C05/fix.patch)
    bnames = set(by_name(accs)) | {lp[1]}
    body = by_name(acc_block(lp[5], (), []))
    for nm in bnames:
        if nm in body and written(body[nm]):
            raise Refuse("bound-variable-written-in-body")
    return lp


def chunk_build(lp, c, out, el):
    x, lo, hi, st, body = lp[1:6]
    if st[1] > 0:
        end = ("intr", "IMin", [("bin", "Add", ("var", out), ("bin", "Sub", ("lit", c), ("lit", 1))), hi])
        cs = c
    else:
        end = ("intr", "IMax", [("bin", "Sub", ("var", out), ("bin", "Add", ("lit", c), ("lit", 1))), hi])
        cs = -c
    inner = ("do", x, ("var", out), ("var", el), st, body)
    return ("do", out, lo, hi, ("lit", cs), [("assign", el, [], end), inner])


def m_chunk(p, path, c, out, el):
    lp = m_chunk_validate(p, path, c)
    new = chunk_build(lp, c, out, el)

    def f(blk, n):
        blk[n] = new
        return blk
    return map_block(p, path, f)


def chunk_reasons(p, path, c):
    lp = get_stmt(p, path)
    s = lp[4][1]
    out = []
    if s < 0:
        out.append("negative-step-bound")
    elif c % s != 0:
        out.append("step-not-dividing-chunksize")
    if loopvar_in_bounds(lp):
        out.append("loop-variable-in-bounds")
    return out


# -------------------------------------------------------------------------------------- LoopTiling2DTrans
def m_tile(p, path, ts, names):
    """names: (outer_out, outer_el, inner_out, inner_el)"""
    if ts <= 0:
        raise Refuse("tilesize-not-positive")
    outer, inner = m_swap_validate(p, path)
    m_chunk_validate(p, path, ts)
    m_chunk_validate(p, path + (0,), ts)
    o_out, o_el, i_out, i_el = names
    inner_c = chunk_build(inner, ts, i_out, i_el)          # do i_out { i_el = ..; do i {body} }
    # after chunking both:  do o_out { o_el=..; do o { do i_out { i_el=..; do i } } };  then swap(do o, do i_out)
    o_inner = ("do", outer[1], ("var", o_out), ("var", o_el), outer[4], inner_c[5])   # do o { i_el=..; do i }
    swapped = inner_c[:5] + ([o_inner],)                                             # do i_out { do o {...} }
    o_chunk = chunk_build(outer, ts, o_out, o_el)
    new = o_chunk[:5] + ([o_chunk[5][0], swapped],)

    def f(blk, n):
        blk[n] = new
        return blk
    return map_block(p, path, f)


def tile_reasons(p, path, ts, arrays):
    outer = get_stmt(p, path)
    inner = outer[5][0]
    out = []
    for lp in (outer, inner):
        s = lp[4][1]
        if s < 0:
            out.append("negative-step-bound")
        elif ts % s != 0:
            out.append("step-not-dividing-tilesize")
    out = sorted(set(out))
    if loopvar_in_bounds(outer) or loopvar_in_bounds(inner):
        out.append("loop-variable-in-bounds")
    out += swap_reasons(p, path, arrays)
    return out


# ---------------------------------------------------------------------------------------------- HoistTrans
def m_hoist(p, path):
    st = get_stmt(p, path)
    if st[0] != "assign":
        raise Refuse("not-an-assignment")
    loops = enclosing_loops(p, path)
    if not loops:
        raise Refuse("not-in-a-loop")
    lpath = loops[-1]
    if len(path) != len(lpath) + 1:
        raise Refuse("not-directly-in-loop")
    loop = get_stmt(p, lpath)
    inloop = by_name(acc_stmt(loop, lpath, []))
    sacc = acc_stmt(st, path, [])
    instmt = by_name(sacc)
    for nm in instmt:
        if written(instmt[nm]):
            if any(a[1] in ("R", "RW") for a in instmt[nm]):
                raise Refuse("read-and-written")
            first = instmt[nm][0]
            before = False
            for a in inloop[nm]:
                if a[3] == first[3] and a[3] is not None:
                    break
                before = True
            if before:
                raise Refuse("accessed-before")
            if sum(a[1] == "W" for a in inloop[nm]) > sum(a[1] == "W" for a in instmt[nm]):
                raise Refuse("additional-write")
    for nm in instmt:
        if not written(instmt[nm]):
            if written(inloop[nm]):
                raise Refuse("reads-variable-written-in-loop")

    def rm(blk, n):
        del blk[n]
        return blk
    q = map_block(p, path, rm)

    def ins(blk, n):
        blk.insert(n, st)
        return blk
    return map_block(q, lpath, ins)


def hoist_reasons(p, path):
    loops = enclosing_loops(p, path)
    loop = get_stmt(p, loops[-1])
    n = path[-1]
    before = loop[5][:n]
    out = []
    st = loop[5][n]
    rw = [a for a in acc_stmt(loop, (0,), []) if a[0] == st[1] and a[1] == "RW"]
    if rw:
        out.append("variable-modified-by-call")
    if has_kind(before, ("return",)) or has_kind(before, ("exit", "cycle"), False):
        out.append("early-exit-before-statement")
    out.append("zero-trip")
    return out


# ------------------------------------------------------------------------------- HoistLoopBoundExprTrans
def m_hoistbound(p, path, names):
    """names: dict start/stop/step -> introduced variable (only for the bounds that are hoisted)"""
    lp = get_stmt(p, path)
    if lp[0] != "do":
        raise Refuse("not-a-loop")
    new = list(lp)
    pre = []
    for k, pos in (("start", 2), ("stop", 3), ("step", 4)):
        b = lp[pos]
        if b[0] in ("lit", "var", "idx"):
            continue
        if k not in names:
            raise Refuse("model-expects-hoisting-of-" + k)
        new[pos] = ("var", names[k])
        pre.insert(0, ("assign", names[k], [], b))

    def f(blk, n):
        return blk[:n] + pre + [tuple(new)] + blk[n + 1:]
    return map_block(p, path, f)


def hoistbound_which(lp):
    return [k for k, pos in (("start", 2), ("stop", 3), ("step", 4)) if lp[pos][0] not in ("lit", "var", "idx")]


# ------------------------------------------------------------------------ ReplaceInductionVariablesTrans
def m_induction(p, path):
    lp = get_stmt(p, path)
    if lp[0] != "do":
        raise Refuse("not-a-loop")
    x = lp[1]
    lo, hi, stp = lp[2], lp[3], lp[4]
    body = list(lp[5])
    post = []
    i = 0
    while i < len(body):
        s = body[i]
        if s[0] != "assign" or s[2]:
            i += 1
            continue
        accs = acc_block(body, (), [])
        bn = by_name(accs)
        racc = acc_expr(s[3], [])
        ok = all(read_only(bn[a[0]]) for a in racc)
        if ok:
            mine = bn[s[1]]
            ok = mine[0][3] == ("lhs", (i,)) and all(a[1] == "R" for a in mine[1:])
        if not ok:
            i += 1
            continue
        del body[i]
        v, rhs = s[1], s[3]
        lo, hi, stp = (e_subst_var(b, v, rhs) for b in (lo, hi, stp))
        body = s_subst_var(body, v, rhs)
        final = ("bin", "Sub", ("var", x), stp)
        # the detached assignment: lhs is a plain Reference to v; the loop variable is replaced in it
        newlhs = v
        if v == x:      # (cannot happen in Fortran: assignment to the DO variable)
            raise Refuse("model-does-not-cover-assignment-to-loop-variable")
        post.insert(0, ("assign", newlhs, [], e_subst_var(rhs, x, final)))
    new = ("do", x, lo, hi, stp, body)

    def f(blk, n):
        return blk[:n] + [new] + post + blk[n + 1:]
    return map_block(p, path, f), len(post)


def induction_reasons(p, path):
    """reasons, given that at least one induction variable was replaced"""
    lp = get_stmt(p, path)
    q, _ = m_induction([lp], (0,))
    moved = [s[1] for s in q[1:]]
    out = []
    hdr = e_names(lp[2], inquiry_skip=False) | e_names(lp[3], inquiry_skip=False) | e_names(lp[4], inquiry_skip=False)
    if set(moved) & hdr:
        out.append("variable-in-loop-bounds")
    if has_kind(lp[5], ("return",)) or has_kind(lp[5], ("exit", "cycle"), False):
        out.append("early-exit-or-cycle")
    out.append("zero-trip")
    return out


# ------------------------------------------------------------------ FoldConditionalReturnExpressionsTrans
def m_fold(p):
    """top-level statements of the routine"""
    for n, s in enumerate(p):
        if s[0] == "if" and not s[3]:
            if not s[2]:
                raise Refuse("crash-empty-if-body")       # IndexError in the implementation
            if s[2][0][0] == "return":
                rest = m_fold(p[n + 1:])
                return list(p[:n]) + [("if", ("un", "Not", s[1]), rest, [])]
    return list(p)


# ------------------------------------------------------------------------------------- guarded "repairs"
def trip_positive(lp):
    """expression that is true iff the DO loop runs at least once:  (hi - lo + st) / st > 0"""
    lo, hi, st = lp[2], lp[3], lp[4]
    return ("bin", "Gt", ("bin", "Div", ("bin", "Add", ("bin", "Sub", hi, lo), st), st), ("lit", 0))
