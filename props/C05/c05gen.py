"""C05 — seeded generators of loop-nest programs (vlib.minifort tuples) aimed at the eight generic loop
transformations: affine subscripts c*i+d, offsets, swapped index positions, conditionally written scalars,
literal / variable bounds, steps +-1, +-2, 3, zero-trip loops, EXIT / CYCLE / RETURN, conditional returns.
Loop variables are never read outside their own loop (the documented exclusion of the post-loop value of a
transformed DO variable)."""

LOOPVARS = ["i", "j", "k"]
BOUNDV = ["n", "m"]                 # never written by generated programs
SCAL = ["s", "t", "u"]
ARR1 = ["a", "b", "c"]
ARR2 = ["d", "e"]
ARRAYS = set(ARR1 + ARR2)
DIM = (-40, 80)

DECLS = ([(v, "integer", []) for v in LOOPVARS + BOUNDV + SCAL] +
         [(a, "integer", [DIM]) for a in ARR1] + [(a, "integer", [DIM, DIM]) for a in ARR2])


def V(x):
    return ("var", x)


def L(z):
    return ("lit", z)


def add(e, d):
    if d == 0:
        return e
    return ("bin", "Add" if d > 0 else "Sub", e, L(abs(d)))


class G:
    def __init__(self, rng):
        self.r = rng
        self.calls = False

    # ---------------------------------------------------------------- loop headers
    def header(self, allow_neg=True, avoid=(), idxvars=()):
        """(lo, hi, step) expressions; idxvars: loop variables (own / other loop's) that may index an array
        element used as a bound (ragged nests: do j = 1, nlev(i))"""
        r = self.r
        lo, hi, step = self.header0(allow_neg)
        if r.random() < 0.22:
            ix = r.choice([V(x) for x in idxvars] * 2 + [V("n"), L(2)]) if idxvars else r.choice([V("n"), L(2), V("m")])
            el = ("idx", r.choice(ARR1), [ix])
            c = r.random()
            if c < 0.3:
                el = ("intr", r.choice(["IMin", "IMax"]), [el, r.choice([V("n"), L(3)])])
            elif c < 0.4:
                el = ("bin", "Add", el, L(1))
            c = r.random()
            if c < 0.6:
                hi = el
            elif c < 0.85:
                lo = el
            else:
                step = ("intr", "IMax", [el, L(1)])
        return lo, hi, step

    def header0(self, allow_neg=True):
        r = self.r
        c = r.random()
        if c < 0.30:
            lo, hi = L(1), V(r.choice(BOUNDV))
        elif c < 0.45:
            lo, hi = L(r.choice([1, 2, 0])), L(r.choice([3, 4, 5, 6]))
        elif c < 0.55:
            lo, hi = L(r.choice([2, 3])), L(r.choice([1, 2]))            # zero/one trip
        elif c < 0.70:
            lo, hi = V("m"), V("n")
        elif c < 0.85:
            lo, hi = L(1), add(V("n"), r.choice([1, -1, 2]))
        else:
            lo, hi = add(V("m"), r.choice([0, 1])), ("intr", r.choice(["IMin", "IMax"]), [V("n"), L(4)])
        st = r.choice([1, 1, 1, 1, 2, 2, 3, -1, -1, -2]) if allow_neg else r.choice([1, 1, 1, 2, 3])
        if st < 0:
            lo, hi = hi, lo
            step = ("un", "Neg", L(-st))
        else:
            step = L(st)
        if r.random() < 0.06:
            # (a variable step is kept >= 1: a zero step is invalid Fortran)
            step = ("intr", "IMax", [V("m"), L(1)]) if r.random() < 0.5 else ("bin", "Mul", L(1), L(abs(st)))
        return lo, hi, step

    # ---------------------------------------------------------------- expressions
    def sub1(self, vs, wide=False):
        """a subscript expression over loop variables vs"""
        r = self.r
        if not vs or r.random() < 0.08:
            return L(r.choice([1, 2, 3]))
        v = r.choice(vs)
        c = r.random()
        if c < 0.55:
            return V(v)
        if c < 0.85:
            return add(V(v), r.choice([1, -1, 2, -2] if wide else [1, -1]))
        if c < 0.92:
            return ("bin", "Mul", L(2), V(v))
        if c < 0.96:
            return ("bin", "Add", V(v), V("m"))
        return ("bin", "Sub", V(v), V(v))

    def aref(self, vs, arrs1, arrs2, consistent=None):
        """array reference; `consistent`: dict array -> subscript list reused with probability"""
        r = self.r
        pool = list(arrs1) + list(arrs2)
        a = r.choice(pool)
        if consistent is not None and a in consistent and r.random() < 0.6:
            return ("idx", a, consistent[a])
        if a in ARR2:
            vv = list(vs)
            if len(vv) >= 2 and r.random() < 0.8:
                x, y = (vv[-1], vv[-2]) if r.random() < 0.6 else (vv[-2], vv[-1])
                ix = [self.sub1([x]), self.sub1([y])]
            else:
                ix = [self.sub1(vv), self.sub1(vv) if r.random() < 0.5 else L(r.choice([1, 2]))]
                if r.random() < 0.3:
                    ix.reverse()
        else:
            ix = [self.sub1(list(vs), wide=True)]
        if consistent is not None and a not in consistent:
            consistent[a] = ix
        return ("idx", a, ix)

    def expr(self, vs, arrs1, arrs2, scal, depth=0, consistent=None):
        r = self.r
        c = r.random()
        if depth >= 2 or c < 0.35:
            c2 = r.random()
            if c2 < 0.2:
                return L(r.randint(-2, 4))
            if c2 < 0.45 and (scal or vs):
                return V(r.choice(list(scal) + list(vs) + ["n"]))
            if not (arrs1 or arrs2):
                return V(r.choice(list(scal) + list(vs) + ["n", "m"]))
            return self.aref(vs, arrs1, arrs2, consistent)
        if c < 0.85:
            return ("bin", r.choice(["Add", "Sub", "Mul", "Add"]), self.expr(vs, arrs1, arrs2, scal, depth + 1, consistent),
                    self.expr(vs, arrs1, arrs2, scal, depth + 1, consistent))
        if c < 0.93:
            return ("intr", r.choice(["IMin", "IMax"]), [self.expr(vs, arrs1, arrs2, scal, depth + 1, consistent),
                                                         self.expr(vs, arrs1, arrs2, scal, depth + 1, consistent)])
        return ("intr", "IMod", [self.expr(vs, arrs1, arrs2, scal, depth + 1, consistent), L(r.choice([2, 3]))])

    def cond(self, vs, arrs1, arrs2, scal, consistent=None):
        r = self.r
        return ("bin", r.choice(["Gt", "Lt", "Ge", "Ne"]), self.expr(vs, arrs1, arrs2, scal, 1, consistent), L(r.choice([0, 1, 2])))

    # ---------------------------------------------------------------- bodies
    def body(self, vs, arrs1, arrs2, scal, n, ctrl=0.0, inner=None, consistent=None, scalar_first=0.0):
        """n statements; ctrl = probability of a conditional exit/cycle/return statement"""
        r = self.r
        out = []
        if scal and r.random() < scalar_first:
            out.append(("assign", r.choice(scal), [], self.expr(vs, arrs1, arrs2, [], 1, consistent)))
        for _ in range(n):
            c = r.random()
            if self.calls and r.random() < 0.10:
                out.append(self.call(vs, arrs1, arrs2, scal, consistent))
                continue
            if c < ctrl:
                out.append(("if", self.cond(vs, arrs1, arrs2, scal, consistent), [(r.choice(["exit", "cycle", "return", "exit"]),)], []))
            elif c < ctrl + 0.62:
                t = self.aref(vs, arrs1, arrs2, consistent)
                out.append(("assign", t[1], t[2], self.expr(vs, arrs1, arrs2, scal, 0, consistent)))
            elif c < ctrl + 0.76 and scal:
                out.append(("assign", r.choice(scal), [], self.expr(vs, arrs1, arrs2, scal, 0, consistent)))
            elif c < ctrl + 0.92:
                th = self.body(vs, arrs1, arrs2, scal, r.randint(1, 2), 0.0, None, consistent)
                el = self.body(vs, arrs1, arrs2, scal, 1, 0.0, None, consistent) if r.random() < 0.3 else []
                out.append(("if", self.cond(vs, arrs1, arrs2, scal, consistent), th, el))
            elif inner:
                lo, hi, st = self.header(idxvars=list(vs) + [inner])
                out.append(("do", inner, lo, hi, st, self.body(vs + [inner], arrs1, arrs2, scal, r.randint(1, 2), 0.0, None, consistent)))
            else:
                t = self.aref(vs, arrs1, arrs2, consistent)
                out.append(("assign", t[1], t[2], self.expr(vs, arrs1, arrs2, scal, 1, consistent)))
        return out

    def call(self, vs, arrs1, arrs2, scal, consistent=None):
        """a call of a module routine (bump, setv) or of the external opaque routine ext; by-reference arguments"""
        r = self.r

        def ref():
            if scal and r.random() < 0.5:
                return V(r.choice(list(scal)))
            if arrs1 or arrs2:
                return self.aref(vs, arrs1, arrs2, consistent)
            return V(r.choice(SCAL))
        c = r.random()
        if c < 0.45:
            return ("call", "bump", [ref()])
        if c < 0.75:
            return ("call", "setv", [ref(), self.expr(vs, arrs1, arrs2, scal, 1, consistent)])
        return ("call", "ext", [ref()])

    def simple(self):
        r = self.r
        if r.random() < 0.5:
            return ("assign", r.choice(SCAL), [], self.expr([], ARR1, [], SCAL + ["n"], 1))
        return ("assign", r.choice(ARR1), [L(r.choice([1, 2, 3]))], self.expr([], ARR1, [], SCAL, 1))

    def wrap(self, core):
        """surround the core statements with 0-1 simple statements; sometimes nest them in an if / an outer loop"""
        r = self.r
        c = r.random()
        if c < 0.12:
            core = [("if", ("bin", "Gt", V("n"), L(r.choice([0, 1, 2]))), core, [])]
        elif c < 0.22 and not any("k" == s[1] for s in core if s[0] == "do") and not _uses(core, "k"):
            core = [("do", "k", L(1), L(r.choice([1, 2, 3])), L(1), core)]
        pre = [self.simple()] if r.random() < 0.4 else []
        post = [self.simple()] if r.random() < 0.5 else []
        return pre + core + post

    # ---------------------------------------------------------------- targeted shapes
    def fuse_prog(self):
        r = self.r
        v1 = r.choice(["i", "i", "j"])
        v2 = v1 if r.random() < 0.65 else ("j" if v1 == "i" else "i")
        lo, hi, st = self.header(idxvars=[v1])
        c = r.random()
        if c < 0.78:
            h2 = (lo, hi, st)
        elif c < 0.88 and hi[0] == "bin" and hi[1] == "Add":
            h2 = (lo, ("bin", "Add", hi[3], hi[2]), st)            # n+1 vs 1+n
        else:
            h2 = self.header()
        arrs1 = r.sample(ARR1, r.choice([2, 3]))
        arrs2 = r.sample(ARR2, r.choice([0, 1, 1]))
        scal = r.sample(SCAL, r.choice([0, 1, 2]))
        cons = {} if r.random() < 0.6 else None
        ctrl = r.choice([0, 0, 0, 0.15])
        sf = r.choice([0.0, 0.6, 1.0])
        b1 = self.body([v1], arrs1, arrs2, scal, r.randint(1, 3), ctrl, None, cons, sf)
        cons2 = None
        if cons is not None:
            cons2 = {a: _ren_list(ix, v1, v2) for a, ix in cons.items()}
        b2 = self.body([v2], arrs1, arrs2, scal, r.randint(1, 3), ctrl, None, cons2, sf)
        if scal and r.random() < 0.15:
            # scalar written first in both loops, but only conditionally in the second
            sc = scal[0]
            b1.insert(0, ("assign", sc, [], self.expr([v1], arrs1, [], [], 1)))
            b2.insert(0, ("if", self.cond([v2], arrs1, [], []), [("assign", sc, [], L(r.choice([0, 2])))], []))
            b2.append(("assign", arrs1[0], [V(v2)], V(sc)))
        if v1 != v2:
            # the other loop's variable used in a body (LoopFuseTrans must refuse: it renames the second variable)
            c2 = r.random()
            if c2 < 0.4:
                b2.append(("assign", arrs1[0], [V(v2)], ("bin", "Add", ("idx", arrs1[-1], [V(v2)]), V(v1))))
            elif c2 < 0.6:
                b1.append(("assign", arrs1[0], [V(v1)], V(v2)))
        loops = [("do", v1, lo, hi, st, b1), ("do", v2) + h2 + (b2,)]
        if r.random() < 0.2:
            b3 = self.body([v1], arrs1, arrs2, scal, r.randint(1, 2), 0, None, cons, sf)
            loops.append(("do", v1, lo, hi, st, b3))
        return self.wrap(loops)

    def indep_fuse_prog(self):
        """two loops with disjoint written names (inside fuse `safe`)"""
        r = self.r
        v = r.choice(["i", "j"])
        lo, hi, st = self.header()
        wa, wb, rd = r.sample(ARR1, 3)
        b1 = [("assign", wa, [self.sub1([v], True)], self.expr([v], [rd], [], ["n"], 0)) for _ in range(r.randint(1, 2))]
        b2 = [("assign", wb, [self.sub1([v], True)], self.expr([v], [rd], [], ["m"], 0)) for _ in range(r.randint(1, 2))]
        if r.random() < 0.3:
            b1.append(("if", self.cond([v], [rd], [], []), [("assign", wa, [V(v)], L(1))], []))
        return self.wrap([("do", v, lo, hi, st, b1), ("do", v, lo, hi, st, b2)])

    def nest_prog(self, private=False):
        r = self.r
        o, i_ = r.choice([("j", "i"), ("i", "j")])
        lo1, hi1, st1 = self.header(idxvars=[i_, o])
        lo2, hi2, st2 = self.header(idxvars=[o, o, i_])
        c = r.random()
        if c < 0.08:
            hi2 = V(o)                                              # inner bound uses outer variable
        elif c < 0.12:
            lo1 = V(i_)
        arrs2 = r.sample(ARR2, r.choice([1, 2]))
        arrs1 = r.sample(ARR1, r.choice([0, 1]))
        scal = r.sample(SCAL, r.choice([0, 0, 1]))
        if private:
            w = arrs2[0]
            rd = [x for x in ARR2 if x != w]
            ix = [add(V(i_), r.choice([0, 1])), add(V(o), r.choice([0, -1]))]
            if r.random() < 0.4:
                ix.reverse()
            rhs = self.expr([o, i_], [], rd, ["n"], 0)
            if r.random() < 0.5:
                rhs = ("bin", "Add", ("idx", w, ix), rhs)
            body = [("assign", w, ix, rhs)]
            if r.random() < 0.3:
                body.append(("if", ("bin", "Gt", ("idx", w, ix), L(0)), [("assign", w, ix, L(0))], []))
        else:
            cons = {} if r.random() < 0.4 else None
            body = self.body([o, i_], arrs1, arrs2, scal, r.randint(1, 3), r.choice([0, 0, 0, 0.12]), None, cons)
        inner = ("do", i_, lo2, hi2, st2, body)
        ob = [inner]
        if r.random() < 0.07:
            ob.append(self.simple())
        return self.wrap([("do", o, lo1, hi1, st1, ob)])

    def chunk_prog(self):
        r = self.r
        v = r.choice(["i", "j"])
        lo, hi, st = self.header(idxvars=[v])
        arrs1 = r.sample(ARR1, r.choice([1, 2]))
        scal = r.sample(SCAL, r.choice([0, 1]))
        body = self.body([v], arrs1, [], scal, r.randint(1, 3), r.choice([0, 0, 0, 0.1]), "k" if r.random() < 0.2 else None)
        if r.random() < 0.08:
            body.append(("assign", "n", [], V("n")))                                   # bound variable written
        if r.random() < 0.1:
            body.append(("if", self.cond([v], arrs1, [], scal), [("return",)], []))
        return self.wrap([("do", v, lo, hi, st, body)])

    def hoist_prog(self):
        r = self.r
        v = r.choice(["i", "j"])
        lo, hi, st = self.header(idxvars=[v])
        arrs1 = r.sample(ARR1, 2)
        scal = r.sample(SCAL, 2)
        body = self.body([v], arrs1, [], scal, r.randint(1, 3), r.choice([0, 0, 0.15]), None)
        inv = []
        for _ in range(r.randint(1, 2)):
            c = r.random()
            if c < 0.6:
                inv.append(("assign", r.choice(scal), [], self.expr([], ARR1, [], ["n", "m"], 1)))
            elif c < 0.85:
                inv.append(("assign", r.choice(ARR1), [L(r.choice([1, 2]))], self.expr([], [], [], ["n", "m"], 1)))
            else:
                inv.append(("assign", r.choice(scal), [], self.expr([v], arrs1, [], scal, 1)))
        for s in inv:
            body.insert(r.randint(0, len(body)) if r.random() < 0.5 else 0, s)
        if self.calls and r.random() < 0.5:
            body.insert(r.randint(0, len(body)), ("call", r.choice(["bump", "ext"]), [r.choice([V(scal[0]), V(scal[1]), ("idx", arrs1[0], [V(v)])])]))
        loop = ("do", v, lo, hi, st, body)
        if r.random() < 0.2:
            lo2, hi2, st2 = self.header(idxvars=["k", v])
            loop = ("do", "k", lo2, hi2, st2, [loop])
        return self.wrap([loop])

    def hoistbound_prog(self):
        r = self.r
        v = r.choice(["i", "j"])
        arrs1 = r.sample(ARR1, 2)
        scal = r.sample(SCAL, 1)

        def bexpr():
            c = r.random()
            if c < 0.25:
                return add(V(r.choice(BOUNDV + scal)), r.choice([1, 2, -1]))
            if c < 0.4:
                return ("intr", r.choice(["IMin", "IMax"]), [V("n"), ("idx", arrs1[0], [L(2)])])
            if c < 0.5:
                return ("idx", arrs1[0], [r.choice([L(1), L(2), V("n"), V(v)])])
            if c < 0.6:
                return ("bin", "Mul", V("m"), L(2))
            if c < 0.7:
                return V(r.choice(BOUNDV + scal))
            if c < 0.8:
                return ("bin", "Add", V(v), L(1))                      # the loop variable itself
            return L(r.choice([1, 2, 5]))
        lo, hi = bexpr(), bexpr()
        st = r.choice([L(1), L(2), ("un", "Neg", L(1)), ("bin", "Add", V("m"), L(1)), ("intr", "IMax", [V("m"), L(1)]), L(1)])
        body = self.body([v], arrs1, [], scal + ["n"] if r.random() < 0.2 else scal, r.randint(1, 3), r.choice([0, 0, 0.12]), None)
        if r.random() < 0.3:
            body.append(("assign", scal[0], [], add(V(scal[0]), 1)))
        if r.random() < 0.25:
            body.append(("assign", arrs1[0], [L(2)], V(v)))               # writes what the bound reads
        return self.wrap([("do", v, lo, hi, st, body)])

    def induction_prog(self):
        r = self.r
        v = r.choice(["i", "j"])
        lo, hi, st = self.header(idxvars=[v])
        arrs1 = r.sample(ARR1, 2)
        ind = r.sample(SCAL, 2)
        if r.random() < 0.12:
            hi = V(ind[0])                                                  # induction variable in the bounds
        body = []
        first = ("assign", ind[0], [], r.choice([add(V(v), r.choice([1, -1, 2])), ("bin", "Mul", L(2), V(v)),
                                                 ("bin", "Add", V(v), V("m")), ("idx", arrs1[1], [V(v)]), L(3)]))
        body.append(first)
        if r.random() < 0.4:
            body.append(("assign", ind[1], [], ("bin", "Add", V(ind[0]), L(1))))
        for _ in range(r.randint(1, 2)):
            body.append(("assign", arrs1[0], [r.choice([V(ind[0]), V(v), add(V(v), 1)])],
                         self.expr([v], arrs1[1:], [], ind, 1)))
        if self.calls and r.random() < 0.5:
            body.insert(r.randint(1, len(body)), ("call", r.choice(["bump", "ext", "bump"]),
                                                  [r.choice([V(ind[0]), V(ind[0]), ("idx", arrs1[1], [V(v)])])] ))
            if body[-1][0] == "call" and body[-1][1] == "setv":
                pass
        c = r.random()
        if c < 0.15:
            body.insert(r.randint(0, len(body)), ("if", self.cond([v], arrs1[1:], [], []), [(r.choice(["exit", "cycle", "return"]),)], []))
        elif c < 0.25:
            body.insert(0, ("assign", arrs1[0], [V(v)], V(ind[0])))           # read before the assignment
        elif c < 0.33:
            body.append(("assign", ind[0], [], L(0)))                        # second write
        elif c < 0.4:
            body.append(("if", ("bin", "Gt", V(ind[0]), L(2)), [("assign", arrs1[0], [V(v)], V(ind[0]))], []))
        return self.wrap([("do", v, lo, hi, st, body)])

    def fold_prog(self):
        r = self.r
        out = []
        for _ in range(r.randint(2, 5)):
            c = r.random()
            if c < 0.4:
                th = [("return",)]
                if r.random() < 0.2:
                    th.append(self.simple())
                out.append(("if", self.cond([], ARR1, [], SCAL + ["n"]), th, []))
            elif c < 0.5:
                out.append(("if", self.cond([], ARR1, [], SCAL + ["n"]), [self.simple(), ("return",)], []))
            elif c < 0.58:
                out.append(("if", self.cond([], ARR1, [], SCAL + ["n"]), [("return",)], [self.simple()]))
            elif c < 0.66:
                out.append(("return",))
            elif c < 0.8:
                lo, hi, st = self.header()
                out.append(("do", "i", lo, hi, st, [("assign", "a", [V("i")], self.expr(["i"], ARR1, [], SCAL, 1)),
                                                    ("if", self.cond(["i"], ARR1, [], []), [("return",)], [])]))
            elif self.calls and r.random() < 0.4:
                out.append(self.call([], ARR1, [], SCAL))
            else:
                out.append(self.simple())
        return out

    def program(self, kind):
        self.calls = self.r.random() < 0.3
        return {"fuse": self.fuse_prog, "fusei": self.indep_fuse_prog, "nest": self.nest_prog,
                "nestp": lambda: self.nest_prog(True), "chunk": self.chunk_prog, "hoist": self.hoist_prog,
                "hoistbound": self.hoistbound_prog, "induction": self.induction_prog, "fold": self.fold_prog}[kind]()

    # ---------------------------------------------------------------- stores
    def stores(self, n):
        r = self.r
        out = []
        for k in range(n):
            vals = {}
            vals[("n", ())] = [0, 1, 2, 3, 5, 6, 4, 7][k % 8] if k < 8 else r.randint(0, 7)
            vals[("m", ())] = r.choice([1, 1, 2, 0, 3])
            for v in SCAL:
                vals[(v, ())] = r.randint(-3, 5)
            for v in LOOPVARS:
                vals[(v, ())] = r.randint(-2, 9)
            for a in ARR1:
                for i in range(-6, 18):
                    vals[(a, (i,))] = r.randint(-4, 6)
            for a in ARR2:
                for i in range(-4, 14):
                    for j in range(-4, 14):
                        vals[(a, (i, j))] = r.randint(-4, 6)
            out.append(vals)
        return out


def _uses(ss, x):
    from vlib import minifort as mf
    return x in mf.all_names(ss)


def _ren_list(ix, a, b):
    from c05model import e_subst_var
    return [e_subst_var(e, a, ("var", b)) for e in ix]
