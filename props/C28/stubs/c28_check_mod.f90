! Checking PSyData stub library for property C28 (shared part): a stack of open regions.
! Every PreStart pushes the calling PSyData variable, every PostEnd must find it on top.
! c28_verdict() prints the verdict read by props/C28/check.py.
module c28_check_mod
  implicit none
  integer, parameter :: maxdepth = 10000
  integer :: depth = 0
  integer :: stack(maxdepth)
  integer :: next_id = 0
  logical :: bad = .false.
  logical :: proto_bad = .false.
  character(len=200) :: reason = ""
contains
  subroutine c28_enter(id, is_open, module_name, region_name)
    integer, intent(inout) :: id
    logical, intent(inout) :: is_open
    character(len=*), intent(in) :: module_name, region_name
    if (id == 0) then
      next_id = next_id + 1
      id = next_id
    end if
    write(*, '(A)') "C28-ENTER [" // trim(module_name) // "] [" // trim(region_name) // "]"
    if (is_open) then
      bad = .true.
      if (len_trim(reason) == 0) reason = "PreStart on a region that was entered and never left"
    end if
    is_open = .true.
    if (depth < maxdepth) then
      depth = depth + 1
      stack(depth) = id
    else
      bad = .true.
    end if
  end subroutine c28_enter

  subroutine c28_leave(id, is_open, module_name, region_name)
    integer, intent(in) :: id
    logical, intent(inout) :: is_open
    character(len=*), intent(in) :: module_name, region_name
    write(*, '(A)') "C28-LEAVE [" // trim(module_name) // "] [" // trim(region_name) // "]"
    if (depth == 0) then
      bad = .true.
      if (len_trim(reason) == 0) reason = "PostEnd without an open region"
    else if (stack(depth) /= id) then
      bad = .true.
      if (len_trim(reason) == 0) reason = "PostEnd does not match the innermost open region"
    else
      depth = depth - 1
    end if
    is_open = .false.
  end subroutine c28_leave

  subroutine c28_protocol(what)
    character(len=*), intent(in) :: what
    proto_bad = .true.
    write(*, '(A)') "C28-PROTOCOL-ERROR " // trim(what)
  end subroutine c28_protocol

  subroutine c28_verdict()
    if (depth /= 0) then
      bad = .true.
      if (len_trim(reason) == 0) reason = "regions entered and never left"
    end if
    if (bad) then
      write(*, '(A)') "C28-VERDICT unbalanced " // trim(reason)
    else if (proto_bad) then
      write(*, '(A)') "C28-VERDICT protocol"
    else
      write(*, '(A)') "C28-VERDICT balanced"
    end if
  end subroutine c28_verdict
end module c28_check_mod
