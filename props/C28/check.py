"""C28 — PSyData regions are entered and left in matched pairs.

Tie: translator (props/C28/translate.py -> coq/C28/Gen.v: excluded_node_types, directive class
tables, shape of the validate methods) + correspondence (this file).

The harness generates MiniFortran programs with EXIT/CYCLE/RETURN/branches (vlib.fortgen + RETURN and
directive injection), enumerates every consecutive-statement placement in every block, and for each
of ProfileTrans / ExtractTrans / NanTestTrans / ReadOnlyVerifyTrans runs the REAL validate/apply on the
real PSyIR.  The resulting tree is serialised back (PSyDataNode -> region) and
 (1) compared with the faithful Coq model (accept verdict, resulting tree, static safety) by vm_compute;
 (2) independently of the model, executed by the MiniFortran interpreter over several stores with a
     marker in front of every statement that leaves a region abnormally: the property itself (stack
     discipline of Enter/Leave) is evaluated on the trace -- the failing-input search;
 (3) written with FortranWriter: the names passed to PreStart are compared with the model's naming
     and checked for duplicates;
 (4) thorough: compiled with gfortran against a checking PSyData stub library (props/C28/stubs) and
     run; the run-time Enter/Leave sequence must equal the interpreter's and the verdict is read.
A concrete unbalanced execution is reported through ctx.finding with key
"<TransformationClass>/<kind>-in-region": listed open in known_findings.json -> KNOWN-FINDING, else VIOLATION.
"""
import json
import re
from pathlib import Path

from vlib import core, minifort as mf, fortgen

HERE = Path(__file__).resolve().parent
TKINDS = ["TProfile", "TExtract", "TNanTest", "TReadOnly"]
TRANS_NAMES = ["ProfileTrans", "ExtractTrans", "NanTestTrans", "ReadOnlyVerifyTrans"]
NODE_CODES = {"ProfileNode": 0, "ExtractNode": 1, "NanTestNode": 2, "ReadOnlyVerifyNode": 3}
PREFIXES = ["profile", "extract", "nan_test", "read_only_verify"]
DIR_NAMES = ["OMPParallelDirective", "OMPDoDirective", "OMPParallelDoDirective", "ACCParallelDirective",
             "ACCLoopDirective", "ACCKernelsDirective", "OMPTargetDirective"]
LOOP_DIRS = (1, 2, 4)      # OMPDo, OMPParallelDo, ACCLoop: must be followed immediately by their loop
ACC_DIRS = (3, 4, 5)       # OpenACC regions: no host calls inside
MARK = 900000

HEADER = """From Coq Require Import List ZArith Bool. Import ListNotations.
From PV Require Import Fort.Syntax Fort.Sem Base.Harness C28.Model C28.Gen.
(* t, target, options, implementation accepted?, hash of the implementation's resulting tree, the tree
   itself for a sample of the cases (else []), harness' static safety *)
Definition rcase := (tkind * target * opts * bool * Z * option (list stmt) * bool)%type.
Definition rcheck (strict : bool) (p : list stmt) (c : rcase) : bool :=
  match c with (t, tg, o, acc, hres, res, pysafe) =>
    match apply_impl t p tg o with
    | Some q => if acc then Z.eqb (tree_hash q) hres
                            && match res with Some r => stmts_eqb q r && Z.eqb (tree_hash r) hres | None => true end
                            && Bool.eqb (no_escaping_transfer q) pysafe
                else negb strict
    | None => negb acc
    end end.
(* exact agreement *)
Definition pcheck (c : list stmt * list rcase) : bool := forallb (rcheck true (fst c)) (snd c).
(* one-directional: implementation accepts => model accepts with the same tree *)
Definition pcheck1 (c : list stmt * list rcase) : bool := forallb (rcheck false (fst c)) (snd c).
(* names: pre-order region tags as flattened by the harness, the tree itself for a sample, observed names *)
Definition ncheck (c : option (list stmt) * list nat * list rname) : bool :=
  match c with (tree, tags, obs) =>
    list_beq rname_eqb (name_from 0 tags) obs
    && match tree with Some t => list_beq Nat.eqb (regs t) tags | None => true end
  end.
Definition auto_code (r : auto_result) : nat * list stmt :=
  match r with AWrapped q => (0, q) | ASkipped => (1, []) | ARaised => (2, []) end.
Definition acheck (c : list stmt * (nat * list stmt)) : bool :=
  match c with (p, (k, q)) => let (k', q') := auto_code (auto_profile p) in Nat.eqb k k' && stmts_eqb q q' end.
"""


# ------------------------------------------------------------------ program generation
def add_returns(stmts, rng, top=True, in_loop=False):
    """sprinkle RETURN (in IF branches, at routine end) and bare EXIT/CYCLE (end of loop bodies)."""
    out = []
    for s in stmts:
        k = s[0]
        if k == "if":
            th = add_returns(s[2], rng, False, in_loop)
            el = add_returns(s[3], rng, False, in_loop)
            if rng.random() < 0.12 and (not th or th[-1][0] not in ("exit", "cycle", "return")):
                th = th + [("return",)]
            out.append(("if", s[1], th, el))
        elif k == "do":
            body = add_returns(s[5], rng, False, True)
            if rng.random() < 0.06 and body and body[-1][0] not in ("exit", "cycle", "return"):
                body = body + [(rng.choice(["exit", "cycle"]),)]
            out.append(("do",) + tuple(s[1:5]) + (body,))
        else:
            out.append(s)
    if top and rng.random() < 0.2:
        out.append(("return",))
    return out


def add_dirs(stmts, rng, p=0.12):
    """wrap single statements in directives (loop directives only around loops)."""
    out = []
    for s in stmts:
        k = s[0]
        if k == "if":
            s = ("if", s[1], add_dirs(s[2], rng, p), add_dirs(s[3], rng, p))
        elif k == "do":
            s = ("do",) + tuple(s[1:5]) + (add_dirs(s[5], rng, p),)
        if rng.random() < p and k in ("do", "assign", "if"):
            d = rng.choice(range(7)) if k == "do" else rng.choice([0, 3, 5, 6])
            s = ("dir", d, [s])
        out.append(s)
    return out


def strip_wrappers(stmts):
    out = []
    for s in stmts:
        k = s[0]
        if k == "if":
            out.append(("if", s[1], strip_wrappers(s[2]), strip_wrappers(s[3])))
        elif k == "do":
            out.append(("do",) + tuple(s[1:5]) + (strip_wrappers(s[5]),))
        elif k in ("dir", "region"):
            out += strip_wrappers(s[2])
        else:
            out.append(s)
    return out


def program_text(stmts, decls, name="sub"):
    lines = ["subroutine %s(%s)" % (name, ", ".join(v for v, _, _ in decls))]
    for v, ty, bs in decls:
        if bs:
            lines.append("  %s, dimension(%s), intent(inout) :: %s" % (ty, ", ".join("%d:%d" % b for b in bs), v))
        else:
            lines.append("  %s, intent(inout) :: %s" % (ty, v))
    lines += mf.stmts_to_fortran(strip_wrappers(stmts))
    lines.append("end subroutine %s" % name)
    return "\n".join(lines) + "\n"


# ------------------------------------------------------------------ PSyIR side
class Impl:
    """lazy imports of the implementation under test"""

    def __init__(self):
        from psyclone.psyir.frontend.fortran import FortranReader
        from psyclone.psyir.backend.fortran import FortranWriter
        from psyclone.psyir import nodes as N
        from psyclone.psyir import transformations as T
        from psyclone.psyir.transformations import TransformationError
        self.N, self.T = N, T
        self.reader = FortranReader()
        # a fresh writer per call: a FortranWriter that raised half-way keeps its indentation depth
        self.writer = lambda node: FortranWriter()(node)
        self.TransformationError = TransformationError
        self.trans = [getattr(T, n) for n in TRANS_NAMES]
        self.dirs = [getattr(N, n) for n in DIR_NAMES]
        # fparser's ParserFactory.create re-derives its class tables on every call (7 ms) and PSyDataNode lowering
        # calls it once per generated CALL: memoise repeated calls with the same standard (no behavioural change).
        from fparser.two import parser as fp
        if not getattr(fp.ParserFactory, "_c28_memo", False):
            orig = fp.ParserFactory.create
            state = {}

            def create(self_, std=None):
                if state.get("std", "?") == std:
                    return state["parser"]
                state["parser"] = orig(self_, std=std)
                state["std"] = std
                return state["parser"]
            fp.ParserFactory.create = create
            fp.ParserFactory._c28_memo = True

    def parse(self, text):
        psy = self.reader.psyir_from_source(text)
        return psy

    def routine(self, psy):
        return psy.walk(self.N.Routine)[0]

    def inject_dirs(self, sched, stmts):
        """wrap the nodes that the tuple tree marks with ("dir", d, [s]) in real directive nodes."""
        N = self.N
        for idx, s in enumerate(stmts):
            node = sched.children[idx]
            if s[0] == "dir":
                if len(s[2]) != 1:
                    raise ValueError("directive bodies are single statements in this harness")
                node.detach()
                d = self.dirs[s[1]](children=[node])
                sched.addchild(d, idx)
                s = s[2][0]
            if s[0] == "if":
                self.inject_dirs(node.if_body, s[2])
                if s[3]:
                    self.inject_dirs(node.else_body, s[3])
            elif s[0] == "do":
                self.inject_dirs(node.loop_body, s[5])
            elif s[0] == "dir":
                raise ValueError("nested directives are not generated")

    def sched_at(self, routine, path):
        N = self.N
        sched = routine
        for i, el in path:
            n = sched.children[i]
            if isinstance(n, N.IfBlock):
                sched = n.else_body if el else n.if_body
            elif isinstance(n, N.Loop):
                sched = n.loop_body
            elif isinstance(n, N.PSyDataNode):
                sched = n.psy_data_body
            elif isinstance(n, N.Directive):
                sched = n.dir_body
            else:
                raise ValueError("path does not lead to a block")
        return sched

    # ---- serialiser (PSyDataNode -> region tag, directive class -> code); fail-closed
    def ser_list(self, nodes):
        return [self.ser(n) for n in nodes]

    def ser(self, n):
        N = self.N
        if isinstance(n, N.PSyDataNode):
            code = NODE_CODES.get(type(n).__name__)
            if code is None:
                raise mf.OutOfSubset("PSyData node class " + type(n).__name__)
            nm = 0
            if n.region_name is not None or n.module_name is not None:
                m = re.fullmatch(r"u(\d+)", n.region_name or "")
                if not m or n.module_name != "mod":
                    raise mf.OutOfSubset("unexpected user region name %r/%r" % (n.module_name, n.region_name))
                nm = int(m.group(1)) + 1
            return ("region", 4 * nm + code, self.ser_list(n.psy_data_body.children))
        if isinstance(n, N.Directive):
            if type(n).__name__ not in DIR_NAMES:
                raise mf.OutOfSubset("directive class " + type(n).__name__)
            return ("dir", DIR_NAMES.index(type(n).__name__), self.ser_list(n.dir_body.children))
        if isinstance(n, N.IfBlock):
            return ("if", mf.expr_from_psyir(n.condition), self.ser_list(n.if_body.children),
                    self.ser_list(n.else_body.children) if n.else_body else [])
        if type(n) is N.Loop:
            return ("do", n.variable.name.lower(), mf.expr_from_psyir(n.start_expr), mf.expr_from_psyir(n.stop_expr),
                    mf.expr_from_psyir(n.step_expr), self.ser_list(n.loop_body.children))
        return mf.stmt_from_psyir(n)

    # ---- re-read of the WRITTEN (lowered) code: where did PreStart / PostEnd end up?
    CALL_RE = re.compile(r"""^\s*CALL\s+(\w+)\s*%\s*(\w+)\s*(?:\(\s*["']([^"']*)["']\s*,\s*["']([^"']*)["'])?""", re.I)

    def lowered_shape(self, written):
        """shape of the written code with regions rebuilt from the PreStart/PostEnd calls of one block:
        nested lists of ("assign",) ("if", th, el) ("do", body) ("exit",) ... ("region", (module, name), body).
        Raises ValueError when a PreStart has no PostEnd in the same block (or vice versa)."""
        psy = self.reader.psyir_from_source(written)
        return self._shape_block(self.routine(psy).children)

    def _psy_call(self, n):
        N = self.N
        if isinstance(n, N.CodeBlock):
            txt = " ".join(str(a) for a in n.get_ast_nodes)
        elif isinstance(n, N.Call):
            txt = self.writer(n)
        else:
            return None
        m = self.CALL_RE.match(txt)
        if m and m.group(2).lower() in ("prestart", "predeclarevariable", "preenddeclaration", "providevariable",
                                        "preend", "poststart", "postend"):
            return m.group(1).lower(), m.group(2).lower(), (m.group(3), m.group(4))
        return None

    def _shape_block(self, nodes):
        N = self.N
        out, stack = [], []       # stack of (var, name, outer list)
        cur = out
        for n in nodes:
            pc = self._psy_call(n)
            if pc:
                var, meth, name = pc
                if meth == "prestart":
                    stack.append((var, name, cur))
                    cur = []
                elif meth == "postend":
                    if not stack or stack[-1][0] != var:
                        raise ValueError("PostEnd of %s does not close the innermost PreStart of its block" % var)
                    v, nm_, outer = stack.pop()
                    outer.append(("region", nm_, cur))
                    cur = outer
                elif not stack or stack[-1][0] != var:
                    raise ValueError("%s of %s outside its region" % (meth, var))
                continue
            if isinstance(n, N.IfBlock):
                cur.append(("if", self._shape_block(n.if_body.children),
                            self._shape_block(n.else_body.children) if n.else_body else []))
            elif isinstance(n, N.Loop):
                cur.append(("do", self._shape_block(n.loop_body.children)))
            elif isinstance(n, N.Return):
                cur.append(("return",))
            elif isinstance(n, N.CodeBlock):
                cur.append((" ".join(str(a) for a in n.get_ast_nodes).strip().lower(),))
            elif isinstance(n, N.Assignment):
                cur.append(("assign",))
            else:
                cur.append((type(n).__name__,))
        if stack:
            raise ValueError("PreStart of %s has no PostEnd in the same block" % stack[-1][0])
        return out

    def apply(self, psy, tidx, path, lo, ln, options):
        """real validate+apply on a copy; -> (accepted, tree or None, psyir copy, message)"""
        c = psy.copy()
        r = self.routine(c)
        sched = self.sched_at(r, path)
        nodes = sched.children[lo:lo + ln]
        try:
            self.trans[tidx]().apply(nodes, dict(options) if options else None)
        except self.TransformationError as e:
            return False, None, None, str(e.value)
        return True, self.ser_list(r.children), c, ""

# ------------------------------------------------------------------ tuple-tree helpers
def blocks(stmts, path=()):
    """all (path, block) pairs; a path step is (child index, else-branch?)."""
    yield path, stmts
    for i, s in enumerate(stmts):
        k = s[0]
        if k == "if":
            yield from blocks(s[2], path + ((i, False),))
            if s[3]:
                yield from blocks(s[3], path + ((i, True),))
        elif k == "do":
            yield from blocks(s[5], path + ((i, False),))
        elif k in ("region", "dir"):
            yield from blocks(s[2], path + ((i, False),))


def placements(stmts):
    out = []
    for path, blk in blocks(stmts):
        n = len(blk)
        for lo in range(n):
            for ln in range(1, n - lo + 1):
                out.append((path, lo, ln))
    return out


def ancestors(stmts, path):
    """constructs enclosing the block at path, outermost first: ("dir", d) | ("region", tag) | ("do",) | ("if",)"""
    out = []
    blk = stmts
    for i, el in path:
        s = blk[i]
        out.append((s[0], s[1]) if s[0] in ("dir", "region") else (s[0],))
        blk = s[3] if (s[0] == "if" and el) else s[5] if s[0] == "do" else s[2]
    return out


def region_class(tag):
    return TRANS_NAMES[tag % 4]


def instrument(stmts, ctx_stack=(), table=None):
    """put `print MARK+id` in front of every statement that leaves a region abnormally.
    table[id] = (kind, [transformation class of every region escaped])."""
    if table is None:
        table = {}
    out = []
    for s in stmts:
        k = s[0]
        if k in ("exit", "cycle"):
            esc = []
            for c in reversed(ctx_stack):
                if c == "loop":
                    break
                esc.append(region_class(c[1]))
            if esc:
                table[len(table)] = ("codeblock-" + k, tuple(esc))
                out.append(("print", [("lit", MARK + len(table) - 1)]))
            out.append(s)
        elif k == "return":
            esc = tuple(region_class(c[1]) for c in reversed(ctx_stack) if c != "loop")
            if esc:
                table[len(table)] = ("return", esc)
                out.append(("print", [("lit", MARK + len(table) - 1)]))
            out.append(s)
        elif k == "if":
            out.append(("if", s[1], instrument(s[2], ctx_stack, table)[0], instrument(s[3], ctx_stack, table)[0]))
        elif k == "do":
            out.append(("do",) + tuple(s[1:5]) + (instrument(s[5], ctx_stack + ("loop",), table)[0],))
        elif k == "region":
            out.append(("region", s[1], instrument(s[2], ctx_stack + (("region", s[1]),), table)[0]))
        elif k == "dir":
            out.append(("dir", s[1], instrument(s[2], ctx_stack, table)[0]))
        else:
            out.append(s)
    return out, table


def wb(trace):
    """stack discipline of the Enter/Leave events; -> None if balanced, else a description."""
    stack = []
    for k, v in trace:
        if k == "E":
            stack.append(v)
        elif k == "L":
            if not stack or stack[-1] != v:
                return "Leave %d does not match the innermost open region %s" % (v, stack[-1:] or "(none)")
            stack.pop()
    if stack:
        return "regions %s entered and never left" % stack
    return None


def region_events(trace):
    return [(k, v) for k, v in trace if k in ("E", "L")]


def count_regions(stmts):
    n = 0
    for _, blk in blocks(stmts):
        n += sum(1 for s in blk if s[0] == "region")
    return n


# ------------------------------------------------------------------ structural hash (mirror of Model.tree_hash)
HMASK = (1 << 56) - 1
BIN_CODE = {"Add": 1, "Sub": 2, "Mul": 3, "Div": 4, "Pow": 5, "Eq": 6, "Ne": 7, "Lt": 8, "Le": 9, "Gt": 10,
            "Ge": 11, "And": 12, "Or": 13}
UN_CODE = {"Neg": 1, "Not": 2}
INTR_CODE = {"IMin": 1, "IMax": 2, "IMod": 3, "IAbs": 4, "ISign": 5, "ILbound": 6, "IUbound": 7, "ISize": 8}


def mix(h, x):
    return (65537 * h + x) & HMASK


def hash_expr(e, h, nm):
    k = e[0]
    if k == "lit":
        return mix(mix(h, 1), e[1])
    if k == "var":
        return mix(mix(h, 2), nm.get(e[1]))
    if k == "idx":
        h = mix(mix(h, 3), nm.get(e[1]))
        for x in e[2]:
            h = hash_expr(x, h, nm)
        return mix(h, 90)
    if k == "un":
        return hash_expr(e[2], mix(mix(h, 4), UN_CODE[e[1]]), nm)
    if k == "bin":
        return hash_expr(e[3], hash_expr(e[2], mix(mix(h, 5), BIN_CODE[e[1]]), nm), nm)
    if k == "intr":
        h = mix(mix(h, 6), INTR_CODE[e[1]])
        for x in e[2]:
            h = hash_expr(x, h, nm)
        return mix(h, 90)
    raise ValueError(e)


def hash_exprs(es, h, nm):
    for x in es:
        h = hash_expr(x, h, nm)
    return mix(h, 90)


def hash_stmts(ss, h, nm):
    for s in ss:
        k = s[0]
        if k == "assign":
            h = hash_expr(s[3], hash_exprs(s[2], mix(mix(h, 11), nm.get(s[1])), nm), nm)
        elif k == "if":
            h = hash_stmts(s[3], hash_stmts(s[2], hash_expr(s[1], mix(h, 12), nm), nm), nm)
        elif k == "do":
            h = mix(mix(h, 13), nm.get(s[1]))
            for x in s[2:5]:
                h = hash_expr(x, h, nm)
            h = hash_stmts(s[5], h, nm)
        elif k == "exit":
            h = mix(h, 14)
        elif k == "cycle":
            h = mix(h, 15)
        elif k == "return":
            h = mix(h, 16)
        elif k == "print":
            h = hash_exprs(s[1], mix(h, 17), nm)
        elif k == "region":
            h = hash_stmts(s[2], mix(mix(h, 18), s[1]), nm)
        elif k == "dir":
            h = hash_stmts(s[2], mix(mix(h, 19), s[1]), nm)
        else:
            raise ValueError(s)
    return mix(h, 91)


def tree_hash(ss, nm):
    return hash_stmts(ss, 7, nm)


# ------------------------------------------------------------------ Coq encoding
def path_coq(path):
    return "[" + "; ".join("(%d, %s)" % (i, "true" if el else "false") for i, el in path) + "]"


def opts_coq(o):
    nm = o["name"]
    n = "NAuto" if nm is None else "NBad" if nm == "bad" else "(NUser %d)" % nm
    return "(mkOpts %s %s)" % (n, "true" if o["prefix_ok"] else "false")


def impl_options(o, rng_choice):
    """the dict handed to the real apply for the abstract options o."""
    d = {}
    if o["name"] == "bad":
        d["region_name"] = rng_choice
    elif o["name"] is not None:
        d["region_name"] = ("mod", "u%d" % o["name"])
    if o.get("prefix") is not None:
        d["prefix"] = o["prefix"]
    return d


BAD_NAMES = [("a",), ("", "b"), ("a", ""), "ab", ("a", 1), ("a", "b", "c"), [("a", "b")]]


class Case:
    __slots__ = ("tidx", "path", "lo", "ln", "opts", "acc", "res", "pysafe", "msg", "full")


def rcase_coq(c, nm):
    res = "(Some %s)" % mf.stmts_to_coq(c.res, nm) if (c.acc and c.full) else "None"
    return "(%s, (mkTarget %s %d %d), %s, %s, (%d)%%Z, %s, %s)" % (
        TKINDS[c.tidx], path_coq(c.path), c.lo, c.ln, opts_coq(c.opts), "true" if c.acc else "false",
        tree_hash(c.res, nm) if c.acc else 0, res, "true" if c.pysafe else "false")


# ------------------------------------------------------------------ the checking stub library (thorough)
def build_stubs(ctx):
    d = ctx.scratch / "stubs"
    d.mkdir(exist_ok=True)
    srcs = [HERE / "stubs" / "c28_check_mod.f90"]
    tmpl = (HERE / "stubs" / "psy_data_stub.f90.in").read_text()
    for p in PREFIXES:
        f = d / ("%s_psy_data_mod.f90" % p)
        f.write_text(tmpl.replace("@PREFIX@", p))
        srcs.append(f)
    rc, out = core.sh(["gfortran", "-c", "-O0"] + [str(s) for s in srcs], cwd=d, timeout=300)
    if rc != 0:
        raise RuntimeError("cannot build the checking PSyData stub library:\n" + out[-2000:])
    return d


def driver_text(decls, vals):
    lines = ["program c28_driver", "  use c28_check_mod, only : c28_verdict", "  implicit none"]
    for v, ty, bs in decls:
        if bs:
            lines.append("  %s, dimension(%s) :: %s" % (ty, ", ".join("%d:%d" % b for b in bs), v))
        else:
            lines.append("  %s :: %s" % (ty, v))
    for v, ty, bs in decls:
        if not bs:
            lines.append("  %s = %d" % (v, vals.get((v, ()), 0)))
        elif len(bs) == 1:
            for i in range(bs[0][0], bs[0][1] + 1):
                lines.append("  %s(%d) = %d" % (v, i, vals.get((v, (i,)), 0)))
        else:
            for i in range(bs[0][0], bs[0][1] + 1):
                for j in range(bs[1][0], bs[1][1] + 1):
                    lines.append("  %s(%d,%d) = %d" % (v, i, j, vals.get((v, (i, j)), 0)))
    lines.append("  call sub(%s)" % ", ".join(v for v, _, _ in decls))
    lines.append("  call c28_verdict()")
    lines.append("end program c28_driver")
    return "\n".join(lines) + "\n"


def parse_run(out):
    """stdout of an instrumented run -> (list of ("E"|"L", module, name), verdict string or None)"""
    ev, verdict = [], None
    for line in out.split("\n"):
        m = re.match(r"\s*C28-(ENTER|LEAVE) \[([^\]]*)\] \[([^\]]*)\]", line)
        if m:
            ev.append(("E" if m.group(1) == "ENTER" else "L", m.group(2).strip(), m.group(3).strip()))
        m = re.match(r"\s*C28-VERDICT (\S+)", line)
        if m:
            verdict = m.group(1)
    return ev, verdict


def model_names(stmts, routine="sub"):
    """mirror of Model.region_names: pre-order list of (module, region) names"""
    tags = []

    def walk(ss):
        for s in ss:
            if s[0] == "region":
                tags.append(s[1])
                walk(s[2])
            elif s[0] == "if":
                walk(s[2])
                walk(s[3])
            elif s[0] == "do":
                walk(s[5])
            elif s[0] == "dir":
                walk(s[2])
    walk(stmts)
    out = {}
    for i, t in enumerate(tags):
        out.setdefault(t, []).append((routine, "r%d" % i) if t // 4 == 0 else ("mod", "u%d" % (t // 4 - 1)))
    return tags, out


def expected_shape(stmts, counter=None, routine="sub"):
    """shape (see Impl.lowered_shape) that the model predicts for the lowered code of a tuple tree"""
    counter = counter if counter is not None else [0]
    out = []
    for s in stmts:
        k = s[0]
        if k == "region":
            i = counter[0]
            counter[0] += 1
            name = (routine, "r%d" % i) if s[1] // 4 == 0 else ("mod", "u%d" % (s[1] // 4 - 1))
            out.append(("region", name, expected_shape(s[2], counter, routine)))
        elif k == "if":
            th = expected_shape(s[2], counter, routine)
            out.append(("if", th, expected_shape(s[3], counter, routine)))
        elif k == "do":
            out.append(("do", expected_shape(s[5], counter, routine)))
        elif k == "dir":
            out += expected_shape(s[2], counter, routine)
        elif k == "assign":
            out.append(("assign",))
        else:
            out.append((k,))
    return out


def erase_names(shape):
    """region names are compared separately (names check); here only the placement of the calls matters"""
    out = []
    for s in shape:
        if s[0] == "region":
            out.append(("region", erase_names(s[2])))
        elif s[0] == "if":
            out.append(("if", erase_names(s[1]), erase_names(s[2])))
        elif s[0] == "do":
            out.append(("do", erase_names(s[1])))
        else:
            out.append(tuple(s))
    return out


def gfortran_run(ctx, stubdir, tag, written, decls, vals):
    d = ctx.scratch / "gf" / tag
    d.mkdir(parents=True, exist_ok=True)
    (d / "sub.f90").write_text(written)
    (d / "driver.f90").write_text(driver_text(decls, vals))
    objs = [str(stubdir / "c28_check_mod.o")] + [str(stubdir / ("%s_psy_data_mod.o" % p)) for p in PREFIXES]
    rc, out = core.sh(["gfortran", "-O0", "-I", str(stubdir), "-o", "run.x", "sub.f90", "driver.f90"] + objs,
                      cwd=d, timeout=120)
    if rc != 0:
        return "compile-failed", out[-1500:], None
    rc, out = core.sh([str(d / "run.x")], cwd=d, timeout=30)
    ev, verdict = parse_run(out)
    return ("ran" if rc == 0 else "run-rc-%d" % rc), ev, verdict


# ------------------------------------------------------------------ witnesses of the known findings
def witness_source(kind):
    stmt = {"codeblock-exit": "exit", "codeblock-cycle": "cycle"}.get(kind)
    if stmt:
        return ("subroutine sub(i, a)\n  integer, intent(inout) :: i\n  integer, dimension(1:3), intent(inout) :: a\n"
                "  do i = 1, 3, 1\n    a(i) = i\n    if (a(i) > 1) then\n      %s\n    end if\n  end do\n"
                "end subroutine sub\n" % stmt), [[0, False]], 0, 2
    return ("subroutine sub(i, a)\n  integer, intent(inout) :: i\n  integer, dimension(1:3), intent(inout) :: a\n"
            "  a(1) = 2\n  if (a(1) > 1) then\n    return\n  end if\n  a(2) = 3\nend subroutine sub\n"), [], 1, 1


_REPORTED = set()


def report_finding(ctx, key, what, rep):
    """one report per key and run (ctx.finding decides KNOWN-FINDING vs VIOLATION)"""
    if key in _REPORTED:
        return
    _REPORTED.add(key)
    ctx.finding(key, what, rep)


def replay_witness(ctx, impl, key, stubdir=None):
    """replay one (transformation class, kind) witness on the implementation; report if it reproduces."""
    tname, reason = key.split("/")
    kind = reason[:-len("-in-region")]
    src, path, lo, ln = witness_source(kind)
    tidx = TRANS_NAMES.index(tname)
    psy = impl.parse(src)
    acc, res, c, msg = impl.apply(psy, tidx, [tuple(p) for p in path], lo, ln, None)
    if not acc:
        return False
    inst, table = instrument(res)
    r = mf.interp(inst, {}, {"a": [(1, 3)]})
    if r[0] != "ok":
        return False
    why = wb(r[2])
    seen = {table[v[0] - MARK] for k, v in r[2] if k == "O" and v and v[0] >= MARK}
    if why is None or not any(kd == kind and tname in esc for kd, esc in seen):
        return False
    written = impl.writer(c)
    rep = {"transformation": tname, "source": src, "selected": {"path": path, "first": lo, "count": ln},
           "initial_store": "all zero", "written_code": written,
           "region_events": ["%s %d" % e for e in region_events(r[2])], "why": why,
           "replay": "FortranReader().psyir_from_source(source); %s().apply(<children [first:first+count] of the "
                     "block at path>); FortranWriter(); run with a PSyData library that checks PreStart/PostEnd pairing"
                     % tname}
    if stubdir is not None:
        st, ev, verdict = gfortran_run(ctx, stubdir, "wit-" + key.replace("/", "-"), written,
                                       [("i", "integer", []), ("a", "integer", [(1, 3)])], {})
        rep["gfortran"] = {"status": st, "events": ev, "verdict": verdict}
        ctx.hist("witness_gfortran_verdict", "%s:%s" % (key, verdict))
        if st == "ran" and verdict != "unbalanced":
            ctx.violation({"property": "C28", "what": "interpreter says unbalanced but the compiled run against the "
                           "checking stub library does not", "key": key, "detail": rep}, no_input=True)
    report_finding(ctx, key, "%s accepts a region whose body leaves it by %s: PreStart without PostEnd"
                   % (tname, kind.upper()), rep)
    return True


def targeted_programs():
    """fixed shapes run first on every seed: a loop under each of the 7 directive classes (with EXIT, CYCLE, RETURN
    in reach), a statement under each region directive, and nested loops whose EXIT stays inside a selection."""
    i, a = ("var", "i"), lambda e: ("idx", "a", [e])
    gt = lambda l, r: ("bin", "Gt", l, r)
    out = []
    for d in range(7):
        loop = ("do", "i", ("lit", 1), ("lit", 3), ("lit", 1),
                [("assign", "a", [i], i), ("if", gt(a(i), ("lit", 1)), [("exit",) if d % 2 else ("cycle",)], [])])
        prog = [("assign", "s", [], ("lit", 1)), ("dir", d, [loop]), ("assign", "t", [], ("var", "s"))]
        if d in (0, 3, 5, 6):
            prog.append(("dir", d, [("assign", "m", [], ("lit", 2))]))
        if d % 3 == 0:
            prog.append(("if", gt(("var", "s"), ("lit", 0)), [("return",)], []))
        out.append(prog)
    inner = ("do", "j", ("lit", 1), ("lit", 2), ("lit", 1), [("if", gt(("var", "j"), ("lit", 1)), [("exit",)], [])])
    out.append([("do", "i", ("lit", 1), ("lit", 3), ("lit", 1),
                 [("assign", "a", [i], i), inner, ("if", gt(a(i), ("lit", 1)), [("exit",)], [("cycle",)])]),
                ("return",)])
    return out


# ------------------------------------------------------------------ main
def gen_opts(rng):
    c = rng.random()
    o = {"name": None, "prefix_ok": True, "prefix": None}
    if c < 0.10:
        o["name"] = rng.randint(0, 3)
    elif c < 0.13:
        o["name"] = "bad"
    elif c < 0.16:
        o["prefix"] = rng.choice(PREFIXES)
    elif c < 0.18:
        o["prefix"] = rng.choice(["profil", "", "PROFILE_X", "extra"])
        o["prefix_ok"] = False
    return o


def run(ctx):
    from psyclone.configuration import Config
    _REPORTED.clear()
    impl = Impl()
    valid_prefixes = list(Config.get().valid_psy_data_prefixes)
    ctx.cov["rule"] = (
        "programs from vlib.fortgen (nested DO incl. zero-trip/negative step, IF, EXIT/CYCLE) + injected RETURN, bare "
        "EXIT/CYCLE and directive nodes (7 classes); stage 1 = every consecutive placement in every block x 4 "
        "transformations x options (region_name valid/invalid, prefix valid/invalid); stage 2 = the same on sampled "
        "stage-1 results (nested / sequential regions); every accepted result is run by the interpreter on 3 stores with "
        "escape markers; non-trivial = accepted placement (a region was really inserted); distinct = (program, "
        "transformation, placement, options)")
    ctx.cov["trusted_base"] = core.BASE_TRUST + [
        "Fort.Sem (shared MiniFortran semantics; PSyData region = Enter r .. Leave r, no Leave on abnormal exit) is my "
        "formalisation; vlib.minifort.interp mirrors it (./check _FORT cross-validates interp = Coq exec = gfortran)",
        "translator props/C28/translate.py (dynamic dump of excluded_node_types + static ast of the validate methods) and "
        "the serialiser PSyIR -> MiniFortran (fail-closed) are trusted glue",
        "validate logic other than the generated tables is hand-written in coq/C28/Model.v and tied by this correspondence",
        "gfortran + props/C28/stubs (thorough tier) as the run-time observation point"]
    ctx.assumptions = [
        "theorems speak about executions that end in Ok (normal end, or RETURN/EXIT/CYCLE at routine level); nothing is "
        "claimed for Fault (division by zero, zero step) or fuel exhaustion",
        "GOTO and named EXIT/CYCLE are outside the MiniFortran subset; STOP ends the program and is not a region exit",
        "threads: a region inside a thread-parallel directive is modelled serially (the directive is transparent)",
        "user-supplied names never equal an automatic name (model: RUser/RAuto are distinct constructors)",
        "options['node-type-check']=False (user disables the exclusion walk) is not exercised",
        "the PSyKAl-layer naming (gen_code / get_unique_region_name with _used_kernel_names) is not modelled; only "
        "lower_to_language_level naming"]
    # ---- translator + proofs
    from importlib import util as _u
    spec = _u.spec_from_file_location("c28_translate", HERE / "translate.py")
    tr = _u.module_from_spec(spec)
    spec.loader.exec_module(tr)
    translate_error = None
    try:
        text, tables = tr.generate()
        core.write_if_changed(core.COQ / "C28" / "Gen.v", text)
        ctx.notes["generated_tables"] = {k: tables[k] for k in ("excl", "loopdir", "acc", "par", "loopchk", "irrelevant")}
    except Exception as e:      # fail-closed translator: the obligations can no longer be checked
        translate_error = "%s: %s" % (type(e).__name__, e)
        ctx.log("translator failed: " + translate_error)
    ok, proof_rep = ctx.prove()
    if not ok and "coq build failed" in proof_rep.get("errors", []) and not proof_rep.get("failed_at", "").startswith(("./C28", "C28", "./Properties/C28", "Properties/C28")):
        # another property's files being edited concurrently can break the shared make run: retry once
        ctx.log("build failed outside C28 (%s); retrying once" % proof_rep.get("failed_at"))
        ok, proof_rep = ctx.prove()
    ctx.log("proof ok=%s discharged=%d/%d %s" % (ok, ctx.cov["discharged"], ctx.cov["obligations"],
                                                 "" if ok else proof_rep.get("errors")))
    model_usable = translate_error is None and (core.COQ / "C28" / "Gen.vo").exists()
    stubdir = build_stubs(ctx) if ctx.thorough else None

    # ---- replay the witnesses of the known findings (and of every class/kind pair) on the implementation
    reproduced = []
    for tname in TRANS_NAMES:
        for kind in ("codeblock-exit", "codeblock-cycle", "return"):
            key = "%s/%s-in-region" % (tname, kind)
            if replay_witness(ctx, impl, key, stubdir):
                reproduced.append(key)
    ctx.notes["witnesses_reproduced"] = reproduced
    ctx.log("witnesses reproduced on the implementation: %s" % (", ".join(reproduced) or "none"))

    # ---- generated cases
    rng = ctx.rng("gen")
    nprog = ctx.pick(6, 45)
    max_stage2 = ctx.pick(1, 3)
    stage2_sample = ctx.pick(12, 30)
    max_names = ctx.pick(150, 700)
    groups = []          # (program tuples, Names, [Case], decls, stores)
    names_cases = []     # (tree, observed names)
    auto_cases = []
    prop_failures = []   # (description dict) -- concrete, unclassified
    gf_jobs = []
    n_out_of_subset = 0
    n_writes = 0
    fixed = targeted_programs()
    import time as _time
    import os as _os
    gen_budget = int(_os.environ.get("C28_GEN_BUDGET", ctx.pick(45, 300)))       # seconds for the generation/implementation phase (soft: the fixed shapes always run)
    gen_t0 = _time.time()
    for pi in range(-len(fixed), nprog):
        if pi >= 2 and _time.time() - gen_t0 > gen_budget:
            ctx.notes["generation_cut_short_after_programs"] = pi
            ctx.log("generation budget of %ds used up after %d random programs" % (gen_budget, pi))
            break
        g = fortgen.Gen(rng, max_depth=2, allow_exit=True, two_d=(rng.random() < 0.3))
        if pi < 0:
            base = fixed[pi + len(fixed)]
            g = fortgen.Gen(rng, arrays={"a": [(1, 3)]})
        else:
            base = g.program(rng.randint(2, 4))
            base = add_returns(base, rng)
            if rng.random() < 0.4:
                base = add_dirs(base, rng)
        decls = g.decls()
        stores = [g.store() for _ in range(3)]
        stores[1][0][("n", ())] = 0
        stores[2][0][("n", ())] = 4
        text = program_text(base, decls)
        psy = impl.parse(text)
        impl.inject_dirs(impl.routine(psy), base)
        try:
            back = impl.ser_list(impl.routine(psy).children)
        except mf.OutOfSubset:
            n_out_of_subset += 1
            continue
        # the serialiser must give the program back (round trip of the glue), modulo literal folding
        todo = [(base, psy, 1)]
        seen_stage2 = 0
        # automatic profiling (profiler.py) on the directive-free base program
        auto_cases.append(auto_profile_case(impl, psy, back))
        while todo:
            prog, ppsy, stage = todo.pop(0)
            prog = impl.ser_list(impl.routine(ppsy).children)      # canonical form as the implementation sees it
            nm = mf.Names([v for v, _, _ in decls]).collect(prog)
            pls = placements(prog)
            if stage == 2 and len(pls) > stage2_sample:
                pls = rng.sample(pls, stage2_sample)
            cases = []
            accepted = []
            for (path, lo, ln) in pls:
                for tidx in range(4):
                    o = gen_opts(rng)
                    if o["prefix"] is not None:
                        o["prefix_ok"] = o["prefix"] in valid_prefixes
                    c = Case()
                    c.tidx, c.path, c.lo, c.ln, c.opts = tidx, path, lo, ln, o
                    try:
                        c.acc, c.res, cpsy, c.msg = impl.apply(ppsy, tidx, path, lo, ln,
                                                               impl_options(o, rng.choice(BAD_NAMES)))
                    except mf.OutOfSubset:
                        n_out_of_subset += 1
                        continue
                    c.pysafe = True
                    c.full = rng.random() < ctx.pick(0.06, 0.04)
                    key = (text, stage, tidx, path, lo, ln, json.dumps(o, sort_keys=True), repr(prog) if stage == 2 else "")
                    ctx.count(key, c.acc)
                    ctx.hist("verdict", "%s:%s" % (TRANS_NAMES[tidx], "accepted" if c.acc else "refused"))
                    if not c.acc:
                        ctx.hist("refusal", re.sub(r"'[^']*'|\d+", "_", c.msg.split("Error:")[-1])[:70].strip())
                        cases.append(c)
                        continue
                    # ---- placement rules evaluated directly on the implementation's verdict
                    ancs = ancestors(prog, path)
                    place = {"program": text, "program_tree_before": prog, "transformation": TRANS_NAMES[tidx],
                             "selected": {"path": path, "first": lo, "count": ln}, "tree_after": c.res}
                    if ancs and ancs[-1][0] == "dir" and ancs[-1][1] in LOOP_DIRS:
                        report_finding(ctx, "%s/between-loop-directive-and-loop" % TRANS_NAMES[tidx],
                                       "PSyData calls are placed between a %s and the loop it applies to"
                                       % DIR_NAMES[ancs[-1][1]], place)
                    if any(a[0] == "dir" and a[1] in ACC_DIRS for a in ancs):
                        report_finding(ctx, "%s/inside-openacc-region" % TRANS_NAMES[tidx],
                                       "PSyData calls are placed inside an OpenACC region", place)
                    inst, table = instrument(c.res)
                    c.pysafe = not table
                    ctx.hist("accepted_class", "safe" if c.pysafe else "gap:" + ",".join(sorted({t[0] for t in table.values()})))
                    cases.append(c)
                    accepted.append((c, cpsy))
                    # ---- the property itself, on the implementation's result (failing-input search)
                    for vals, bnds in stores:
                        r = mf.interp(inst, vals, bnds)
                        ctx.hist("interp_outcome", r[0])
                        if r[0] != "ok":
                            continue
                        why = wb(r[2])
                        seen = [table[v[0] - MARK] for k, v in r[2] if k == "O" and v and v[0] >= MARK]
                        if why is None and not seen:
                            continue
                        rep = {"program": text, "program_tree_before": prog, "transformation": TRANS_NAMES[tidx],
                               "selected": {"path": path, "first": lo, "count": ln}, "options": o,
                               "tree_after": c.res, "store": sorted((str(k), v) for k, v in vals.items()),
                               "region_events": ["%s %d" % e for e in region_events(r[2])], "why": why,
                               "replay": "parse program, apply the transformation to children [first:first+count] of the "
                                         "block at path (steps = (child index, else-branch)), run on the store"}
                        if why is None or not seen:
                            prop_failures.append(dict(rep, what="unclassified: escape markers %s but trace verdict %r"
                                                      % (seen, why)))
                            continue
                        for kind, esc in seen:
                            for cls in set(esc):
                                report_finding(ctx, "%s/%s-in-region" % (cls, kind),
                                               "%s: region left by %s (PreStart without PostEnd)" % (cls, kind), rep)
                        break
                    # ---- names / written code (sampled: writing lowers a copy and is comparatively slow)
                    if len(names_cases) < max_names and (rng.random() < 0.04 or (stage == 2 and rng.random() < 0.2)):
                        n_writes += 1
                        try:
                            written = impl.writer(cpsy)
                        except Exception as e:      # lowering may refuse (e.g. directive constraints)
                            ctx.hist("write_outcome", type(e).__name__)
                            continue
                        ctx.hist("write_outcome", "ok")
                        obs = re.findall(r'%\s*PreStart\("([^"]*)",\s*"([^"]*)"', written)
                        names_cases.append((c.res, obs, text, TRANS_NAMES[tidx], (path, lo, ln), written, nm))
                        if stubdir is not None and len(gf_jobs) < 60 and not any(s[0] == "dir" for _, b in blocks(c.res) for s in b) \
                                and o["prefix"] is None:
                            gf_jobs.append((c.res, written, decls, stores[0], inst, table, text, TRANS_NAMES[tidx], (path, lo, ln)))
            groups.append((prog, nm, cases, text))
            ctx.hist("program_stage", stage)
            ctx.hist("placements_per_program", min(len(pls) // 10 * 10, 60))
            if stage == 1 and accepted:
                for c, cpsy in rng.sample(accepted, min(max_stage2, len(accepted))):
                    todo.append((c.res, cpsy, 2))
    ctx.notes["out_of_subset"] = n_out_of_subset
    ctx.notes["written_programs"] = n_writes
    ncases = sum(len(g[2]) for g in groups)
    ctx.log("programs=%d (with stage 2) cases=%d accepted=%d out_of_subset=%d" % (
        len(groups), ncases, sum(1 for g in groups for c in g[2] if c.acc), n_out_of_subset))
    for g in groups[:2]:
        acc = [c for c in g[2] if c.acc]
        if acc:
            c = acc[len(acc) // 2]
            ctx.sample({"program": g[3], "transformation": TRANS_NAMES[c.tidx], "path": c.path, "first": c.lo,
                        "count": c.ln, "tree_after": c.res, "statically_safe": c.pysafe})

    # ---- PSy-layer invokes (LFRic gen_code, GOcean lowering): names in the generated code, pairing of the calls
    psy_cases = psy_layer_stage(ctx, prop_failures)

    # ---- names: the property (no duplicate unless the user asked) on the implementation's output
    for res, obs, text, tname, tgt, written, nm in names_cases:
        tags, _ = model_names(res)
        if not any(s_[0] == "dir" for _, b_ in blocks(res) for s_ in b_):
            try:
                low = impl.lowered_shape(written)
                bad_low = None if erase_names(low) == erase_names(expected_shape(res)) else \
                    "PreStart/PostEnd calls do not enclose the region's statements"
            except ValueError as e:
                low, bad_low = None, str(e)
            ctx.hist("lowered_reread", "ok" if bad_low is None else "BAD")
            if bad_low:
                prop_failures.append({"what": "written (lowered) code: " + bad_low, "program": text, "written_code": written,
                                      "transformation": tname, "target": tgt, "expected_shape": expected_shape(res),
                                      "lowered_shape": low})
                continue
        if len(obs) != len(tags):
            prop_failures.append({"what": "number of PreStart calls differs from the number of regions", "program": text,
                                  "written": written, "transformation": tname, "target": tgt})
            continue
        dup = [n for i, n in enumerate(obs) if n in obs[:i] and not (tags[i] // 4 and tags[obs.index(n)] // 4)]
        if dup:
            report_finding(ctx, "%s/duplicate-region-name" % tname, "two regions get the same automatic name",
                        {"program": text, "written_code": written, "duplicates": dup, "transformation": tname,
                         "target": tgt})
    # ---- model correspondence (Coq, vm_compute)
    disagreements = []
    if model_usable:
        pc = ["(%s, [%s])" % (mf.stmts_to_coq(p, nm), ";\n ".join(rcase_coq(c, nm) for c in cs))
              for p, nm, cs, _ in groups if cs]
        gidx = [i for i, g in enumerate(groups) if g[2]]
        bad = ctx.coq_eval_failing(HEADER, "list stmt * list rcase", "pcheck", pc, shard=ctx.pick(3, 10), timeout=900)
        stricter = 0
        if bad:
            # which of the differing groups differ in the direction that matters (implementation accepts more /
            # builds another tree)?  the others are "implementation stricter than the model" (never an alarm)
            bad1 = ctx.coq_eval_failing(HEADER, "list stmt * list rcase", "pcheck1", [pc[b] for b in bad],
                                        shard=ctx.pick(3, 10), timeout=900)
            really = [bad[k] for k in bad1]
            ctx.notes["groups_differing"] = {"any": len(bad), "implementation_accepts_more_or_other_tree": len(really)}
            stricter = len(bad) - len(really)       # counted per group
            for b in really[:2]:                    # pinpoint the cases of the first two groups
                p, nm, cs, text = groups[gidx[b]]
                single = ["(%s, [%s])" % (mf.stmts_to_coq(p, nm), rcase_coq(c, nm)) for c in cs]
                bad_1 = ctx.coq_eval_failing(HEADER, "list stmt * list rcase", "pcheck1", single, shard=100)
                for k in bad_1:
                    disagreements.append((p, nm, cs[k], text))
            if really and not disagreements:
                raise RuntimeError("group-level and case-level model evaluation disagree")
            n_dis_groups = len(really)
        else:
            n_dis_groups = 0
        ctx.notes["implementation_stricter_than_model"] = stricter
        ctx.hist("model_vs_impl_groups", "agree", len(pc) - len(bad))
        ctx.hist("model_vs_impl_groups", "impl_stricter_only", stricter)
        ctx.hist("model_vs_impl_groups", "DISAGREE", n_dis_groups)
        # names
        ncs = []
        for res, obs, text, tname, tgt, written, nm in names_cases:
            rn = []
            for m_, n_ in obs:
                a = re.fullmatch(r"r(\d+)", n_)
                u = re.fullmatch(r"u(\d+)", n_)
                if a and m_ == "sub":
                    rn.append("RAuto %s" % a.group(1))
                elif u and m_ == "mod":
                    rn.append("RUser %s" % u.group(1))
                else:
                    rn.append("RUser 999999")
            tree = "(Some %s)" % mf.stmts_to_coq(res, nm) if len(ncs) % 4 == 0 else "None"
            ncs.append("(%s, [%s], [%s])" % (tree, "; ".join(str(t) for t in model_names(res)[0]), "; ".join(rn)))
        nbad = ctx.coq_eval_failing(HEADER, "option (list stmt) * list nat * list rname", "ncheck", ncs,
                                    shard=150) if ncs else []
        for b in nbad[:3]:
            res, obs, text, tname, tgt, written, nm = names_cases[b]
            disagreements.append(("names", {"program": text, "written_code": written, "observed_names": obs,
                                            "model_names": model_names(res)[0]}, None, text))
        ctx.hist("names_checked", "cases", len(ncs))
        ctx.hist("names_checked", "with_2+_regions", sum(1 for x in names_cases if len(x[1]) >= 2))
        # automatic profiling
        acs = [a for a in auto_cases if a]
        abad = ctx.coq_eval_failing(HEADER, "list stmt * (nat * list stmt)", "acheck",
                                    [a[0] for a in acs], shard=200) if acs else []
        for b in abad[:3]:
            disagreements.append(("auto_profile", acs[b][1], None, ""))
        for a in acs:
            ctx.hist("auto_profile", a[1]["outcome"])
            if a[1]["outcome"] == "wrapped-UNBALANCED":
                prop_failures.append(dict(a[1], what="automatic whole-routine profiling region is not balanced"))
        # PSy-layer names vs Model.issue / lfric_file_names / gocean_file_names
        ybad = ctx.coq_eval_failing(psy_cases["header"], "ycase", "ycheck", [c for c, _ in psy_cases["cases"]],
                                    shard=400) if psy_cases["cases"] else []
        for b in ybad[:3]:
            r = psy_cases["cases"][b][1]
            disagreements.append(("psy_layer_names", {k: r[k] for k in ("api", "file", "plan", "order", "auto", "reqs", "nodes")}
                                  | {"observed": [e for e in r["events"] if e[1] == "E"]}, None, ""))
        ctx.hist("psy_layer_model", "agree", len(psy_cases["cases"]) - len(ybad))
        ctx.hist("psy_layer_model", "DISAGREE", len(ybad))
        ctx.cov["disagreements_checked"] = len(disagreements)
        ctx.log("model vs implementation: %d disagreeing cases pinpointed (groups where impl is only stricter: %d), names cases %d (bad %d), auto-profile %d (bad %d)"
                % (len(disagreements), stricter, len(ncs), len(nbad), len(acs), len(abad)))
    # ---- thorough: compiled runs against the checking stub library
    if stubdir is not None:
        ran = 0
        from concurrent.futures import ThreadPoolExecutor
        gf_jobs = [job for job in gf_jobs if mf.interp(job[0], job[3][0], job[3][1])[0] == "ok"]
        with ThreadPoolExecutor(max_workers=max(2, core.NCPU // 2)) as pool:
            gf_results = list(pool.map(lambda jj: gfortran_run(ctx, stubdir, "c%d" % jj[0], jj[1][1], jj[1][2], jj[1][3][0]),
                                       enumerate(gf_jobs)))
        for j, (res, written, decls, (vals, bnds), inst, table, text, tname, tgt) in enumerate(gf_jobs):
            st, ev, verdict = gf_results[j]
            ctx.hist("gfortran_run", st)
            if st != "ran":
                prop_failures.append({"what": "instrumented code does not compile/run against the PSyData stub library: " + st,
                                      "detail": ev, "program": text, "written_code": written})
                continue
            ran += 1
            tags, _ = model_names(res)
            expect = []
            idx = [0]

            # re-tag regions by pre-order index so that events identify the region instance
            def retag(ss):
                out = []
                for s in ss:
                    if s[0] == "region":
                        i = idx[0]
                        idx[0] += 1
                        out.append(("region", 1000 + i, retag(s[2])))
                    elif s[0] == "if":
                        out.append(("if", s[1], retag(s[2]), retag(s[3])))
                    elif s[0] == "do":
                        out.append(("do",) + tuple(s[1:5]) + (retag(s[5]),))
                    elif s[0] == "dir":
                        out.append(("dir", s[1], retag(s[2])))
                    else:
                        out.append(s)
                return out
            idx[0] = 0
            rt = retag(res)
            r2 = mf.interp(rt, vals, bnds)
            for k, v in region_events(r2[2]):
                t = tags[v - 1000]
                expect.append((k,) + (("sub", "r%d" % (v - 1000)) if t // 4 == 0 else ("mod", "u%d" % (t // 4 - 1))))
            want = "balanced" if wb(r2[2]) is None else "unbalanced"
            if ev != expect or verdict != want:
                prop_failures.append({"what": "compiled run against the checking stub library differs from the interpreter",
                                      "program": text, "written_code": written, "runtime_events": ev, "expected_events": expect,
                                      "runtime_verdict": verdict, "expected_verdict": want})
            ctx.hist("gfortran_verdict", verdict)
        ctx.notes["gfortran_runs"] = ran
        ctx.log("gfortran runs against the stub library: %d" % ran)

    # ---- verdict
    for f in prop_failures[:3]:
        ctx.violation(dict(f, property="C28"))
    concrete = bool(prop_failures) or any(not ni for _, ni in ctx.violations)
    if not concrete and (disagreements or not ok or translate_error):
        first = None
        if disagreements:
            p, nm, c, text = disagreements[0]
            if p in ("names", "auto_profile", "psy_layer_names"):
                first = {"kind": p, "detail": nm}
            else:
                shown = ctx.coq_eval_show(HEADER, ["apply_impl %s %s (mkTarget %s %d %d) %s" % (
                    TKINDS[c.tidx], mf.stmts_to_coq(p, nm), path_coq(c.path), c.lo, c.ln, opts_coq(c.opts))])
                first = {"program": text, "tree_before": p, "transformation": TRANS_NAMES[c.tidx],
                         "selected": {"path": c.path, "first": c.lo, "count": c.ln}, "options": c.opts,
                         "implementation": {"accepted": c.acc, "message": c.msg, "tree_after": c.res,
                                            "statically_safe": c.pysafe},
                         "model": shown}
        ctx.violation({"property": "C28",
                       "broken": ("translator props/C28/translate.py (fail-closed): " + translate_error) if translate_error
                       else "correspondence C28.Gen.apply_impl = PSyDataTrans.validate/apply" if disagreements
                       else "proof obligations of Properties/C28.v (regenerated tables no longer satisfy TableProofs.v)",
                       "proof_report": proof_rep if not ok else None, "first_differing_case": first,
                       "n_differing": len(disagreements),
                       "searched": "every accepted placement was executed on 3 stores; no unbalanced trace outside the known findings"},
                      no_input=True)


def psy_layer_stage(ctx, prop_failures):
    """PSy-layer part (props/C28/psylayer.py): fixed + random region plans on LFRic and GOcean algorithm files."""
    from importlib import util as _u
    from psyclone.configuration import Config
    spec = _u.spec_from_file_location("c28_psylayer", HERE / "psylayer.py")
    y = _u.module_from_spec(spec)
    spec.loader.exec_module(y)
    pl = y.PsyLayer(core.REPO)
    rng = ctx.rng("psylayer")
    saved_api = Config.get()._api          # pylint: disable=protected-access
    cases = []
    plans = [(fx[0], fx[1], fx[2], fx[3], fx[4], fx[5] if len(fx) > 5 else None) for fx in y.FIXED]
    files = [("lfric", f) for f in y.LFRIC_FILES] + [("gocean", f) for f in y.GOCEAN_FILES]
    try:
        for k in range(ctx.pick(10, 120)):
            api, f = files[k % len(files)] if k < len(files) else rng.choice(files)
            pln, o, au = y.random_plan(rng, pl.create(api, f))
            plans.append((api, f, pln, o, au, y.random_shared(rng)))
        for api, f, pln, o, au, shared in plans:
            try:
                r = y.run_plan(pl, api, f, pln, o, au, shared)
            except Exception as e:          # code generation refused the combination: counted, not judged
                ctx.hist("psy_layer_plan", "error:" + type(e).__name__)
                continue
            nreg = len(r["nodes"])
            ctx.count(("psy", api, f, pln, o, au, shared), nreg >= 2)
            ctx.hist("psy_layer_options", shared or "fresh-per-apply")
            for m_ in r["options_modified"]:
                # a side effect on the caller's dict; judged only through its consequences (duplicate names below)
                ctx.hist("psy_layer_options_dict_modified_by", "%s:%s" % (api, m_[1]))
                ctx.notes.setdefault("options_dict_modified", []).append(
                    {"api": api, "file": f, "family": m_[1], "before": m_[2], "after": m_[3]}) \
                    if len(ctx.notes.get("options_dict_modified", [])) < 5 else None
            ctx.hist("psy_layer_plan", "%s:%s regions" % (api, nreg if nreg < 6 else "6+"))
            ctx.hist("psy_layer_schemes", "+".join(sorted({n[2][0] for n in r["nodes"]})) or "none")
            cases.append((y.coq_case(r), r))
            rep = {"api": api, "algorithm_file": "src/psyclone/tests/test_files/%s/%s"
                   % ("dynamo0p3" if api == "lfric" else "gocean1p0", f),
                   "regions": [{"invoke": ii, "children": [lo, hi], "family": fam, "user_name": u}
                               for ii, lo, hi, fam, u in pln],
                   "application_order": o, "automatic_profiling": au,
                   "options_argument": {None: "a fresh dict per apply", "plain": "ONE dict object {'create_driver': False} passed to "
                                        "every apply", "named": "ONE dict object with region_name=('usermod','u7') passed to every "
                                        "apply"}[shared],
                   "options_dict_modified_by_apply": r["options_modified"],
                   "PreStart_names_in_generated_code": [(e[0], e[3], e[4]) for e in r["events"] if e[1] == "E"],
                   "replay": "PSyFactory(api, distributed_memory=False).create(parse(file)); PSyDataTrans._used_kernel_names={}; "
                             "apply LFRicExtractTrans/GOceanExtractTrans (extract), ProfileTrans, NanTestTrans, ReadOnlyVerifyTrans to "
                             "schedule.children[first:last] of the invoke in the given order; str(psy.gen)"}
            for key, what, detail in y.judge(r):
                if key:
                    report_finding(ctx, key, what, dict(rep, detail=detail))
                else:
                    prop_failures.append(dict(rep, what="generated PSy layer: " + what,
                                              calls=[e for e in r["events"]]))
    finally:
        Config.get()._api = saved_api      # pylint: disable=protected-access
    ctx.log("PSy-layer plans run: %d" % len(cases))
    return {"header": y.PSY_HEADER, "cases": cases}


def auto_profile_case(impl, psy, prog):
    """Profiler.add_profile_nodes (routines option) on a copy of the program -> (coq case, info)"""
    from psyclone.profiler import Profiler
    import contextlib
    import io
    if any(s[0] in ("dir", "region") for _, b in blocks(prog) for s in b):
        return None
    c = psy.copy()
    r = impl.routine(c)
    saved = Profiler._options           # pylint: disable=protected-access
    Profiler._options = [Profiler.ROUTINES]
    try:
        with contextlib.redirect_stderr(io.StringIO()):
            Profiler.add_profile_nodes(r, impl.N.Loop)
        after = impl.ser_list(r.children)
        if after == prog:
            code, q, outcome = 1, [], "skipped"
        else:
            code, q, outcome = 0, after, "wrapped"
    except impl.TransformationError:
        code, q, outcome = 2, [], "raised"
    finally:
        Profiler._options = saved
    nm = mf.Names().collect(prog)
    if outcome == "wrapped":
        # property on the implementation: the automatic region must be balanced on a zero store
        r0 = mf.interp(q, {}, {})
        if r0[0] == "ok" and wb(r0[2]) is not None:
            outcome = "wrapped-UNBALANCED"
    return ("(%s, (%d, %s))" % (mf.stmts_to_coq(prog, nm), code, mf.stmts_to_coq(q, nm)),
            {"outcome": outcome, "program": prog, "after": q})
