import time
from psyclone.psyir.frontend.fortran import FortranReader
from psyclone.psyir.backend.fortran import FortranWriter
from psyclone.psyir import nodes as N
from psyclone.psyir.nodes import Routine, Loop
from psyclone.psyir.transformations import ProfileTrans, ExtractTrans, NanTestTrans, ReadOnlyVerifyTrans, TransformationError
src = '''subroutine sub(i, a, n)
  integer, intent(inout) :: i, n
  integer, dimension(1:10), intent(inout) :: a
  do i = 1, 10
    a(i) = 1
    if (a(i) > 2) then
      cycle
    end if
  end do
  a(1) = 2
  do i = 1, n
    a(i) = 3
  end do
  a(2) = 3
end subroutine sub
'''
t0=time.time()
psy = FortranReader().psyir_from_source(src)
print("parse", time.time()-t0)
r = psy.walk(Routine)[0]
t0=time.time()
for k in range(100):
    c = psy.copy()
print("copy x100", time.time()-t0)
# directives
for cls in (N.OMPParallelDirective, N.OMPDoDirective, N.OMPParallelDoDirective, N.ACCParallelDirective, N.ACCLoopDirective, N.ACCKernelsDirective, N.OMPTargetDirective):
    c = psy.copy(); rr = c.walk(Routine)[0]
    loop = rr.walk(Loop)[1]
    par, pos = loop.parent, loop.position
    loop.detach()
    try:
        d = cls(children=[loop])
    except Exception as e:
        print(cls.__name__, "ctor failed", e); continue
    par.addchild(d, pos)
    for T in (ProfileTrans, ExtractTrans, NanTestTrans, ReadOnlyVerifyTrans):
        for tgt in ("loop-in-dir", "dir", "stmt-in-loop"):
            c2 = c.copy(); r2 = c2.walk(Routine)[0]
            d2 = r2.walk(cls)[0]
            nodes = {"loop-in-dir": [d2.dir_body.children[0]], "dir": [d2], "stmt-in-loop": [d2.dir_body.children[0].loop_body.children[0]]}[tgt]
            try:
                T().apply(nodes)
                res = "ok"
            except TransformationError as e:
                res = "refused: " + str(e.value).split("Error:")[-1][:60]
            print(cls.__name__, T.__name__, tgt, res)
# names: several regions
c = psy.copy(); rr = c.walk(Routine)[0]
ProfileTrans().apply(rr.children[0:2])
ExtractTrans().apply(rr.children[0].psy_data_body.children[1])
NanTestTrans().apply(rr.children[1], {"region_name": ("mod", "u3")})
ReadOnlyVerifyTrans().apply(rr.children[2])
t0=time.time()
out = FortranWriter()(c)
print("write", time.time()-t0)
print(out)
out2 = FortranWriter()(c)
print("same second time:", out == out2)
# profiler
from psyclone.profiler import Profiler
c = psy.copy(); rr = c.walk(Routine)[0]
Profiler._options = ["routines"]
Profiler.add_profile_nodes(rr, Loop)
Profiler._options = []
print(rr.view())
