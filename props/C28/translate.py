"""C28 translator: regenerates coq/C28/Gen.v (git-ignored) from the tree under test.

Dynamic part (import the classes, dump finite tables):
  * `excluded_node_types` of ProfileTrans / ExtractTrans / NanTestTrans / ReadOnlyVerifyTrans, expressed
    over the node classes a MiniFortran statement can stand for (isinstance semantics: a listed
    base class covers its subclasses);
  * the node class each transformation inserts (must be Profile/Extract/NanTest/ReadOnlyVerifyNode).
Static part (Python `ast` over the validate methods; the class names found there are resolved in
the defining module and turned into tables over the seven directive classes of the model):
  * PSyDataTrans.validate: the tuple in `isinstance(node_parent.parent, (..))` ("between a loop
    directive and its loop") and the argument of the single `.ancestor(..)` call ("inside ACC");
  * ExtractTrans.validate / ReadOnlyVerifyTrans.validate: the argument of the single `.ancestor(..)`
    call (thread-parallel ancestors) and the presence of
    `isinstance(node.parent.parent, Directive)` ("Loop without its parent Directive");
  * ProfileTrans must not override validate; NanTestTrans.validate must only delegate to super().
Fail-closed: any other shape raises (the check then reports the obligation as not checkable)."""
import ast
import inspect
import sys
from pathlib import Path

VERIF = Path(__file__).resolve().parent.parent.parent

TKINDS = ["TProfile", "TExtract", "TNanTest", "TReadOnly"]
DIR_NAMES = ["OMPParallelDirective", "OMPDoDirective", "OMPParallelDoDirective", "ACCParallelDirective",
             "ACCLoopDirective", "ACCKernelsDirective", "OMPTargetDirective"]


class TranslateError(Exception):
    pass


def _method_ast(cls, name):
    """ast.FunctionDef of cls.<name> as defined in cls itself (None if inherited)."""
    if name not in cls.__dict__:
        return None, None
    mod = sys.modules[cls.__module__]
    tree = ast.parse(Path(inspect.getsourcefile(mod)).read_text())
    for node in tree.body:
        if isinstance(node, ast.ClassDef) and node.name == cls.__name__:
            for f in node.body:
                if isinstance(f, ast.FunctionDef) and f.name == name:
                    return f, mod
    raise TranslateError("cannot find %s.%s in its source file" % (cls.__name__, name))


def _resolve(mod, node):
    """ast Name / Tuple of Names -> tuple of classes from the module namespace."""
    if isinstance(node, ast.Name):
        names = [node.id]
    elif isinstance(node, ast.Tuple) and all(isinstance(e, ast.Name) for e in node.elts):
        names = [e.id for e in node.elts]
    else:
        raise TranslateError("unrecognised class expression: " + ast.dump(node))
    out = []
    for n in names:
        c = getattr(mod, n, None)
        if not isinstance(c, type):
            raise TranslateError("name %s does not resolve to a class in %s" % (n, mod.__name__))
        out.append(c)
    return tuple(out)


def _attr_chain(node):
    """a.b.c -> ['a','b','c'] (None if not a pure attribute chain on a Name)."""
    parts = []
    while isinstance(node, ast.Attribute):
        parts.append(node.attr)
        node = node.value
    if isinstance(node, ast.Name):
        parts.append(node.id)
        return parts[::-1]
    return None


def _calls(fn):
    return [n for n in ast.walk(fn) if isinstance(n, ast.Call)]


def _ancestor_args(fn, mod, what):
    found = [c for c in _calls(fn) if isinstance(c.func, ast.Attribute) and c.func.attr == "ancestor"]
    if len(found) != 1 or len(found[0].args) != 1 or found[0].keywords:
        raise TranslateError("%s: expected exactly one .ancestor(<classes>) call, found %d" % (what, len(found)))
    return _resolve(mod, found[0].args[0])


def _isinstance_on(fn, mod, chain):
    """class tuples of all isinstance(<chain>, X) calls in fn."""
    out = []
    for c in _calls(fn):
        if isinstance(c.func, ast.Name) and c.func.id == "isinstance" and len(c.args) == 2 \
                and _attr_chain(c.args[0]) == chain:
            out.append(_resolve(mod, c.args[1]))
    return out


def tables():
    from psyclone.psyir import nodes as N
    from psyclone.psyir.nodes import Node, Directive
    from psyclone.psyir.transformations import (ProfileTrans, ExtractTrans, NanTestTrans, ReadOnlyVerifyTrans,
                                                PSyDataTrans)
    from psyclone.psyir.transformations.region_trans import RegionTrans
    trans = {"TProfile": ProfileTrans, "TExtract": ExtractTrans, "TNanTest": NanTestTrans,
             "TReadOnly": ReadOnlyVerifyTrans}
    node_cls = {"TProfile": N.ProfileNode, "TExtract": N.ExtractNode, "TNanTest": N.NanTestNode,
                "TReadOnly": N.ReadOnlyVerifyNode}
    dirs = [getattr(N, d) for d in DIR_NAMES]
    for d in dirs:
        if not issubclass(d, Directive):
            raise TranslateError("%s is not a Directive" % d.__name__)
    # node classes a MiniFortran statement can stand for -> Gallina nkind term
    repres = [(N.Assignment, "KAssign"), (N.IfBlock, "KIf"), (N.Loop, "KLoop"), (N.CodeBlock, "KCodeBlock"),
              (N.Return, "KReturn")]
    repres += [(node_cls[t], "KRegion %s" % t) for t in TKINDS]
    repres += [(d, "KDir %d" % i) for i, d in enumerate(dirs)]
    out = {"excl": {}, "irrelevant": {}, "par": {}, "loopchk": {}}
    for t in TKINDS:
        T = trans[t]
        if not issubclass(T, PSyDataTrans) or not issubclass(T, RegionTrans):
            raise TranslateError("%s is not a PSyDataTrans" % T.__name__)
        ex = T.excluded_node_types
        if not isinstance(ex, tuple):
            raise TranslateError("%s.excluded_node_types is not a tuple" % T.__name__)
        for c in ex:
            if not (isinstance(c, type) and issubclass(c, Node)):
                raise TranslateError("%s.excluded_node_types: %r is not a PSyIR node class" % (T.__name__, c))
        out["excl"][t] = [term for cls, term in repres if ex and issubclass(cls, ex)]
        out["irrelevant"][t] = sorted(c.__name__ for c in ex if not any(issubclass(cls, c) for cls, _ in repres))
        inst = T()
        if inst._node_class is not node_cls[t]:      # pylint: disable=protected-access
            raise TranslateError("%s inserts %s, expected %s" % (T.__name__, inst._node_class.__name__,
                                                                 node_cls[t].__name__))
        if "apply" in T.__dict__:
            raise TranslateError("%s overrides apply (model has PSyDataTrans.apply only)" % T.__name__)
    for c in (PSyDataTrans, ExtractTrans, ReadOnlyVerifyTrans, NanTestTrans, ProfileTrans):
        if "get_node_list" in c.__dict__:
            raise TranslateError("%s overrides get_node_list" % c.__name__)
    # ---- static part
    fn, mod = _method_ast(PSyDataTrans, "validate")
    if fn is None:
        raise TranslateError("PSyDataTrans.validate not found")
    between = _isinstance_on(fn, mod, ["node_parent", "parent"])
    if len(between) != 1:
        raise TranslateError("PSyDataTrans.validate: expected one isinstance(node_parent.parent, ..), found %d"
                             % len(between))
    out["loopdir"] = [i for i, d in enumerate(dirs) if issubclass(d, between[0])]
    acc = _ancestor_args(fn, mod, "PSyDataTrans.validate")
    out["acc"] = [i for i, d in enumerate(dirs) if issubclass(d, acc)]
    if "validate" in ProfileTrans.__dict__:
        raise TranslateError("ProfileTrans overrides validate (model assumes it does not)")
    out["par"]["TProfile"], out["loopchk"]["TProfile"] = [], False
    for t, T in (("TExtract", ExtractTrans), ("TReadOnly", ReadOnlyVerifyTrans)):
        fn, mod = _method_ast(T, "validate")
        if fn is None:
            raise TranslateError("%s.validate not found" % T.__name__)
        par = _ancestor_args(fn, mod, T.__name__ + ".validate")
        out["par"][t] = [i for i, d in enumerate(dirs) if issubclass(d, par)]
        chk = _isinstance_on(fn, mod, ["node", "parent", "parent"])
        out["loopchk"][t] = any(Directive in tup and all(issubclass(d, tup) for d in dirs) for tup in chk)
    fn, mod = _method_ast(NanTestTrans, "validate")
    if ReadOnlyVerifyTrans not in NanTestTrans.__mro__:
        raise TranslateError("NanTestTrans no longer derives from ReadOnlyVerifyTrans")
    if fn is not None:
        body = [s for s in fn.body if not (isinstance(s, ast.Expr) and isinstance(s.value, ast.Constant))]
        ok = (len(body) == 1 and isinstance(body[0], ast.Expr) and isinstance(body[0].value, ast.Call)
              and ast.unparse(body[0].value) == "super().validate(node_list, options)")
        if not ok:
            raise TranslateError("NanTestTrans.validate does more than delegate to super()")
    out["par"]["TNanTest"], out["loopchk"]["TNanTest"] = out["par"]["TReadOnly"], out["loopchk"]["TReadOnly"]
    # ---- get_unique_region_name: the counter must be keyed on exactly what the name is built from
    fn, mod = _method_ast(PSyDataTrans, "get_unique_region_name")
    if fn is None:
        raise TranslateError("PSyDataTrans.get_unique_region_name not found")
    keys = [n for n in ast.walk(fn) if isinstance(n, ast.Assign) and len(n.targets) == 1
            and isinstance(n.targets[0], ast.Name) and n.targets[0].id == "key"]
    if len(keys) != 1:
        raise TranslateError("get_unique_region_name: expected exactly one assignment to 'key'")
    src = ast.unparse(fn)
    out["psy_key_expr"] = ast.unparse(keys[0].value)
    out["psy_key_is_name"] = (out["psy_key_expr"] == "module_name + '|' + region_name"
                              and "idx = PSyDataTrans._used_kernel_names.get(key, 0)" in src
                              and "PSyDataTrans._used_kernel_names[key] = idx + 1" in src
                              and "region_name += f':r{idx}'" in src
                              and src.index("key = ") < src.index("region_name += f':r{idx}'"))
    return out


def nat_set(codes):
    if not codes:
        return "fun _ => false"
    return "fun d => match d with %s => true | _ => false end" % " | ".join(str(c) for c in sorted(codes))


def generate():
    tb = tables()
    L = ["(* GENERATED by props/C28/translate.py from the tree under test -- do not edit. *)",
         "From Coq Require Import List Bool.", "Import ListNotations.",
         "From PV Require Import C28.Model.",
         "(* T.excluded_node_types over the node classes of the modelled subset (isinstance semantics) *)",
         "Definition gen_excl (t : tkind) : list nkind :=", "  match t with"]
    for t in TKINDS:
        L.append("  | %s => [%s]" % (t, "; ".join(tb["excl"][t])))
    L += ["  end.",
          "(* excluded classes that cover no node class of the subset: %s *)"
          % "; ".join("%s: %s" % (t, ",".join(tb["irrelevant"][t]) or "-") for t in TKINDS),
          "(* directive codes: %s *)" % ", ".join("%d %s" % (i, d) for i, d in enumerate(DIR_NAMES)),
          "Definition gen_loopdir : nat -> bool := %s." % nat_set(tb["loopdir"]),
          "Definition gen_acc : nat -> bool := %s." % nat_set(tb["acc"]),
          "Definition gen_par (t : tkind) : nat -> bool :=", "  match t with"]
    for t in TKINDS:
        L.append("  | %s => %s" % (t, nat_set(tb["par"][t])))
    L += ["  end.", "Definition gen_loopchk (t : tkind) : bool :=", "  match t with"]
    for t in TKINDS:
        L.append("  | %s => %s" % (t, "true" if tb["loopchk"][t] else "false"))
    L += ["  end.",
          "(* get_unique_region_name: key expression found in the source: %s *)" % tb["psy_key_expr"].replace("*)", "* )"),
          "Definition gen_psy_key_is_name : bool := %s." % ("true" if tb["psy_key_is_name"] else "false"),
          "Definition gen_tables : tables :=",
          "  mkTables (fun t k => existsb (nkind_eqb k) (gen_excl t)) gen_loopdir gen_acc gen_par gen_loopchk.",
          "(* the faithful model of the tree under test *)",
          "Definition accept_impl := accept_with gen_tables.",
          "Definition apply_impl := apply_with gen_tables."]
    return "\n".join(L) + "\n", tb


def main():
    sys.path.insert(0, str(VERIF))
    from vlib import core
    text, _ = generate()
    changed = core.write_if_changed(core.COQ / "C28" / "Gen.v", text)
    print("C28 translator: Gen.v %s" % ("rewritten" if changed else "unchanged"))
    return 0


if __name__ == "__main__":
    sys.exit(main())
