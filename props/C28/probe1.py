from psyclone.psyir.frontend.fortran import FortranReader
from psyclone.psyir.backend.fortran import FortranWriter
from psyclone.psyir.nodes import Routine, Loop, IfBlock, Return, CodeBlock
from psyclone.psyir.transformations import ProfileTrans, ExtractTrans, NanTestTrans, ReadOnlyVerifyTrans, TransformationError
src = '''subroutine sub()
  integer :: i
  integer, dimension(1:10) :: a
  do i = 1, 10
    a(i) = 1
    if (a(i) > 2) then
      exit
    end if
  end do
  a(1) = 2
  if (a(1) > 3) then
    return
  end if
  a(2) = 3
end subroutine sub
'''
for T in (ProfileTrans, ExtractTrans, NanTestTrans, ReadOnlyVerifyTrans):
    for which in ("exit", "return"):
        psy = FortranReader().psyir_from_source(src)
        r = psy.walk(Routine)[0]
        if which == "exit":
            nodes = r.walk(Loop)[0].loop_body.children[:]
        else:
            nodes = r.children[1:3]
        try:
            T().apply(nodes)
            print(T.__name__, which, "ACCEPTED")
            print(FortranWriter()(psy))
        except TransformationError as e:
            print(T.__name__, which, "refused:", str(e.value)[:100])
