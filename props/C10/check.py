"""C10 — Directive trees produced by accepted transformations are valid.

Tie to /repo: (T) props/C10/translate.py regenerates coq/C10/Gen.v (validate_global_constraints of
every modelled directive class, excluded_node_types, created directive, collapse behaviour) and the
theorems of coq/Properties/C10.v are re-checked against it; (C) step-wise correspondence of the
transformations' validate/apply and of the writer's verdict with the Gallina model on generated
histories and on directly built directive trees.  Independently of the model, the property itself is
evaluated on everything PSyclone writes: the three named conditions (WF) and acceptance by
``gfortran -fopenmp -fopenacc`` (full compile, no object kept)."""
import hashlib
import json
import os
import re
import subprocess
import sys
import time
from concurrent.futures import ThreadPoolExecutor
from pathlib import Path

HERE = Path(__file__).resolve().parent
sys.path.insert(0, str(HERE))
import impl      # noqa: E402
import spec      # noqa: E402
import translate  # noqa: E402
from vlib import core  # noqa: E402

HEADER = "From PV Require Import C10.Kinds C10.Gen C10.Model C10.Compiler C10.Corr."
SHEADER = ("From Coq Require Import String. From PV Require Import C10.Kinds C10.Gen C10.Model C10.Compiler C10.Corr "
           "C10.Decode. Open Scope string_scope.")


# ------------------------------------------------------------------ gfortran, batched
_LOC = re.compile(r"^(\S+\.f90):(\d+):(\d+):(?:\s*(?:error|Error):\s*(.*))?$")
_ERR = re.compile(r"^(?:Error|Fatal Error):\s*(.*)$")


def _norm_msg(m):
    m = re.sub(r"\s+at \(1\)$", "", m.strip())
    return m.replace("‘", "'").replace("’", "'")


def _compile_file(path, syntax_only):
    cmd = ["gfortran", "-fopenmp", "-fopenacc", "-fmax-errors=0"]
    cmd += ["-fsyntax-only"] if syntax_only else ["-S", "-o", "/dev/null"]
    try:
        p = subprocess.run(cmd + [str(path)], cwd=str(path.parent), capture_output=True, text=True, timeout=3600)
    except subprocess.TimeoutExpired:
        return None
    errs = []
    cur = None
    for line in p.stderr.splitlines():
        m = _LOC.match(line)
        if m:
            cur = int(m.group(2))
            if m.group(4):
                errs.append((cur, _norm_msg(m.group(4))))
            continue
        m = _ERR.match(line)
        if m:
            errs.append((cur, _norm_msg(m.group(1))))
    return p.returncode, errs


def compile_texts(ctx, texts, tag, group=None, batch=150):
    """texts: list of written subroutines (each named `sub`).  Returns list of (accepted, message).

    One f951 process costs about as much as twenty units, so units are renamed and compiled many
    per file where that is sound: gfortran skips its later passes once any error was seen, and a
    parse error derails the parser for all following units.  Therefore
      * group 0/1 (the specification expects acceptance / a rejection by the OpenMP-OpenACC
        lowering, which does not derail anything) are batched; a unit is accepted only as part of
        a file that compiled without any error; units without an error in a file that had errors
        are compiled again; if a parse error shows up anyway the rest of the file goes to
      * group 2 (front-end rejection expected): one unit per file, many files per gfortran command.
    `group` only steers the packing; every verdict is gfortran's."""
    d = ctx.scratch / ("gf_" + tag)
    d.mkdir(parents=True, exist_ok=True)
    uniq = {}
    for k, t in enumerate(texts):
        uniq.setdefault(t, group[k] if group else 0)
    keys = list(uniq)
    verdict = {}
    stats = {"f951": 0}

    def unit(k, i):
        t = re.sub(r"(?im)^(\s*(?:end\s+)?subroutine\s+)sub\b", lambda m: m.group(1) + "sub_%d" % i, k)
        return t if t.endswith("\n") else t + "\n"

    def first_directive_line(u):
        for n, line in enumerate(u.split("\n")):
            if line.lstrip().startswith("!$"):
                return n
        return 10 ** 9

    def singles(idxs):
        for k in range(0, len(idxs), 40):
            part = idxs[k:k + 40]
            names = []
            for i in part:
                g = d / ("u%d.f90" % i)
                g.write_text(unit(keys[i], i))
                names.append(g.name)
            try:
                p = subprocess.run(["gfortran", "-fopenmp", "-fopenacc", "-fmax-errors=0", "-S"] + names, cwd=str(d),
                                   capture_output=True, text=True, timeout=7200)
            except subprocess.TimeoutExpired:
                raise RuntimeError("gfortran timed out in %s" % d)
            stats["f951"] += len(part)
            errs = {}
            cur = None
            for line in p.stderr.splitlines():
                m = _LOC.match(line)
                if m:
                    cur = m.group(1)
                    if m.group(4):
                        errs.setdefault(cur, _norm_msg(m.group(4)))
                    continue
                m = _ERR.match(line)
                if m and cur:
                    errs.setdefault(cur, _norm_msg(m.group(1)))
            for i in part:
                name = "u%d.f90" % i
                produced = (d / ("u%d.s" % i)).exists()
                if name in errs:
                    verdict[i] = (False, errs[name])
                elif produced:
                    verdict[i] = (True, "")
                else:
                    raise RuntimeError("gfortran gave neither an error nor an output for %s/%s" % (d, name))

    def batched(chunk_id, idxs):
        alive = list(idxs)
        rnd = 0
        while alive:
            rnd += 1
            if rnd > 10:
                return alive
            lines_of, body, pos = [], [], 1
            for i in alive:
                u = unit(keys[i], i)
                n = u.count("\n")
                lines_of.append((pos, pos + n - 1, i, pos + first_directive_line(u)))
                body.append(u)
                pos += n
            f = d / ("b%d_%d.f90" % (chunk_id, rnd))
            f.write_text("".join(body))
            res = _compile_file(f, False)
            stats["f951"] += 1
            if res is None:
                raise RuntimeError("gfortran timed out on %s" % f)
            rc, errs = res
            if rc != 0 and not errs:
                raise RuntimeError("gfortran failed without a parsable error on %s" % f)
            if not errs:
                for i in alive:
                    verdict[i] = (True, "")
                return []
            bad, derailed_from = {}, None
            for ln, msg in errs:
                owner = None
                if ln is not None:
                    for a, b, i, fd in lines_of:
                        if a <= ln <= b:
                            owner = (i, fd, a)
                            break
                if owner is None:
                    raise RuntimeError("cannot attribute gfortran error %r (line %r) in %s" % (msg, ln, f))
                if ln < owner[1]:
                    # an error before the unit's first directive: the parser was derailed by an earlier unit
                    derailed_from = owner[2] if derailed_from is None else min(derailed_from, owner[2])
                else:
                    bad.setdefault(owner[0], (ln, msg))
            leftover = []
            if derailed_from is not None:
                # everything from the unit before the first derailed one onwards is judged separately
                order = [i for a, b, i, fd in lines_of]
                starts = [a for a, b, i, fd in lines_of]
                k0 = max(0, max(k for k, a in enumerate(starts) if a <= derailed_from) - 1)
                leftover = order[k0:]
                alive = order[:k0]
                bad = {i: v for i, v in bad.items() if i in alive}
            for i, (ln, msg) in bad.items():
                verdict[i] = (False, msg)
            alive = [i for i in alive if i not in bad]
            if leftover:
                return leftover + batched(chunk_id * 100 + rnd, alive) if alive else leftover
        return []

    def work(args):
        chunk_id, g, idxs = args
        if g == 2:
            singles(idxs)
        else:
            left = batched(chunk_id, idxs)
            if left:
                singles(left)

    jobs = []
    for g in (0, 1, 2):
        idxs = [i for i, k in enumerate(keys) if uniq[k] == g]
        size = batch if g != 2 else 40
        for k in range(0, len(idxs), size):
            jobs.append((len(jobs), g, idxs[k:k + size]))
    with ThreadPoolExecutor(max_workers=int(os.environ.get("VERIF_JOBS", "4"))) as ex:
        list(ex.map(work, jobs))
    ctx.notes["gfortran_f951_processes"] = ctx.notes.get("gfortran_f951_processes", 0) + stats["f951"]
    index = {k: i for i, k in enumerate(keys)}
    return [verdict[index[t]] for t in texts]


FRONT_END_RULES = {8, 9, 10, 12}


def compile_group(tree):
    v = spec.cc_viol(tree)
    if not v:
        return 0
    return 2 if any(c in FRONT_END_RULES for c, _, _ in v) else 1


# ------------------------------------------------------------------ implementation runs
def run_history(rng, skel, nops, steps, fam=None):
    """apply nops random ops to the real tree; returns (routine node or None when crashed, ops log)"""
    rt = impl.read(skel)
    log = []
    for _ in range(nops):
        before = impl.serialise(rt)
        if rng.random() < 0.04:
            # opaque operation (not modelled): OMPTaskwaitTrans on an OMP parallel region
            pars = [p for p, t in spec.node_paths(before) if t[0] == "D" and t[1] == "OMPParallelDirective"]
            if pars:
                p = rng.choice(pars)
                v, msg = impl.apply_op(rt, ("OMPTaskwait", ("node", p), {"fail_on_no_taskloop": False}))
                log.append({"op": ["OMPTaskwaitTrans", list(p)], "verdict": v, "opaque": True})
                if v == "crash":
                    return None, log
                try:
                    impl.serialise(rt)
                except impl.OutOfModel:
                    return None, log
                continue
        op = spec.gen_op(rng, before, fam)
        v, msg = impl.apply_op(rt, op)
        after = before
        if v == "ok":
            after = impl.serialise(rt)
        forced = bool((op[2] or {}).get("force"))
        dep_ok = forced or not (v == "terr" and "Dependency analysis failed" in msg)
        steps.append({"before": before, "op": op, "dep_ok": dep_ok, "verdict": v, "after": after, "msg": msg[:200]})
        log.append({"op": [op[0], list(op[1]), op[2]], "verdict": v})
        if v == "crash":
            return None, log
    return rt, log


def op_json(op):
    return [op[0], [op[1][0]] + [list(x) if isinstance(x, tuple) else x for x in op[1][1:]], op[2]]


def replay_witness(w, steps=None):
    """w = {"skeleton": nested lists, "ops": [[name, target, options], ...]} -> (verdicts, write verdict, text, tree);
    the steps are recorded like those of a generated history"""
    skel = to_tuple(w["skeleton"])
    rt = impl.read(skel)
    vs = []
    for op in spec.witness_ops(w):
        before = impl.serialise(rt)
        v, msg = impl.apply_op(rt, op)
        vs.append(v)
        if steps is not None:
            forced = bool((op[2] or {}).get("force"))
            dep_ok = forced or not (v == "terr" and "Dependency analysis failed" in msg)
            steps.append({"before": before, "op": op, "dep_ok": dep_ok, "verdict": v,
                          "after": impl.serialise(rt) if v == "ok" else before, "msg": msg[:200]})
        if v == "crash":
            return vs, "crash", "", None
    wv, text = impl.write(rt)
    return vs, wv, text, impl.serialise(rt)


def to_tuple(x):
    if isinstance(x, list):
        return tuple(to_tuple(y) for y in x)
    return x


def _strip_notes(text):
    """generated tables without the trailing `(* note: ... *)` lines"""
    return "\n".join(l for l in text.split("\n") if not l.startswith("(* note:"))


def gen_witness_file(ctx):
    """coq/C10/GenWitness.v from known_findings.json (every listed witness, open or fixed)"""
    recs = []
    for kf in ctx.known_findings():
        w = kf["witness"]
        ops = core.coq_list(spec.coq_op(o, True) for o in spec.witness_ops(w))
        recs.append("  (* %s *)\n  Build_witness %s %s %s %s" % (
            kf["key"], spec.coq_forest(to_tuple(w["skeleton"])), ops, spec.coq_forest(to_tuple(w["final_tree"])),
            spec.coq_expect(kf["key"])))
    text = ("(* GENERATED by props/C10/check.py from props/C10/known_findings.json -- do not edit *)\n"
            "From Coq Require Import List.\nImport ListNotations.\n"
            "From PV Require Import C10.Kinds C10.Gen C10.Model C10.Compiler C10.Cover C10.Witness.\n\n"
            "Definition witnesses : list witness := [\n%s\n].\n" % ";\n".join(recs))
    return core.write_if_changed(core.COQ / "C10" / "GenWitness.v", text)


def multi_routine_histories(ctx):
    """histories on files with 2-3 routines: [(skeletons, [(routine index, op or "ACCRoutine"), ...])].
    A routine that may receive ACCRoutineTrans only receives ACCLoopTrans besides (an `acc routine` excuses orphaned
    acc loops in ITS OWN routine only); the other routines receive any transformation."""
    S = spec.S
    L = lambda *b: ("L", tuple(b))   # noqa: E731
    loop1 = (L(S),)
    nest2 = (L(L(S)),)
    acl = lambda path, **o: ("ACCLoop", ("node", path), dict(o, force=True))   # noqa: E731
    out = []
    # targeted: acc routine in one routine, orphaned acc loop in another one (all orders, 2 and 3 routines)
    for sk in (loop1, nest2):
        out.append(((sk, sk), [(0, "ACCRoutine"), (1, acl((0,)))]))
        out.append(((sk, sk), [(1, acl((0,))), (0, "ACCRoutine")]))
        out.append(((sk, sk), [(0, "ACCRoutine"), (0, acl((0,))), (1, acl((0,)))]))
        out.append(((sk, sk, sk), [(2, "ACCRoutine"), (0, acl((0,))), (2, acl((0,)))]))
        out.append(((sk, sk, sk), [(1, acl((0,))), (0, ("ACCParallel", ("range", (), 0, 1), {})), (2, "ACCRoutine")]))
        out.append(((sk, sk), [(0, "ACCRoutine"), (0, acl((0,))), (1, acl((0,))), (1, ("ACCParallel", ("range", (), 0, 1), {}))]))
        out.append(((sk, sk), [(0, "ACCRoutine"), (1, ("OMPDo", ("node", (0,)), {"force": True})),
                               (1, ("OMPParallel", ("range", (), 0, 1), {}))]))
    rng = ctx.rng("multi")
    for _ in range(ctx.pick(25, 300)):
        n = rng.choice([2, 2, 3])
        roles = [rng.random() < 0.4 for _ in range(n)]          # True: acc-routine role
        plain = [loop1, nest2, (L(S), S), (L(L(S), S),), (L(S, ("R",)),)]
        skels = tuple(rng.choice(plain + [spec.gen_skeleton(rng, 2)]) for k in range(n))
        cur = [tuple(sk) for sk in skels]
        ops = []
        for _ in range(rng.randint(2, ctx.pick(4, 6))):
            r = rng.randrange(n)
            if roles[r]:
                if rng.random() < 0.45:
                    ops.append((r, "ACCRoutine"))
                else:
                    loops = [p for p, t in spec.node_paths(skels[r]) if t[0] == "L"]
                    if loops:
                        ops.append((r, acl(rng.choice(loops))))
            else:
                ops.append((r, None))       # a random op chosen against the routine's current tree at run time
        out.append((skels, ops))
    return out


def run_multi(ctx, rng, skels, ops):
    """apply a multi-routine history; returns dict(trees, wv, text, log) or None after a crash"""
    root, routines = impl.read_file(skels)
    log = []
    for r, op in ops:
        if op == "ACCRoutine":
            v, msg = impl.apply_routine_op(routines[r])
            log.append({"routine": r + 1, "op": "ACCRoutineTrans", "verdict": v})
        else:
            if op is None:
                try:
                    op = spec.gen_op(rng, impl.serialise(routines[r]), rng.choice(spec.FAMILIES))
                except impl.OutOfModel:
                    return None
            try:
                v, msg = impl.apply_op(routines[r], op)
            except impl.OutOfModel:
                return None
            log.append({"routine": r + 1, "op": op_json(op), "verdict": v})
        if v == "crash":
            return None
    try:
        trees = [impl.serialise(rt) for rt in routines]
    except impl.OutOfModel:
        return None
    wv, text = impl.write(root)
    return {"trees": trees, "wv": wv, "text": text, "log": log, "skeletons": skels,
            "accepted": sum(1 for e in log if e["verdict"] == "ok")}


# ------------------------------------------------------------------ the check
def run(ctx):
    ctx.cov["rule"] = (
        "systematic: every ordered pair of the 14 loop/region transformations on a 2-nest and directly nested, each on a loop "
        "holding a RETURN, collapse=2 on both imperfect 2-nests, enter data inside each region, all followed by 2 (quick) / 6 "
        "(thorough) enclosing-region suffixes; histories: random mostly-valid sequences (<=4 quick, <=6 thorough) of OMPLoopTrans(do|paralleldo|"
        "teamsdistributeparalleldo|loop), OMPParallelLoopTrans, OMPTaskloopTrans, ACCLoopTrans (collapse None/1/2/3, "
        "force or dependence analysis), OMPParallel/Single/Master/Target, ACCParallel/Kernels/Data region transformations "
        "on random sibling ranges or whole schedules, ACCEnterDataTrans, plus OMPTaskwaitTrans as an unmodelled step, on "
        "generated routines (perfect and imperfect loop nests to depth 3, statements before/after inner loops, empty loop "
        "bodies, IF blocks, RETURN, code blocks); direct: random directive trees built node by node without validation. "
        "non-trivial = history with >=1 accepted transformation whose final tree was written by FortranWriter; distinct = "
        "canonical final tree")
    ctx.cov["trusted_base"] = core.BASE_TRUST + [
        "props/C10/translate.py (ast recognition of validate_global_constraints + dump of class attributes) is trusted glue; "
        "fail-closed on unrecognised shapes",
        "hand-written parts of coq/C10/Model.v (RegionTrans/ParallelLoopTrans.validate, apply, ACCEnterData) are tied to "
        "the code by the step-wise correspondence only",
        "gfortran 12.2 -fopenmp -fopenacc (front end + OMP/OACC lowering) is the acceptance oracle; coq/C10/Compiler.v "
        "(cc_viol) is a specification of its nesting rules validated against it on every run",
        "skeleton serialiser props/C10/impl.py (round-trip checked for directly built trees)"]
    ctx.assumptions = [
        "the dependence analysis answer is an input of the model (o_dep_ok); its correctness is property C08/C09",
        "trees are restricted to the modelled node kinds (13 region directives, 3 stand-alone directives, Loop, IfBlock "
        "without else, Assignment, Return, CodeBlock); directive clauses other than collapse are not modelled",
        "WF clauses 'outside a parallel region' and 'nested parallel region' are PSyclone policy: gfortran accepts orphaned "
        "OMP DO and nested OMP PARALLEL, so these two are checked on trees, not against the compiler"]
    t0 = time.time()

    # ---- 1. translator + proofs
    gen_error = None
    try:
        gen_witness_file(ctx)
        changed, notes = translate.generate()
        ctx.notes["translator_notes"] = notes
        ctx.log("translator ok (Gen.v %s)" % ("rewritten" if changed else "unchanged"))
    except translate.TranslateError as e:
        gen_error = "translator: %s" % e
        ctx.log("TRANSLATOR FAILED: %s" % e)
    except Exception as e:   # noqa
        gen_error = "translator crashed: %s: %s" % (type(e).__name__, e)
        ctx.log("TRANSLATOR CRASHED: %s" % gen_error)
    proof_ok, rep = (False, {"errors": [gen_error]})
    model_ok = False
    reference = HERE / "Gen.reference.v"
    if gen_error is None:
        ctx.notes["tables_equal_committed_reference"] = (
            reference.exists() and _strip_notes(reference.read_text()) == _strip_notes((core.COQ / "C10" / "Gen.v").read_text()))
        proof_ok, rep = ctx.prove()
        ctx.log("proof ok=%s discharged=%d/%d" % (proof_ok, ctx.cov["discharged"], ctx.cov["obligations"]))
        okm, outm = ctx.coq_make(["C10/Corr.vo", "C10/Decode.vo"])
        model_ok = okm
        if not okm:
            ctx.log("model does not build: " + outm[-400:])
    else:
        # The obligations cannot be re-established for this tree.  The search for a concrete failing input goes on:
        # the property itself (WF + gfortran) needs no tables, and the model is evaluated with the committed
        # reference tables of the unchanged code, so every step / written tree on which the implementation is
        # more permissive than the unchanged code shows up in the correspondence.
        thms = core.THM_RE.findall(core.strip_comments((core.COQ / "Properties" / "C10.v").read_text()))
        ctx.cov["obligations"] = max(len(thms), 1)
        ctx.cov["discharged"] = 0
        if reference.exists():
            core.write_if_changed(core.COQ / "C10" / "Gen.v", reference.read_text())
            okm, outm = ctx.coq_make(["C10/Corr.vo", "C10/Witness.vo", "C10/Decode.vo"])
            model_ok = okm
            ctx.notes["model_evaluated_with"] = "committed reference tables props/C10/Gen.reference.v (translator failed)"
            ctx.log("model built with the reference tables: %s" % okm)

    # ---- 2. implementation runs
    rng = ctx.rng("hist")
    n_hist = ctx.pick(80, 800)
    maxlen = ctx.pick(4, 6)
    steps, finals = [], []       # finals: dict(tree, wverdict, text, source, log, skeleton)
    pool = [spec.gen_skeleton(rng, 3) for _ in range(max(8, n_hist // ctx.pick(4, 3)))]   # parsed once each
    for k in range(n_hist):
        skel = rng.choice(pool)
        fam = rng.choice(spec.FAMILIES)
        nops = rng.randint(1, maxlen)
        n_before = len(steps)
        try:
            rt, log = run_history(rng, skel, nops, steps, fam)
        except impl.OutOfModel as e:
            ctx.hist("out_of_model", str(e)[:40])
            continue
        finally:
            for st in steps[n_before:]:
                st["hist"] = k
        ctx.hist("history_length", nops)
        if rt is None:
            ctx.hist("history_end", "crash")
            continue
        try:
            tree = impl.serialise(rt)
        except impl.OutOfModel as e:
            ctx.hist("out_of_model", str(e)[:40])
            continue
        wv, text = impl.write(rt)
        accepted = sum(1 for e in log if e["verdict"] == "ok")
        finals.append({"tree": tree, "wv": wv, "text": text if wv == "ok" else "", "msg": "" if wv == "ok" else text[:200],
                       "source": "history", "skeleton": skel, "log": log, "accepted": accepted, "hist": k})
        ctx.hist("history_end", "written" if wv == "ok" else wv)
        ctx.hist("accepted_per_history", accepted)
    # deterministic part: every ordered pair of transformations (see spec.systematic_histories)
    n_sys = 0
    omp_only = lambda ops: all(o[0].startswith("OMP") for o in ops)   # noqa: E731
    sys_hist = spec.systematic_histories(spec.TOPS[:1] if not ctx.thorough else spec.TOPS[:4] + spec.TOPS[6:8])
    if not ctx.thorough:
        # an enclosing OMP parallel region only matters for histories made of OpenMP transformations
        sys_hist += [h for h in spec.systematic_histories(spec.TOPS[1:2]) if omp_only(h[1])]
    sys_hist += spec.targeted_serial_histories()
    for skel, ops in sys_hist:
        n_sys += 1
        k = n_hist + n_sys
        n_before = len(steps)
        try:
            vs, wv, text, tree = replay_witness({"skeleton": skel, "ops": ops}, steps)
        except impl.OutOfModel as e:
            ctx.hist("out_of_model", str(e)[:40])
            continue
        finally:
            for st in steps[n_before:]:
                st["hist"] = k
        if tree is None:
            ctx.hist("systematic_end", "crash")
            continue
        accepted = sum(1 for v in vs if v == "ok")
        finals.append({"tree": tree, "wv": wv, "text": text if wv == "ok" else "", "msg": "" if wv == "ok" else text[:200],
                       "source": "history", "skeleton": skel, "log": [op_json(o) for o in ops], "accepted": accepted, "hist": k})
        ctx.hist("systematic_end", "written" if wv == "ok" else wv)
    ctx.log("systematic histories=%d (%.0fs)" % (n_sys, time.time() - t0))
    for s in steps:
        ctx.hist("step_verdict", "%s:%s" % (s["op"][0], s["verdict"]))
    ctx.log("histories=%d steps=%d finals=%d (%.0fs)" % (n_hist, len(steps), len(finals), time.time() - t0))

    # directly built trees: writer with checks (gen_ok correspondence) and without (spec validation)
    rngd = ctx.rng("direct")
    n_direct = ctx.pick(80, 700)
    unchecked = []
    seen_direct = set()
    for k in range(n_direct):
        tree = spec.gen_direct(rngd, 3)
        if tree in seen_direct:
            continue
        seen_direct.add(tree)
        try:
            rt = impl.build(tree)
        except Exception as e:   # noqa
            ctx.hist("direct_build", "failed:" + type(e).__name__)
            continue
        ctx.hist("direct_build", "ok")
        wv, text = impl.write(rt)
        finals.append({"tree": tree, "wv": wv, "text": text if wv == "ok" else "", "msg": "" if wv == "ok" else text[:200],
                       "source": "direct", "skeleton": None, "log": None, "accepted": 0})
        if wv != "ok":
            wv2, text2 = impl.write(rt, check=False)
            if wv2 == "ok":
                unchecked.append({"tree": tree, "text": text2})
    ctx.log("direct trees=%d unchecked-written=%d (%.0fs)" % (len(seen_direct), len(unchecked), time.time() - t0))

    # ---- 3. known-finding witnesses are replayed like any other history
    kfs = ctx.known_findings()
    witness_final = {}
    for kf in kfs:
        try:
            vs, wv, text, tree = replay_witness(kf["witness"], steps)
        except Exception as e:   # noqa
            ctx.log("witness of %s no longer runs: %s" % (kf["key"], e))
            continue
        if tree is not None:
            witness_final[kf["key"]] = (tree, wv)
            finals.append({"tree": tree, "wv": wv, "text": text if wv == "ok" else "", "msg": "" if wv == "ok" else text[:200],
                           "source": "witness:" + kf["key"], "skeleton": to_tuple(kf["witness"]["skeleton"]),
                           "log": kf["witness"]["ops"], "accepted": sum(1 for v in vs if v == "ok")})

    # ---- 4. gfortran on everything written
    written = [f for f in finals if f["wv"] == "ok"]
    # Programs for which the specification expects a front-end rejection are compiled one per file (slow).  Many
    # are further instances of the same set of rule violations: only the first few per (stream, key set) are
    # compiled, the others are counted as redundant and make no claim about the compiler.
    per_set = ctx.pick(3, 6)
    seen_sets = {}
    to_compile = []
    for x in written + unchecked:
        x["gf"] = None
        g = compile_group(x["tree"])
        if g == 2 and not x.get("source", "").startswith("witness"):
            ks = ("w" if "wv" in x else "u", tuple(spec.cc_keys(x["tree"])))
            seen_sets[ks] = seen_sets.get(ks, 0) + 1
            if seen_sets[ks] > per_set:
                ctx.hist("gfortran", "not-compiled-redundant-instance")
                continue
        to_compile.append((x, g))
    verdicts = compile_texts(ctx, [x["text"] for x, _ in to_compile], "main", group=[g for _, g in to_compile])
    for (x, _), v in zip(to_compile, verdicts):
        x["gf"] = v
    n_skipped = len(written) + len(unchecked) - len(to_compile)
    all_written, all_unchecked = written, unchecked
    unchecked = [u for u in unchecked if u["gf"] is not None]
    # cross-check of the batching on a sample compiled one by one
    srng = ctx.rng("single")
    compiled = [x for x in written if x["gf"] is not None] + unchecked
    sample = srng.sample(compiled, min(len(compiled), ctx.pick(4, 40)))
    for s in sample:
        acc, msg = impl.gfortran(s["text"], str(ctx.scratch / "single"), hashlib.sha1(s["text"].encode()).hexdigest()[:10])
        if acc is not None and acc != s["gf"][0]:
            raise RuntimeError("batched %r and single %r gfortran verdicts differ for\n%s" % (s["gf"], (acc, msg), s["text"]))
    ctx.log("gfortran: %d written + %d unchecked texts, %d redundant instances not compiled (%.0fs)"
            % (len(written), len(all_unchecked), n_skipped, time.time() - t0))

    # ---- 5. the property itself, on what PSyclone wrote with its checks on
    n_viol_before = len(ctx.violations)
    unlisted = 0
    spec_bad = []
    for f in written:
        tree = f["tree"]
        wfk = spec.wf_keys(tree)
        cck = spec.cc_keys(tree)
        compiled_f = f["gf"] is not None
        acc, msg = f["gf"] if compiled_f else (None, "not compiled (redundant instance of an already compiled key set)")
        nontriv = f["accepted"] > 0
        ctx.count(tree, nontriv)
        ctx.hist("written_tree_source", f["source"].split(":")[0])
        if compiled_f:
            ctx.hist("gfortran", "accepted" if acc else "rejected")
        fails = list(wfk)
        if compiled_f and not acc:
            fails += cck if cck else ["gfortran/unmodelled/" + re.sub(r"[^A-Za-z]+", "-", msg)[:60]]
        if acc and cck and not spec.acc_intervening(tree):
            spec_bad.append({"tree": tree, "cc": cck, "text": f["text"]})
        for key in fails:
            ctx.hist("failing_key", key)
        if fails and f["source"] != "direct":
            replay = {"property": "C10", "final_tree": tree, "wf_violations": wfk, "compiler_rule_violations": cck,
                      "gfortran_accepted": acc, "gfortran_message": msg, "written_code": f["text"],
                      "skeleton": f["skeleton"], "source_fortran": impl.source_of(f["skeleton"]) if f["skeleton"] else None,
                      "ops": f["log"],
                      "how": "props/C10/impl.py: read(skeleton); apply_op for each op; write(); gfortran -fopenmp -fopenacc -S"}
            for key in fails:
                if unlisted >= 5:
                    break
                if ctx.finding(key, "PSyclone writes a directive structure that violates %s" % key, replay):
                    unlisted += 1
        if fails and f["source"] == "direct":
            # built node by node, not by transformations: outside the property's quantifier; only counted
            for key in fails:
                ctx.hist("writer_accepts_invalid_direct_tree", key)
    for f in finals:
        if f["wv"] != "ok":
            ctx.count(("refused", f["tree"]), False)
    ctx.sample({"final_tree": written[0]["tree"], "gfortran": written[0]["gf"]} if written else {})
    for f in written:
        if f["accepted"] >= 2 and f["source"] == "history":
            ctx.sample({"skeleton": f["skeleton"], "ops": f["log"], "final_tree": f["tree"], "gfortran": f["gf"],
                        "wf": spec.wf_keys(f["tree"]), "cc": spec.cc_keys(f["tree"])})
            break

    # ---- 5b. files with several routines: transformations across routines, property evaluated per routine
    mrng = ctx.rng("multi-run")
    multi = []
    for skels, ops in multi_routine_histories(ctx):
        res = run_multi(ctx, mrng, skels, ops)
        ctx.hist("multi_routine_history", "crash/out-of-model" if res is None else ("written" if res["wv"] == "ok" else res["wv"]))
        if res is not None:
            multi.append(res)
    gf_cache = {}
    for m in multi:
        if m["wv"] != "ok":
            continue
        # the file was written: the model's writer must accept every routine of it
        for tr in m["trees"]:
            finals.append({"tree": tr, "wv": "ok", "text": "", "msg": "", "source": "direct",
                           "skeleton": None, "log": None, "accepted": 0, "multi": True})
        if m["text"] not in gf_cache:
            gf_cache[m["text"]] = impl.gfortran(m["text"], str(ctx.scratch / "multi"), "m%d" % len(gf_cache))
        acc, msg = gf_cache[m["text"]]
        wfk = sorted({k for tr in m["trees"] for k in spec.wf_keys(tr)})
        cck = sorted({k for tr in m["trees"] for k in spec.cc_keys(tr)})
        ctx.count(("multi", tuple(m["trees"])), m["accepted"] > 0)
        ctx.hist("multi_routine_gfortran", "accepted" if acc else ("rejected" if acc is False else "not-run"))
        fails = list(wfk)
        if acc is False:
            fails += cck if cck else ["gfortran/unmodelled/" + re.sub(r"[^A-Za-z]+", "-", msg)[:60]]
        if acc and cck and not any(spec.acc_intervening(tr) for tr in m["trees"]):
            spec_bad.append({"trees": m["trees"], "cc": cck, "text": m["text"]})
        for key in fails:
            ctx.hist("failing_key", key)
            if unlisted >= 5:
                break
            replay = {"property": "C10", "routines_final_trees": m["trees"], "wf_violations": wfk,
                      "compiler_rule_violations": cck, "gfortran_accepted": acc, "gfortran_message": msg,
                      "written_code": m["text"], "skeletons": m["skeletons"], "source_fortran": impl.source_of_file(m["skeletons"]),
                      "ops": m["log"],
                      "how": "props/C10/impl.py: read_file(skeletons); per entry apply_op / apply_routine_op (ACCRoutineTrans) on "
                             "routine sub<routine>; write(file); gfortran -fopenmp -fopenacc -S"}
            if ctx.finding(key, "PSyclone writes a directive structure that violates %s (file with several routines)" % key, replay):
                unlisted += 1

    # ---- 6. validation of the compiler specification (both streams)
    cc_incomplete = 0
    for u in unchecked:
        cck = spec.cc_keys(u["tree"])
        acc, msg = u["gf"]
        ctx.hist("unchecked_gfortran", "accepted" if acc else "rejected")
        # how the three named conditions relate to the compiler on trees built without any validation
        wfv = sorted({spec.WF_NAMES[c] + ("/OMP" if k.startswith("OMP") else "/ACC") for c, k in spec.wf_viol(u["tree"])})
        for w in (wfv or ["WF-holds"]):
            ctx.hist("wf_vs_gfortran_on_unvalidated_trees", "%s:%s" % (w, "accepted" if acc else "rejected"))
        if acc and cck and not spec.acc_intervening(u["tree"]):
            spec_bad.append({"tree": u["tree"], "cc": cck, "text": u["text"]})
        if not acc and not cck:
            cc_incomplete += 1
            ctx.hist("cc_incomplete", re.sub(r"[^A-Za-z]+", "-", msg)[:50])
    ctx.notes["compiler_spec_validation"] = {
        "trees_compiled": len(compiled), "redundant_instances_not_compiled": n_skipped,
        "spec_rejects_but_gfortran_accepts": len(spec_bad),
        "gfortran_rejects_unchecked_tree_without_modelled_reason": cc_incomplete}
    if spec_bad:
        ctx.violation({"property": "C10", "broken": "validation of coq/C10/Compiler.v (cc_viol) against gfortran: the "
                       "specification says rejected, gfortran accepts", "first": spec_bad[0], "n": len(spec_bad)}, no_input=True)

    # ---- 7. model vs implementation (Coq evaluation)
    found_concrete = len(ctx.violations) > n_viol_before
    if model_ok:
        scases = ["(%s, %s, %d, %s)" % (spec.coq_forest(s["before"]), spec.coq_op(s["op"], s["dep_ok"]),
                                        {"ok": 0, "terr": 1, "crash": 2}[s["verdict"]],
                                        spec.coq_forest(s["after"]) if s["verdict"] == "ok" else "[]")
                  for s in steps]
        fcases = ["(%s, %d, %s, %s)" % (spec.coq_forest(f["tree"]), {"ok": 0, "generr": 1, "crash": 2}[f["wv"]],
                                        spec.coq_nats(spec.wf_codes(f["tree"])), spec.coq_nats(spec.cc_codes(f["tree"])))
                  for f in finals]
        VS = {"ok": 0, "terr": 1, "crash": 2}
        VF = {"ok": 0, "generr": 1, "crash": 2}
        sstr = [spec.enc_step(s["before"], s["op"], s["dep_ok"], VS[s["verdict"]], s["after"] if s["verdict"] == "ok" else ())
                for s in steps]
        fstr = [spec.enc_final(f["tree"], VF[f["wv"]], spec.wf_codes(f["tree"]), spec.cc_codes(f["tree"])) for f in finals]

        # all distinct cases as compact strings in ONE coqc run (Decode.on_any); a sample of them as literal terms,
        # together with the premises of the gap witnesses, in a second run; both routes must agree on the sample
        allstr = ['"s' + c[1:] for c in sstr] + ['"f' + c[1:] for c in fstr]
        alllit = ["inl (inl %s)" % c for c in scases] + ["inl (inr %s)" % c for c in fcases]
        first = {}
        for i, c in enumerate(allstr):
            first.setdefault(c, i)
        uniq = list(first)
        badu = set(uniq[j] for j in ctx.coq_eval_failing(SHEADER, "string", "on_any", uniq, shard=4000))
        stepn = max(1, len(uniq) // ctx.pick(40, 200))
        sample = [first[c] for c in uniq[::stepn]]
        wcases = []
        for kf in kfs:
            w = kf["witness"]
            wcases.append("inr (Build_witness %s %s %s %s)" % (
                spec.coq_forest(to_tuple(w["skeleton"])), core.coq_list(spec.coq_op(o, True) for o in spec.witness_ops(w)),
                spec.coq_forest(to_tuple(w["final_tree"])), spec.coq_expect(kf["key"])))
        lit_fn = ("(fun c : (step_case + final_case) + witness => match c with inl (inl x) => step_agrees x "
                  "| inl (inr x) => final_agrees x | inr w => premises_b w end)")
        bad_lit = set(ctx.coq_eval_failing(HEADER + " From PV Require Import C10.Witness.", "(step_case + final_case) + witness",
                                           lit_fn, [alllit[i] for i in sample] + wcases, shard=400))
        for k, i in enumerate(sample):
            if (k in bad_lit) != (allstr[i] in badu):
                raise RuntimeError("string-decoded and literal evaluation of a case differ: %s / %s" % (allstr[i], alllit[i]))
        closed = set(k - len(sample) for k in bad_lit if k >= len(sample))
        bad_s = [i for i, c in enumerate(sstr) if ('"s' + c[1:]) in badu]
        bad_f = [i for i, c in enumerate(fstr) if ('"f' + c[1:]) in badu]
        n_us, n_uf = len(set(sstr)), len(set(fstr))
        ctx.notes["distinct_cases_evaluated_in_coq"] = {"steps": n_us, "final_trees": n_uf}
        unsound_s = [bad_s[i] for i in ctx.coq_eval_failing(HEADER, "step_case", "step_sound",
                                                            [scases[i] for i in bad_s], shard=400)] if bad_s else []
        unsound_f = [bad_f[i] for i in ctx.coq_eval_failing(HEADER, "final_case", "final_sound",
                                                            [fcases[i] for i in bad_f], shard=400)] if bad_f else []
        gaps = {}
        mismatch = []
        for i, kf in enumerate(kfs):
            model_open = i not in closed
            got = witness_final.get(kf["key"])
            impl_open = bool(got and got[1] == "ok" and got[0] == to_tuple(kf["witness"]["final_tree"]))
            gaps[kf["key"]] = {"model_premises_hold": model_open, "implementation_writes_witness_tree": impl_open,
                               "status": kf.get("status")}
            if model_open != impl_open:
                mismatch.append(kf["key"])
        ctx.notes["gap_witnesses"] = gaps
        ctx.notes["gap_witness_model_impl_mismatch"] = mismatch
        ctx.cov["disagreements_checked"] = len(bad_s) + len(bad_f) + len(mismatch)
        ctx.notes["correspondence"] = {"step_cases": len(scases), "final_cases": len(fcases),
                                       "step_disagreements": len(bad_s), "final_disagreements": len(bad_f),
                                       "implementation_more_permissive_steps": len(unsound_s),
                                       "implementation_more_permissive_writes": len(unsound_f)}
        ctx.log("coq: steps=%d (disagree %d, unsound %d) finals=%d (disagree %d, unsound %d) (%.0fs)"
                % (len(scases), len(bad_s), len(unsound_s), len(fcases), len(bad_f), len(unsound_f), time.time() - t0))
        for i in [x for x in bad_s if x not in unsound_s][:3]:
            ctx.log("note: implementation stricter/crashing differently than model at step %r -> %s (%s)"
                    % (steps[i]["op"], steps[i]["verdict"], steps[i]["msg"][:80]))
        for i in [x for x in bad_f if x not in unsound_f][:3]:
            ctx.log("note: writer stricter than model on %r -> %s (%s)" % (finals[i]["tree"], finals[i]["wv"], finals[i]["msg"][:80]))
        stricter = [x for x in bad_s if x not in unsound_s] + [x for x in bad_f if x not in unsound_f]
        ctx.notes["correspondence"]["implementation_stricter_or_crash_mismatch"] = len(stricter)
        # a step the implementation accepted although the faithful model refuses it (or with another result):
        # does the history it belongs to end in a written tree that violates the property?  Then that is a
        # concrete failing input reached through a new route, whatever key its failure has.
        if unsound_s and not found_concrete:
            by_hist = {f.get("hist"): f for f in written if f["source"] == "history"}
            for i in unsound_s:
                f = by_hist.get(steps[i].get("hist"))
                if f is None:
                    continue
                gfv = f["gf"] or (None, "not compiled")
                fails = spec.wf_keys(f["tree"]) + (spec.cc_keys(f["tree"]) if gfv[0] is False else [])
                if gfv[0] is False and not fails:
                    fails = ["gfortran/unmodelled"]
                if fails:
                    ctx.violation({"property": "C10", "what": "a transformation step that the model of the unchanged code refuses is "
                                   "accepted by the implementation, and the history ends in a written tree violating the property",
                                   "step": {"before": steps[i]["before"], "op": op_json(steps[i]["op"]), "impl_verdict": steps[i]["verdict"]},
                                   "failing_keys": fails, "final_tree": f["tree"], "written_code": f["text"],
                                   "gfortran_accepted": gfv[0], "gfortran_message": gfv[1], "skeleton": f["skeleton"],
                                   "source_fortran": impl.source_of(f["skeleton"]), "ops": f["log"],
                                   "how": "props/C10/impl.py: read(skeleton); apply_op for each op; write(); gfortran -fopenmp -fopenacc -S"})
                    found_concrete = True
                    break
        # likewise a tree the implementation's writer accepts although the model's writer refuses it
        if unsound_f and not found_concrete:
            for i in unsound_f:
                f = finals[i]
                if f["wv"] != "ok" or f["source"] == "direct":
                    continue
                gfv = f.get("gf") or (None, "not compiled")
                fails = spec.wf_keys(f["tree"]) + (spec.cc_keys(f["tree"]) if gfv[0] is False else [])
                if gfv[0] is False and not fails:
                    fails = ["gfortran/unmodelled"]
                if fails:
                    ctx.violation({"property": "C10", "what": "the writer accepts a tree that the model of the unchanged code refuses, "
                                   "and the written code violates the property", "failing_keys": fails, "final_tree": f["tree"],
                                   "written_code": f["text"], "gfortran_accepted": gfv[0], "gfortran_message": gfv[1],
                                   "skeleton": f["skeleton"], "source_fortran": impl.source_of(f["skeleton"]) if f["skeleton"] else None,
                                   "ops": f["log"],
                                   "how": "props/C10/impl.py: read(skeleton); apply_op for each op; write(); gfortran -fopenmp -fopenacc -S"})
                    found_concrete = True
                    break
        if (unsound_s or unsound_f) and not found_concrete:
            first = None
            if unsound_s:
                s = steps[unsound_s[0]]
                shown = ctx.coq_eval_show(HEADER, ["apply_op %s %s" % (spec.coq_op(s["op"], s["dep_ok"]), spec.coq_forest(s["before"]))])
                first = {"kind": "transformation step", "before": s["before"], "op": op_json(s["op"]), "impl_verdict": s["verdict"],
                         "impl_after": s["after"], "model": shown}
            else:
                f = finals[unsound_f[0]]
                shown = ctx.coq_eval_show(HEADER, ["write_outcome %s" % spec.coq_forest(f["tree"]),
                                                   "wf_codes %s" % spec.coq_forest(f["tree"]),
                                                   "cc_codes %s" % spec.coq_forest(f["tree"])])
                first = {"kind": "writer verdict / specification mirror", "tree": f["tree"], "impl_write": f["wv"], "model": shown,
                         "py_wf": spec.wf_codes(f["tree"]), "py_cc": spec.cc_codes(f["tree"])}
            ctx.violation({"property": "C10", "broken": "correspondence C10.Model (apply_op / write_outcome) = PSyclone: the "
                           "implementation accepts where the model does not (or produces another tree); no written tree "
                           "violating the property was found among the generated cases",
                           "first_differing_case": first, "n_steps": len(unsound_s), "n_writes": len(unsound_f)}, no_input=True)
    if (gen_error or not proof_ok or not model_ok) and not found_concrete:
        ctx.violation({"property": "C10", "broken": gen_error or ("proof obligations of Properties/C10.v" if not proof_ok
                                                                  else "model coq/C10 does not build"),
                       "proof_report": rep,
                       "searched": "%d written trees evaluated against WF and gfortran without a new failing input" % len(written)},
                      no_input=True)
    ctx.log("done: written=%d unchecked=%d violations=%d known=%s" % (len(written), len(unchecked), len(ctx.violations), ctx.known_printed))
