"""Development tool (not run by ./check): enumerate which failing keys (WF clause / compiler rule,
inner directive, enclosing directive) are reachable by ACCEPTED transformation histories on the tree
under test, and print a minimal witness for each.  Used to write known_findings.json.

  cd /verif && PYTHONPATH=$VERIF_REPO/src:/verif PSYCLONE_CONFIG=... /venv/bin/python props/C10/enumerate_findings.py [nrandom]
"""
import itertools
import json
import random
import sys
from pathlib import Path

HERE = Path(__file__).resolve().parent
sys.path.insert(0, str(HERE))
sys.path.insert(0, str(HERE.parent.parent))
import impl      # noqa: E402
import spec      # noqa: E402
import check     # noqa: E402
from vlib import core  # noqa: E402

S = ("S",)
R = ("R",)


def L(*b):
    return ("L", tuple(b))


def systematic():
    out = spec.systematic_histories(spec.TOPS)
    a3 = (L(L(L(S))),)
    for tops in ([], ["OMPParallel"], ["OMPTarget"]):
        top_ops = [("%s" % t, ("range", (), 0, 1), {}) for t in tops]
        for x, y, z in itertools.product(spec.ALL_TRANS, spec.ALL_TRANS, spec.ALL_TRANS):
            out.append((a3, [spec.op_on(x, (0, 0, 0)), spec.op_on(y, (0, 0)), spec.op_on(z, (0,))] + top_ops))
    return out


def run_one(skel, ops):
    rt = impl.read(skel)
    n_ok = 0
    for op in ops:
        v, _ = impl.apply_op(rt, op)
        if v == "crash":
            return None
        n_ok += v == "ok"
    try:
        tree = impl.serialise(rt)
    except impl.OutOfModel:
        return None
    wv, text = impl.write(rt)
    if wv != "ok" or n_ok == 0:
        return None
    return tree, text


def main():
    nrandom = int(sys.argv[1]) if len(sys.argv) > 1 else 0
    ctx = core.Ctx("C10enum", "thorough", 0)
    cands = []
    for skel, ops in systematic():
        r = run_one(skel, ops)
        if r:
            cands.append((skel, ops, r[0], r[1]))
    print("systematic histories written:", len(cands), file=sys.stderr)
    for seed in range(nrandom):
        rng = random.Random("enum%d" % seed)
        for _ in range(1500):
            skel = spec.gen_skeleton(rng, 3)
            steps = []
            try:
                rt, log = check.run_history(rng, skel, rng.randint(1, 6), steps, rng.choice(spec.FAMILIES))
            except impl.OutOfModel:
                continue
            if rt is None or any(e.get("opaque") for e in log):
                continue
            ops = [s["op"] for s in steps]
            try:
                tree = impl.serialise(rt)
            except impl.OutOfModel:
                continue
            wv, text = impl.write(rt)
            if wv == "ok" and any(s["verdict"] == "ok" for s in steps):
                cands.append((skel, ops, tree, text))
    print("total written candidates:", len(cands), file=sys.stderr)
    verdicts = check.compile_texts(ctx, [c[3] for c in cands], "enum", group=[check.compile_group(c[2]) for c in cands])
    best = {}
    bad_spec = 0
    for (skel, ops, tree, text), (acc, msg) in zip(cands, verdicts):
        keys = list(spec.wf_keys(tree))
        cck = spec.cc_keys(tree)
        if not acc:
            keys += cck if cck else ["gfortran/unmodelled/" + msg[:60]]
        elif cck and not spec.acc_intervening(tree):
            bad_spec += 1
            print("SPEC-BAD (spec rejects, gfortran accepts):", tree, cck, file=sys.stderr)
        size = (len(keys), len(ops), len(repr(skel)))
        for k in keys:
            if k not in best or size < best[k][0]:
                best[k] = (size, skel, ops, tree, msg)
    out = []
    for k in sorted(best):
        size, skel, ops, tree, msg = best[k]
        out.append({"key": k, "status": "open",
                    "what": "", "gfortran": msg,
                    "witness": {"skeleton": skel, "ops": [check.op_json(o) for o in ops], "final_tree": tree}})
    print(json.dumps(out, indent=1))
    print("keys:", len(out), "spec-bad:", bad_spec, file=sys.stderr)
    import shutil
    shutil.rmtree(ctx.scratch, ignore_errors=True)


if __name__ == "__main__":
    main()
