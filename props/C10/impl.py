"""C10 — implementation side: skeleton trees <-> real PSyIR, real transformations, writer, gfortran.

A *skeleton* is a nested tuple mirroring coq/C10/Model.v `tree`:
  ("S",) assignment | ("R",) return | ("C",) code block
  ("L", (body...))  DO loop      | ("I", (body...)) IF block (then-branch only)
  ("D", kind, collapse_or_None, (body...))  region directive, kind = PSyIR class name
  ("SD", kind)                               standalone directive
A routine is a tuple of skeleton trees.  Paths are tuples of child indices through bodies.
"""
import os
import re
import subprocess

REGION_KINDS = ["OMPParallelDirective", "OMPDoDirective", "OMPParallelDoDirective",
                "OMPTeamsDistributeParallelDoDirective", "OMPSingleDirective", "OMPMasterDirective",
                "OMPTaskloopDirective", "OMPTargetDirective", "OMPLoopDirective",
                "ACCParallelDirective", "ACCKernelsDirective", "ACCLoopDirective", "ACCDataDirective"]
STANDALONE_KINDS = ["OMPTaskwaitDirective", "ACCEnterDataDirective", "ACCRoutineDirective"]
MAXDEPTH = 4


# --------------------------------------------------------------------------- Fortran text
def _fort(body, depth, ind, out, counter):
    vars_ = ["i%d" % k for k in range(1, depth + 1)]
    for t in body:
        tag = t[0]
        if tag == "S":
            if depth == 0:
                out.append("%sa0(1) = 1.0" % ind)
            else:
                out.append("%sa%d(%s) = 1.0" % (ind, depth, ",".join(vars_)))
        elif tag == "R":
            out.append("%sreturn" % ind)
        elif tag == "C":
            out.append("%swrite(*,*) 1" % ind)
        elif tag == "L":
            if depth + 1 > MAXDEPTH:
                raise ValueError("loop nest too deep for the declared arrays")
            out.append("%sdo i%d = 1, 4" % (ind, depth + 1))
            _fort(t[1], depth + 1, ind + "  ", out, counter)
            out.append("%senddo" % ind)
        elif tag == "I":
            out.append("%sif (flag > 0) then" % ind)
            _fort(t[1], depth, ind + "  ", out, counter)
            out.append("%sendif" % ind)
        else:
            raise ValueError("source skeletons contain no directives: %r" % (t,))


def source_of(routine):
    """Fortran source of a directive-free skeleton routine."""
    out = ["subroutine sub(a0, a1, a2, a3, a4, flag)",
           "  real, intent(inout) :: a0(4), a1(4), a2(4,4), a3(4,4,4), a4(4,4,4,4)",
           "  integer, intent(in) :: flag",
           "  integer :: i1, i2, i3, i4"]
    _fort(routine, 0, "  ", out, [0])
    out.append("end subroutine sub")
    return "\n".join(out) + "\n"


# --------------------------------------------------------------------------- PSyIR <-> skeleton
_READ_CACHE = {}


def read(routine_skel):
    """PSyIR Routine of a directive-free skeleton (parsed once per skeleton, then copied)."""
    from psyclone.psyir.frontend.fortran import FortranReader
    from psyclone.psyir.nodes import Routine
    key = tuple(routine_skel)
    if key not in _READ_CACHE:
        if len(_READ_CACHE) > 4000:
            _READ_CACHE.clear()
        _READ_CACHE[key] = FortranReader().psyir_from_source(source_of(routine_skel))
    return _READ_CACHE[key].copy().walk(Routine)[0]


class OutOfModel(Exception):
    pass


def _ser(node):
    from psyclone.psyir import nodes as N
    cname = type(node).__name__
    if isinstance(node, N.Assignment):
        return ("S",)
    if isinstance(node, N.Return):
        return ("R",)
    if isinstance(node, N.CodeBlock):
        return ("C",)
    if isinstance(node, N.Loop):
        if type(node) is not N.Loop:
            raise OutOfModel("loop subclass " + cname)
        return ("L", tuple(_ser(c) for c in node.loop_body.children))
    if isinstance(node, N.IfBlock):
        if node.else_body is not None:
            raise OutOfModel("else branch")
        return ("I", tuple(_ser(c) for c in node.if_body.children))
    if isinstance(node, N.RegionDirective):
        if cname not in REGION_KINDS:
            raise OutOfModel("region directive " + cname)
        coll = getattr(node, "collapse", None)
        if coll is not None and not isinstance(coll, int):
            raise OutOfModel("collapse value %r" % (coll,))
        return ("D", cname, coll if coll else None, tuple(_ser(c) for c in node.dir_body.children))
    if isinstance(node, N.StandaloneDirective):
        if cname not in STANDALONE_KINDS:
            raise OutOfModel("standalone directive " + cname)
        return ("SD", cname)
    raise OutOfModel("node " + cname)


def serialise(routine):
    return tuple(_ser(c) for c in routine.children)


def body_schedule(node):
    """The Schedule holding the structural children of a container node (or the Routine itself)."""
    from psyclone.psyir import nodes as N
    if isinstance(node, N.Routine):
        return node
    if isinstance(node, N.Loop):
        return node.loop_body
    if isinstance(node, N.IfBlock):
        return node.if_body
    if isinstance(node, N.RegionDirective):
        return node.dir_body
    raise OutOfModel("no body: " + type(node).__name__)


def resolve(routine, path):
    node = routine
    for k in path:
        node = body_schedule(node).children[k]
    return node


def build(routine_skel):
    """Build a real PSyIR Routine for a skeleton that may contain directives, by reading the
    directive-free erasure and then inserting directive NODES directly (no transformation,
    no validation)."""
    from psyclone.psyir import nodes as N
    erased, plan = _erase_plan(routine_skel)
    rt = read(erased)

    def rebuild(sched, skels):
        """sched currently holds the erased children for `skels` (flattened); wrap in place."""
        pos = 0
        for t in skels:
            if t[0] in ("S", "R", "C"):
                pos += 1
            elif t[0] in ("L", "I"):
                rebuild(body_schedule(sched.children[pos]), t[1])
                pos += 1
            elif t[0] == "SD":
                sched.addchild(_mk_standalone(t[1]), index=pos)
                pos += 1
            else:
                n = _flat_len(t[3])
                kids = [sched.children[pos].detach() for _ in range(n)]
                d = _mk_region(t[1], t[2], kids, sched)
                sched.children.insert(pos, d)
                rebuild(d.dir_body, t[3])
                pos += 1
    rebuild(rt, routine_skel)
    got = serialise(rt)
    if got != tuple(routine_skel):
        raise RuntimeError("build(): round trip failed\n want %r\n got  %r" % (routine_skel, got))
    return rt


def _flat_len(skels):
    n = 0
    for t in skels:
        if t[0] == "D":
            n += _flat_len(t[3])
        elif t[0] == "SD":
            n += 0
        else:
            n += 1
    return n


def _erase(skels):
    out = []
    for t in skels:
        if t[0] == "D":
            out.extend(_erase(t[3]))
        elif t[0] == "SD":
            pass
        elif t[0] in ("L", "I"):
            out.append((t[0], tuple(_erase(t[1]))))
        else:
            out.append(t)
    return out


def _erase_plan(routine_skel):
    return tuple(_erase(routine_skel)), None


def _mk_region(kind, collapse, kids, parent):
    from psyclone.psyir import nodes as N
    cls = getattr(N, kind)
    if kind == "ACCDataDirective":
        # needs its scope while being constructed (as ACCDataTrans does)
        return cls(parent=parent, children=kids)
    if kind == "OMPParallelDirective":
        return N.OMPParallelDirective.create(children=kids)
    if kind in ("OMPDoDirective", "OMPParallelDoDirective", "OMPTeamsDistributeParallelDoDirective",
                "OMPLoopDirective", "ACCLoopDirective"):
        return cls(children=kids, collapse=collapse)
    if collapse is not None:
        raise OutOfModel("collapse on " + kind)
    return cls(children=kids)


def _mk_standalone(kind):
    from psyclone.psyir import nodes as N
    return getattr(N, kind)()


# --------------------------------------------------------------------------- transformations
LOOP_TRANS = ["OMPDo", "OMPParallelDo", "OMPTeamsParDo", "OMPLoop", "OMPParallelLoopTrans",
              "OMPTaskloop", "ACCLoop"]
REGION_TRANS = ["OMPParallel", "OMPSingle", "OMPMaster", "OMPTarget", "ACCParallel", "ACCKernels", "ACCData"]


def make_trans(name):
    from psyclone import transformations as T
    from psyclone.psyir import transformations as PT
    return {
        "OMPDo": lambda: T.OMPLoopTrans(omp_directive="do"),
        "OMPParallelDo": lambda: T.OMPLoopTrans(omp_directive="paralleldo"),
        "OMPTeamsParDo": lambda: T.OMPLoopTrans(omp_directive="teamsdistributeparalleldo"),
        "OMPLoop": lambda: T.OMPLoopTrans(omp_directive="loop"),
        "OMPParallelLoopTrans": T.OMPParallelLoopTrans,
        "OMPTaskloop": T.OMPTaskloopTrans,
        "ACCLoop": T.ACCLoopTrans,
        "OMPParallel": T.OMPParallelTrans,
        "OMPSingle": T.OMPSingleTrans,
        "OMPMaster": T.OMPMasterTrans,
        "OMPTarget": PT.OMPTargetTrans,
        "ACCParallel": T.ACCParallelTrans,
        "ACCKernels": PT.ACCKernelsTrans,
        "ACCData": T.ACCDataTrans,
        "ACCEnterData": T.ACCEnterDataTrans,
        "ACCRoutine": T.ACCRoutineTrans,
        "OMPTaskwait": PT.OMPTaskwaitTrans,
    }[name]()


def trans_class(name):
    return type(make_trans(name))


def apply_op(routine, op):
    """op = (name, target, options).  target: ("node", path) | ("range", path, lo, hi) |
    ("sched", path).  Returns (verdict, message): verdict in ok | terr | crash."""
    from psyclone.psyir.transformations import TransformationError
    name, target, options = op
    try:
        tr = make_trans(name)
        if target[0] == "node":
            tgt = resolve(routine, target[1])
        elif target[0] == "range":
            sched = body_schedule(resolve(routine, target[1]))
            tgt = sched.children[target[2]:target[3]]
        elif target[0] == "sched":
            tgt = body_schedule(resolve(routine, target[1]))
        else:
            raise ValueError(target)
        tr.apply(tgt, dict(options) if options is not None else None)
        return "ok", ""
    except TransformationError as e:
        return "terr", str(e.value if hasattr(e, "value") else e)
    except Exception as e:   # noqa
        return "crash", "%s: %s" % (type(e).__name__, e)


def write(routine, check=True):
    """Returns (verdict, text_or_message): ok | generr | crash."""
    from psyclone.psyir.backend.fortran import FortranWriter
    from psyclone.errors import GenerationError
    from psyclone.psyir.backend.visitor import VisitorError
    try:
        return "ok", FortranWriter(check_global_constraints=check)(routine)
    except GenerationError as e:
        return "generr", str(e)
    except VisitorError as e:
        cause = e.__cause__
        if isinstance(cause, GenerationError):
            return "generr", str(cause)
        return "crash", "VisitorError: %s" % e
    except Exception as e:   # noqa
        return "crash", "%s: %s" % (type(e).__name__, e)


# --------------------------------------------------------------------------- gfortran
_ERR = re.compile(r"^(?:Error|Fatal Error):\s*(.*)$|error:\s*(.*)$", re.I)


def gfortran(text, workdir, tag):
    """Compile (front end + OpenMP/OpenACC lowering; no object kept).
    Returns (accepted: bool, first error message or '')."""
    os.makedirs(workdir, exist_ok=True)
    f = os.path.join(workdir, "c10_%s.f90" % tag)
    with open(f, "w") as fh:
        fh.write(text)
    try:
        p = subprocess.run(["gfortran", "-fopenmp", "-fopenacc", "-S", "-o", "/dev/null", f],
                           cwd=workdir, capture_output=True, text=True, timeout=900)
    except subprocess.TimeoutExpired:
        return None, "timeout"
    msg = ""
    for line in p.stderr.splitlines():
        m = _ERR.search(line)
        if m:
            msg = (m.group(1) or m.group(2) or "").strip()
            break
    return p.returncode == 0, msg


# --------------------------------------------------------------------------- files with several routines
_FILE_CACHE = {}


def source_of_file(skels):
    """one source file with the subroutines sub1, sub2, ... (one per directive-free skeleton)"""
    return "".join(source_of(sk).replace("subroutine sub(", "subroutine sub%d(" % (k + 1))
                   .replace("end subroutine sub", "end subroutine sub%d" % (k + 1)) for k, sk in enumerate(skels))


def read_file(skels):
    """(FileContainer, [Routine, ...]) for a tuple of skeletons"""
    from psyclone.psyir.frontend.fortran import FortranReader
    from psyclone.psyir.nodes import Routine
    key = tuple(skels)
    if key not in _FILE_CACHE:
        if len(_FILE_CACHE) > 1000:
            _FILE_CACHE.clear()
        _FILE_CACHE[key] = FortranReader().psyir_from_source(source_of_file(skels))
    root = _FILE_CACHE[key].copy()
    return root, root.walk(Routine)


def apply_routine_op(routine):
    """ACCRoutineTrans on a routine -> verdict like apply_op"""
    from psyclone.transformations import ACCRoutineTrans
    from psyclone.psyir.transformations import TransformationError
    try:
        ACCRoutineTrans().apply(routine)
        return "ok", ""
    except TransformationError as e:
        return "terr", str(e.value if hasattr(e, "value") else e)
    except Exception as e:   # noqa
        return "crash", "%s: %s" % (type(e).__name__, e)
