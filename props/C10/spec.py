"""C10 — Python mirror of the executable specifications wf_viol (coq/C10/Model.v) and cc_viol
(coq/C10/Compiler.v), printers of skeletons/ops as Coq terms, and the generators.

The mirror is cross-checked against the Coq definitions on every final case (Corr.final_agrees),
so the reason codes used for known-finding keys are the ones the Coq model computes."""

DK = ["OMPParallel", "OMPDo", "OMPParallelDo", "OMPTeamsParDo", "OMPSingle", "OMPMaster", "OMPTaskloop",
      "OMPTarget", "OMPLoop", "ACCParallel", "ACCKernels", "ACCLoop", "ACCData"]
DK_CLASS = {"OMPParallel": "OMPParallelDirective", "OMPDo": "OMPDoDirective",
            "OMPParallelDo": "OMPParallelDoDirective", "OMPTeamsParDo": "OMPTeamsDistributeParallelDoDirective",
            "OMPSingle": "OMPSingleDirective", "OMPMaster": "OMPMasterDirective",
            "OMPTaskloop": "OMPTaskloopDirective", "OMPTarget": "OMPTargetDirective", "OMPLoop": "OMPLoopDirective",
            "ACCParallel": "ACCParallelDirective", "ACCKernels": "ACCKernelsDirective", "ACCLoop": "ACCLoopDirective",
            "ACCData": "ACCDataDirective"}
SK_CLASS = {"OMPTaskwait": "OMPTaskwaitDirective", "ACCEnterData": "ACCEnterDataDirective",
            "ACCRoutine": "ACCRoutineDirective"}
CLASS_DK = {v: k for k, v in DK_CLASS.items()}
CLASS_SK = {v: k for k, v in SK_CLASS.items()}
CODE = {k: i for i, k in enumerate(DK)}
CODE.update({"OMPTaskwait": 20, "ACCEnterData": 21, "ACCRoutine": 22, "Routine": 30, "Loop": 31, "If": 32,
             "Assign": 40, "Return": 41, "CodeBlock": 42})
NAME_OF_CODE = {v: k for k, v in CODE.items()}
WF_NAMES = ["orphan", "nested-parallel", "collapse-imperfect"]
CC_NAMES = ["closely-nested-worksharing", "closely-nested-master", "inside-omp-loop-region", "teams-placement",
            "omp-loop-orphan", "acc-compute-nested", "acc-loop-orphan", "acc-data-in-compute", "omp-acc-mixed",
            "loop-association", "collapse-nest", "branch-out-of-region", "acc-routine-position"]
CARRIES_COLLAPSE = {"OMPDo", "OMPParallelDo", "OMPTeamsParDo", "OMPLoop", "ACCLoop"}
LOOP_DIRS = CARRIES_COLLAPSE | {"OMPTaskloop"}


def kind(t):
    tag = t[0]
    if tag == "S":
        return "Assign"
    if tag == "R":
        return "Return"
    if tag == "C":
        return "CodeBlock"
    if tag == "L":
        return "Loop"
    if tag == "I":
        return "If"
    if tag == "D":
        return CLASS_DK[t[1]]
    return CLASS_SK[t[1]]


def body(t):
    if t[0] in ("L", "I"):
        return t[1]
    if t[0] == "D":
        return t[3]
    return ()


def with_body(t, b):
    b = tuple(b)
    if t[0] in ("L", "I"):
        return (t[0], b)
    if t[0] == "D":
        return ("D", t[1], t[2], b)
    raise ValueError("no body")


def nodes(anc, t, out):
    out.append((anc, t))
    if t[0] in ("L", "I", "D"):
        a2 = (kind(t),) + anc
        for c in body(t):
            nodes(a2, c, out)


def rnodes(r):
    out = []
    for t in r:
        nodes(("Routine",), t, out)
    return out


def walk(t):
    out = []
    nodes((), t, out)
    return [kind(n) for _, n in out]


def rkinds(r):
    return [k for t in r for k in walk(t)]


OMP_PAR = ["OMPParallel", "OMPParallelDo", "OMPTeamsParDo"]
ACC_COMPUTE = ["ACCParallel", "ACCKernels"]
OMP_REGIONS = ["OMPParallel", "OMPDo", "OMPParallelDo", "OMPTeamsParDo", "OMPSingle", "OMPMaster", "OMPTaskloop",
               "OMPTarget", "OMPLoop"]
OMP_ALL = ["OMPTaskwait"] + OMP_REGIONS
ACC_EXEC = ["ACCParallel", "ACCKernels", "ACCLoop"]
ACC_REGIONS = ["ACCData"] + ACC_EXEC
ACC_ALL = ["ACCEnterData"] + ACC_REGIONS


def any_in(ks, l):
    return any(x in ks for x in l)


def perfect(c, b):
    while c > 0:
        if len(b) != 1 or b[0][0] != "L":
            return False
        b = b[0][1]
        c -= 1
    return True


def first_chain(c, b):
    while c > 0:
        if not b or b[0][0] != "L":
            return False
        b = b[0][1]
        c -= 1
    return True


def wf_viol(r):
    """list of (clause index, kind name), same order as Coq wf_viol"""
    rk = rkinds(r)
    out = []
    for anc, n in rnodes(r):
        k = kind(n)
        if (k in ("OMPDo", "OMPSingle", "OMPMaster", "OMPTaskloop", "OMPTaskwait") and not any_in(OMP_PAR, anc)) \
                or (k == "OMPLoop" and not any_in(["OMPTarget"] + OMP_PAR, anc)) \
                or (k == "ACCLoop" and not any_in(ACC_COMPUTE, anc) and "ACCRoutine" not in rk):
            out.append((0, k))
        elif (k in OMP_PAR and any_in(OMP_PAR, anc)) or (k in ACC_COMPUTE and any_in(ACC_COMPUTE, anc)):
            out.append((1, k))
        elif n[0] == "D" and n[2] is not None and k in CARRIES_COLLAPSE and not perfect(n[2], n[3]):
            out.append((2, k))
    return out


def nearest(ks, anc):
    for a in anc:
        if a in ks:
            return a
    return None


def cc_viol(r):
    """list of (rule index, inner kind, outer kind or None), same order as Coq cc_viol"""
    rk = rkinds(r)
    out = []
    rest = r[1:] if (r and r[0] == ("SD", SK_CLASS["ACCRoutine"])) else r
    if "ACCRoutine" in rkinds(rest):
        out.append((12, "ACCRoutine", None))
    for anc, n in rnodes(r):
        k = kind(n)
        no = nearest(OMP_REGIONS, anc)
        if k in ("OMPDo", "OMPSingle") and no in ("OMPDo", "OMPParallelDo", "OMPTeamsParDo", "OMPSingle",
                                                  "OMPMaster", "OMPTaskloop", "OMPLoop"):
            out.append((0, k, no))
        if k == "OMPMaster" and no in ("OMPDo", "OMPParallelDo", "OMPTeamsParDo", "OMPSingle", "OMPTaskloop",
                                       "OMPLoop"):
            out.append((1, k, no))
        if no == "OMPLoop" and k in ("OMPTaskloop", "OMPTarget", "OMPTeamsParDo", "OMPTaskwait"):
            out.append((2, k, no))
        if k == "OMPTeamsParDo" and not (no is None or no == "OMPTarget"):
            out.append((3, k, no))
        if k == "OMPLoop" and not any_in(OMP_REGIONS, anc):
            out.append((4, k, None))
        if k in ACC_COMPUTE and any_in(ACC_COMPUTE, anc):
            out.append((5, k, nearest(ACC_COMPUTE, anc)))
        if k == "ACCLoop" and not any_in(ACC_COMPUTE, anc) and "ACCRoutine" not in rk:
            out.append((6, k, None))
        if k in ("ACCData", "ACCEnterData") and any_in(ACC_COMPUTE, anc):
            out.append((7, k, nearest(ACC_COMPUTE, anc)))
        if k in OMP_ALL and any_in(ACC_REGIONS, anc):
            out.append((8, k, nearest(ACC_REGIONS, anc)))
        if k in ACC_ALL and any_in(OMP_REGIONS, anc):
            out.append((8, k, no))
        if k in OMP_ALL and "ACCRoutine" in rk:
            out.append((8, k, "ACCRoutine"))
        if n[0] == "D":
            b = n[3]
            if k in ("OMPDo", "OMPParallelDo", "OMPTeamsParDo", "OMPLoop", "OMPTaskloop"):
                if not (len(b) == 1 and b[0][0] == "L"):
                    out.append((9, k, None))
            elif k == "ACCLoop":
                if not (b and b[0][0] == "L"):
                    out.append((9, k, None))
            if n[2] is not None:
                if k in ("OMPDo", "OMPParallelDo", "OMPTeamsParDo", "OMPLoop"):
                    if not perfect(n[2], b):
                        out.append((10, k, None))
                elif k == "ACCLoop":
                    if not first_chain(n[2], b):
                        out.append((10, k, None))
        if k == "Return" and any_in(OMP_REGIONS + ACC_REGIONS, anc):
            out.append((11, k, nearest(OMP_REGIONS + ACC_REGIONS, anc)))
        if k == "OMPTarget":
            ds = [x for c in n[3] for x in close_omp(c)]
            if "OMPTeamsParDo" in ds and len(ds) >= 2:
                out.append((3, "OMPTeamsParDo", "OMPTarget"))
        if k in ACC_COMPUTE and "ACCRoutine" in rk:
            out.append((5, k, "ACCRoutine"))
    return out


def close_omp(t):
    """OpenMP directives of a subtree that are not below another OpenMP region of that subtree"""
    if t[0] == "D":
        if kind(t) in OMP_REGIONS:
            return [kind(t)]
        return [x for c in t[3] for x in close_omp(c)]
    if t[0] == "SD":
        return ["OMPTaskwait"] if kind(t) == "OMPTaskwait" else []
    if t[0] in ("L", "I"):
        return [x for c in t[1] for x in close_omp(c)]
    return []


def wf_codes(r):
    out = []
    for c, k in wf_viol(r):
        out += [c, CODE[k]]
    return out


def cc_codes(r):
    out = []
    for c, k, o in cc_viol(r):
        out += [c, CODE[k], CODE[o] if o is not None else 99]
    return out


def full(k):
    """class name used in finding keys"""
    return DK_CLASS.get(k) or SK_CLASS.get(k) or k


def wf_keys(r):
    return sorted({"wf/%s/%s" % (WF_NAMES[c], full(k)) for c, k in wf_viol(r)})


def cc_key(c, k, o):
    """finding key of one compiler-rule violation.  Mixing OpenMP and OpenACC is one defect per
    direction (nothing checks it), so the kinds involved are not part of that key."""
    if c == 8:
        if o == "ACCRoutine":
            return "cc/omp-acc-mixed/OMP-in-ACC-routine"
        return "cc/omp-acc-mixed/" + ("OMP-in-ACC" if k in OMP_ALL else "ACC-in-OMP")
    return "cc/%s/%s%s" % (CC_NAMES[c], full(k), ("-in-" + full(o)) if o else "")


def cc_keys(r):
    return sorted({cc_key(c, k, o) for c, k, o in cc_viol(r)})


def acc_intervening(r):
    """some `acc loop collapse(n)` sits on an imperfect nest: gfortran 12 accepts such nests and does not
    scan the intervening code for further OpenACC restrictions, so no compiler verdict is predicted"""
    return any(n[0] == "D" and kind(n) == "ACCLoop" and n[2] is not None and not perfect(n[2], n[3])
               for _, n in rnodes(r))


# ------------------------------------------------------------------ Coq terms
def coq_tree(t):
    tag = t[0]
    if tag == "S":
        return "Leaf LAssign"
    if tag == "R":
        return "Leaf LReturn"
    if tag == "C":
        return "Leaf LCodeBlock"
    if tag == "L":
        return "Loop " + coq_forest(t[1])
    if tag == "I":
        return "If " + coq_forest(t[1])
    if tag == "D":
        c = "None" if t[2] is None else "(Some %d)" % t[2]
        return "Dir %s %s %s" % (CLASS_DK[t[1]], c, coq_forest(t[3]))
    return "SDir " + CLASS_SK[t[1]]


def coq_forest(f):
    return "[" + "; ".join(coq_tree(t) for t in f) + "]"


TRANS_COQ = {"OMPDo": "TOMPDo", "OMPParallelDo": "TOMPParallelDo", "OMPTeamsParDo": "TOMPTeamsParDo",
             "OMPLoop": "TOMPLoop", "OMPParallelLoopTrans": "TOMPParallelLoop", "OMPTaskloop": "TOMPTaskloop",
             "ACCLoop": "TACCLoop", "OMPParallel": "TOMPParallel", "OMPSingle": "TOMPSingle",
             "OMPMaster": "TOMPMaster", "OMPTarget": "TOMPTarget", "ACCParallel": "TACCParallel",
             "ACCKernels": "TACCKernels", "ACCData": "TACCData", "ACCEnterData": "TACCEnterData",
             "ACCRoutine": "TACCRoutine"}
LOOP_TRANS = ["OMPDo", "OMPParallelDo", "OMPTeamsParDo", "OMPLoop", "OMPParallelLoopTrans", "OMPTaskloop", "ACCLoop"]
REGION_TRANS = ["OMPParallel", "OMPSingle", "OMPMaster", "OMPTarget", "ACCParallel", "ACCKernels", "ACCData"]


def coq_nats(l):
    return "[" + "; ".join(str(x) for x in l) + "]"


def coq_op(op, dep_ok):
    name, target, options = op
    if target[0] == "node":
        tg = "(TNode %s %d)" % (coq_nats(target[1][:-1]), target[1][-1])
    elif target[0] == "range":
        tg = "(TRange %s %d %d)" % (coq_nats(target[1]), target[2], target[3])
    else:
        tg = "(TSched %s)" % coq_nats(target[1])
    c = (options or {}).get("collapse")
    return "(Build_op %s %s %s %s)" % (TRANS_COQ[name], tg, "None" if c is None else "(Some %d)" % c,
                                       "true" if dep_ok else "false")


# ------------------------------------------------------------------ generators
S = ("S",)


def gen_body(rng, depth, maxdepth, top=False):
    """random list of statements at loop depth `depth`"""
    shape = rng.random()
    n = rng.choice([1, 1, 1, 2, 2, 3]) if not top else rng.choice([1, 1, 2, 2, 3])
    if not top and shape < 0.04:
        return ()
    out = []
    for _ in range(n):
        x = rng.random()
        if x < 0.45 and depth < maxdepth:
            out.append(("L", gen_body(rng, depth + 1, maxdepth)))
        elif x < 0.50 and depth < maxdepth:
            out.append(("I", gen_body(rng, depth, maxdepth) or (S,)))
        elif x < 0.53:
            out.append(("R",))
        elif x < 0.56:
            out.append(("C",))
        else:
            out.append(S)
    return tuple(out)


def nest(n, inner):
    t = inner
    for _ in range(n):
        t = (("L", t),)
    return t


def gen_skeleton(rng, maxdepth=3):
    x = rng.random()
    if x < 0.18:      # perfect nest of depth 2..3 (+ maybe a sibling)
        r = nest(rng.choice([2, 2, 3]), (S,))
    elif x < 0.34:    # imperfect: statement after / before the inner loop
        inner = ("L", (S,))
        r = (("L", rng.choice([(inner, S), (S, inner), (inner, inner), (inner, S, S)])),)
    elif x < 0.42:    # three deep, imperfect at level 2
        r = (("L", (("L", (("L", (S,)), S)),)),)
    elif x < 0.47:    # empty innermost body
        r = rng.choice([(("L", (("L", ()),)),), (("L", ()),)])
    else:
        return gen_body(rng, 0, maxdepth, top=True) or (S,)
    if rng.random() < 0.4:
        r = r + rng.choice([(S,), (("L", (S,)),), (S, ("L", (S,)))])
    if rng.random() < 0.15:
        r = (S,) + r
    return r


def containers(r):
    """[(path, body)] of every container (routine = ()) in skeleton r"""
    out = [((), tuple(r))]

    def rec(p, b):
        for i, t in enumerate(b):
            if t[0] in ("L", "I", "D"):
                out.append((p + (i,), body(t)))
                rec(p + (i,), body(t))
    rec((), r)
    return out


def node_paths(r):
    out = []

    def rec(p, b):
        for i, t in enumerate(b):
            out.append((p + (i,), t))
            if t[0] in ("L", "I", "D"):
                rec(p + (i,), body(t))
    rec((), r)
    return out


def gen_op(rng, r, bias=None):
    """a random (mostly sensible) op for the current skeleton r"""
    nodes_ = node_paths(r)
    loops = [(p, t) for p, t in nodes_ if t[0] == "L"]
    x = rng.random()
    if x < 0.47 and nodes_:
        name = rng.choice(bias[0] if bias else LOOP_TRANS)
        if loops and rng.random() < 0.9:
            p, _ = rng.choice(loops)
        else:
            p, _ = rng.choice(nodes_)
        opts = {}
        c = rng.choice([None, None, None, None, 2, 2, 2, 3, 1])
        if c is not None:
            opts["collapse"] = c
        if rng.random() < 0.75:
            opts["force"] = True
        return (name, ("node", p), opts)
    if x < 0.95:
        name = rng.choice(bias[1] if bias else REGION_TRANS)
        conts = containers(r)
        nonempty = [(p, b) for p, b in conts if b]
        if rng.random() < 0.12 or not nonempty:
            p, _ = rng.choice(conts)
            return (name, ("sched", p), {})
        if rng.random() < 0.45:
            p, b = nonempty[0]       # the routine itself
        else:
            p, b = rng.choice(nonempty)
        lo = rng.randrange(len(b))
        hi = lo + 1 if rng.random() < 0.6 else rng.randint(lo + 1, len(b))
        if rng.random() < 0.25:
            lo, hi = 0, len(b)
        return (name, ("range", p, lo, hi), {})
    conts = containers(r)
    p = () if rng.random() < 0.8 else rng.choice(conts)[0]
    return ("ACCEnterData", ("sched", p), {})


FAMILIES = [
    (["OMPDo", "OMPParallelDo", "OMPLoop", "OMPTaskloop", "OMPTeamsParDo", "OMPParallelLoopTrans"],
     ["OMPParallel", "OMPSingle", "OMPMaster", "OMPTarget"]),
    (["ACCLoop"], ["ACCParallel", "ACCKernels", "ACCData"]),
    None, None,
]


def wrap(r, p, lo, hi, dk, collapse):
    """insert a directive node around children lo..hi-1 of the container at p (no validation)"""
    if not p:
        b = tuple(r)
        return b[:lo] + (("D", DK_CLASS[dk], collapse, b[lo:hi]),) + b[hi:]
    i = p[0]
    r = tuple(r)
    t = r[i]
    return r[:i] + (with_body(t, wrap(body(t), p[1:], lo, hi, dk, collapse)),) + r[i + 1:]


def insert_sd(r, p, pos, sk):
    if not p:
        b = tuple(r)
        return b[:pos] + (("SD", SK_CLASS[sk]),) + b[pos:]
    i = p[0]
    r = tuple(r)
    t = r[i]
    return r[:i] + (with_body(t, insert_sd(body(t), p[1:], pos, sk)),) + r[i + 1:]


def gen_direct(rng, maxdepth=3):
    """a random directive tree built without any validation (for checking gen_ok against the writer
    and the specifications against gfortran)"""
    r = gen_skeleton(rng, maxdepth)
    # no RETURN/CODEBLOCK in most direct trees (they dominate the verdict otherwise)
    fam = rng.choice([DK[:9], DK[:9], DK[9:], DK])
    for _ in range(rng.choice([1, 2, 2, 3, 3, 4])):
        conts = [(p, b) for p, b in containers(r) if b]
        p, b = rng.choice(conts)
        dk = rng.choice(fam)
        if dk in LOOP_DIRS and rng.random() < 0.85:
            idx = [i for i, t in enumerate(b) if t[0] == "L"]
            if not idx:
                continue
            lo = rng.choice(idx)
            hi = lo + 1
        else:
            lo = rng.randrange(len(b))
            hi = lo + 1 if rng.random() < 0.6 else rng.randint(lo + 1, len(b))
        c = None
        if dk in CARRIES_COLLAPSE and rng.random() < 0.35:
            c = rng.choice([1, 2, 2, 3])
        r = wrap(r, p, lo, hi, dk, c)
    if rng.random() < 0.15:
        conts = containers(r)
        p, b = rng.choice(conts)
        r = insert_sd(r, p, rng.randint(0, len(b)), rng.choice(["OMPTaskwait", "OMPTaskwait", "ACCEnterData"]))
    if rng.random() < 0.06:
        r = insert_sd(r, (), 0, "ACCRoutine")
    return tuple(r)


# ------------------------------------------------------------------ finding keys as Coq expectations
WF_COQ = ["WOrphan", "WNested", "WCollapse"]
CC_COQ = ["CCWorkshare", "CCMaster", "CCInLoopRegion", "CCTeams", "CCLoopOrphan", "CCAccNested", "CCAccLoopOrphan",
          "CCAccData", "CCMixed", "CCLoopAssoc", "CCCollapse", "CCBranch", "CCRoutinePos"]


def coq_nkind(name):
    """class name (as used in keys) -> Coq term of type nkind"""
    if name in CLASS_DK:
        return "(ND %s)" % CLASS_DK[name]
    if name in CLASS_SK:
        return "(NS %s)" % CLASS_SK[name]
    return {"Return": "(NLeaf LReturn)", "CodeBlock": "(NLeaf LCodeBlock)", "Assign": "(NLeaf LAssign)",
            "Loop": "NLoop", "If": "NIf", "Routine": "NRoutine"}[name]


def coq_expect(key):
    parts = key.split("/")
    if parts[0] == "wf":
        return "(EWF %s %s)" % (WF_COQ[WF_NAMES.index(parts[1])], coq_nkind(parts[2]))
    if parts[0] == "cc":
        rule = CC_COQ[CC_NAMES.index(parts[1])]
        if parts[1] == "omp-acc-mixed":
            return "(ECC %s None None)" % rule
        if "-in-" in parts[2]:
            inner, outer = parts[2].split("-in-")
            return "(ECC %s (Some %s) (Some (Some %s)))" % (rule, coq_nkind(inner), coq_nkind(outer))
        return "(ECC %s (Some %s) (Some None))" % (rule, coq_nkind(parts[2]))
    raise ValueError("no Coq expectation for key " + key)


def witness_ops(w):
    """ops of a known_findings witness as python ops"""
    out = []
    for name, target, options in w["ops"]:
        tg = tuple(tuple(x) if isinstance(x, list) else x for x in target)
        out.append((name, tg, options))
    return out


# ------------------------------------------------------------------ systematic histories
TOPS = [[], ["OMPParallel"], ["OMPTarget"], ["ACCParallel"], ["ACCKernels"], ["ACCData"],
        ["OMPSingle", "OMPParallel"], ["OMPMaster", "OMPParallel"], ["OMPTarget", "OMPParallel"],
        ["OMPParallel", "OMPTarget"], ["ACCParallel", "ACCData"]]
ALL_TRANS = LOOP_TRANS + REGION_TRANS


def op_on(name, path):
    """transformation `name` applied to the node at `path` (loop trans: the node; region trans: that single node)"""
    if name in LOOP_TRANS:
        return (name, ("node", tuple(path)), {"force": True})
    return (name, ("range", tuple(path[:-1]), path[-1], path[-1] + 1), {})


def systematic_histories(tops):
    """deterministic histories: every transformation on a loop and on a loop holding a RETURN; every ordered pair
    (inner, outer) on a 2-nest and directly nested; collapse=2 on the two imperfect 2-nests; enter data inside a
    region -- each followed by the given lists of enclosing region transformations"""
    L = lambda *b: ("L", tuple(b))   # noqa: E731
    a2 = (L(L(S)),)
    b1 = (L(S),)
    imp = (L(L(S), S),)
    imp_pre = (L(S, L(S)),)
    ret = (L(S, ("R",)),)
    out = []
    for tp in tops:
        top_ops = [(t, ("range", (), 0, 1), {}) for t in tp]
        for x in ALL_TRANS:
            out.append((b1, [op_on(x, (0,))] + top_ops))
            out.append((ret, [op_on(x, (0,))] + top_ops))
            for y in ALL_TRANS:
                out.append((a2, [op_on(x, (0, 0)), op_on(y, (0,))] + top_ops))
                if y in REGION_TRANS:
                    out.append((b1, [op_on(x, (0,)), (y, ("range", (), 0, 1), {})] + top_ops))
        # a second transformation applied to the loop INSIDE the directive created by the first one
        for x in LOOP_TRANS:
            for y in ALL_TRANS:
                out.append((b1, [op_on(x, (0,)), op_on(y, (0, 0))] + top_ops))
        for x in LOOP_TRANS:
            for sk in (imp, imp_pre):
                out.append((sk, [(x, ("node", (0,)), {"force": True, "collapse": 2})] + top_ops))
        for x in ALL_TRANS:
            out.append((a2, [op_on(x, (0,))] + top_ops + [("ACCEnterData", ("sched", (0,)), {})]))
    # ACCRoutineTrans marks the routine: orphaned acc loops are then accepted by the writer
    accr = ("ACCRoutine", ("sched", ()), {})
    for sk in (b1, ret, a2, (("C",), ("L", (S,)))):
        out.append((sk, [op_on("ACCLoop", (0,)) if sk[0][0] == "L" else op_on("ACCLoop", (1,)), accr]))
        out.append((sk, [accr, op_on("ACCLoop", (0,)) if sk[0][0] == "L" else op_on("ACCLoop", (1,)), accr]))
    out.append((a2, [op_on("ACCLoop", (0, 0)), op_on("ACCLoop", (0,)), accr]))
    return out


def targeted_serial_histories():
    """depth-4 histories that put another OpenMP directive between two serial (single/master) regions inside one
    parallel region, applied outermost-first (the serial transformations refuse to ENCLOSE a serial region, so
    only this order can produce it) and innermost-first; the inner region wraps the statements of the loop body
    or an inner loop"""
    L = lambda *b: ("L", tuple(b))   # noqa: E731
    out = []
    for skel, n_body in (((L(S, S),), 2), ((L(L(S)),), 1), ((L(L(S), S),), 2)):
        for outer in ("OMPSingle", "OMPMaster"):
            for mid in ("OMPTaskloop", "OMPDo", "OMPLoop", "OMPParallelDo"):
                for inner in ("OMPSingle", "OMPMaster"):
                    top = ("range", (), 0, 1)
                    m = (mid, ("node", (0,)), {"force": True})
                    # outermost-first: mid on the loop, outer serial region around it, parallel around that, then
                    # the inner serial region on the loop body (loop is now at Parallel > outer > mid > loop)
                    out.append((skel, [m, (outer, top, {}), ("OMPParallel", top, {}),
                                       (inner, ("range", (0, 0, 0, 0), 0, n_body), {})]))
                    # parallel first
                    out.append((skel, [("OMPParallel", top, {}), (mid, ("node", (0, 0)), {"force": True}),
                                       (outer, ("range", (0,), 0, 1), {}),
                                       (inner, ("range", (0, 0, 0, 0), 0, n_body), {})]))
                    # innermost-first
                    out.append((skel, [(inner, ("range", (0,), 0, n_body), {}), m, (outer, top, {}),
                                       ("OMPParallel", top, {})]))
    return out


# ------------------------------------------------------------------ compact case strings (coq/C10/Decode.v)
B36 = "0123456789abcdefghijklmnopqrstuvwxyz"
SKL = ["OMPTaskwait", "ACCEnterData", "ACCRoutine"]
TRANS_ORDER = ["OMPDo", "OMPParallelDo", "OMPTeamsParDo", "OMPLoop", "OMPParallelLoopTrans", "OMPTaskloop", "ACCLoop",
               "OMPParallel", "OMPSingle", "OMPMaster", "OMPTarget", "ACCParallel", "ACCKernels", "ACCData", "ACCEnterData",
               "ACCRoutine"]


def d36(n):
    if not 0 <= n < 36:
        raise ValueError("number %r does not fit one base-36 digit" % (n,))
    return B36[n]


def enc_forest(f):
    out = []
    for t in f:
        tag = t[0]
        if tag == "S":
            out.append("A")
        elif tag == "R":
            out.append("R")
        elif tag == "C":
            out.append("C")
        elif tag == "L":
            out.append("L" + enc_forest(t[1]) + ")")
        elif tag == "I":
            out.append("I" + enc_forest(t[1]) + ")")
        elif tag == "D":
            out.append("D" + d36(DK.index(CLASS_DK[t[1]])) + d36(t[2] or 0) + enc_forest(t[3]) + ")")
        else:
            out.append("S" + d36(SKL.index(CLASS_SK[t[1]])))
    return "".join(out)


def enc_op(op, dep_ok):
    name, target, options = op
    s = d36(TRANS_ORDER.index(name))
    if target[0] == "node":
        s += "n" + "".join(d36(x) for x in target[1][:-1]) + ";" + d36(target[1][-1])
    elif target[0] == "range":
        s += "r" + "".join(d36(x) for x in target[1]) + ";" + d36(target[2]) + d36(target[3])
    else:
        s += "s" + "".join(d36(x) for x in target[1]) + ";"
    c = (options or {}).get("collapse")
    return s + d36(c or 0) + ("t" if dep_ok else "f")


def enc_codes(l):
    return "".join(d36(x // 36) + d36(x % 36) for x in l)


def enc_step(before, op, dep_ok, verdict, after):
    return '"%s|%s|%d|%s"' % (enc_forest(before), enc_op(op, dep_ok), verdict, enc_forest(after))


def enc_final(tree, verdict, wf, cc):
    return '"%s|%d|%s|%s"' % (enc_forest(tree), verdict, enc_codes(wf), enc_codes(cc))
