"""C10 translator (dynamic + static, fail-closed):  working tree of PSyclone  ->  coq/C10/Gen.v

What is generated (vocabulary in coq/C10/Kinds.v):

* ``gen_rules : nkind -> list grule`` — for every modelled directive class, the statements of its
  ``validate_global_constraints`` in execution order.  The method is found through the class's real
  MRO (dynamic), its source is parsed with ``ast`` (static) and every statement must match one of a
  fixed set of shapes (``if not self.ancestor(T, excluding=E): raise GenerationError``,
  ``if self.ancestor(T) [is not None]: raise``, ``self._validate_single_loop()``,
  ``self._validate_collapse_value()``, the in-line collapse loop of OMPLoopDirective, the ``walk``
  test of ACCRegionDirective, the ACCLoopDirective context test, ``super()...`` calls which are
  followed).  Anything else raises TranslateError.
* class expressions (``OMPParallelDirective``, ``(ACCParallelDirective, ACCKernelsDirective)``,
  ``ACCDirective`` ...) are evaluated in the defining module's namespace and replaced by the list
  of modelled concrete node kinds that are instances of them (``issubclass`` on the real classes).
* ``excluded_tab : trans -> list nkind`` — the ``excluded_node_types`` class attribute of each
  transformation, resolved the same way.
* ``created_tab`` / ``collapse_tab`` — which directive class each loop/region transformation
  inserts and what it does with the ``collapse`` option (observed by applying it to a two-deep
  loop nest).

Run by props/C10/check.py (function ``generate``) in the check's own process; it only imports
PSyclone and reads class attributes / sources, and builds throw-away trees.
"""
import ast
import inspect
import sys
import textwrap
from pathlib import Path

HERE = Path(__file__).resolve().parent
sys.path.insert(0, str(HERE.parent.parent))
from vlib import core  # noqa: E402


class TranslateError(Exception):
    pass


DKINDS = {
    "OMPParallel": "OMPParallelDirective", "OMPDo": "OMPDoDirective",
    "OMPParallelDo": "OMPParallelDoDirective", "OMPTeamsParDo": "OMPTeamsDistributeParallelDoDirective",
    "OMPSingle": "OMPSingleDirective", "OMPMaster": "OMPMasterDirective",
    "OMPTaskloop": "OMPTaskloopDirective", "OMPTarget": "OMPTargetDirective", "OMPLoop": "OMPLoopDirective",
    "ACCParallel": "ACCParallelDirective", "ACCKernels": "ACCKernelsDirective", "ACCLoop": "ACCLoopDirective",
    "ACCData": "ACCDataDirective"}
SKINDS = {"OMPTaskwait": "OMPTaskwaitDirective", "ACCEnterData": "ACCEnterDataDirective",
          "ACCRoutine": "ACCRoutineDirective"}
OTHER = {"NRoutine": "Routine", "NLoop": "Loop", "NIf": "IfBlock", "NLeaf LAssign": "Assignment",
         "NLeaf LReturn": "Return", "NLeaf LCodeBlock": "CodeBlock"}
TRANS = ["TOMPDo", "TOMPParallelDo", "TOMPTeamsParDo", "TOMPLoop", "TOMPParallelLoop", "TOMPTaskloop",
         "TACCLoop", "TOMPParallel", "TOMPSingle", "TOMPMaster", "TOMPTarget", "TACCParallel", "TACCKernels",
         "TACCData", "TACCEnterData", "TACCRoutine"]
LOOP_TRANS = TRANS[:7]
REGION_TRANS = TRANS[7:14]


def model_classes():
    """model kind (Coq term of type nkind) -> real class, in a fixed order"""
    from psyclone.psyir import nodes as N
    out = []
    for coq, name in OTHER.items():
        out.append((coq, getattr(N, name)))
    for coq, name in DKINDS.items():
        out.append(("ND " + coq, getattr(N, name)))
    for coq, name in SKINDS.items():
        out.append(("NS " + coq, getattr(N, name)))
    return out


def make_trans(tname):
    from psyclone import transformations as T
    from psyclone.psyir import transformations as PT
    table = {
        "TOMPDo": lambda: T.OMPLoopTrans(omp_directive="do"),
        "TOMPParallelDo": lambda: T.OMPLoopTrans(omp_directive="paralleldo"),
        "TOMPTeamsParDo": lambda: T.OMPLoopTrans(omp_directive="teamsdistributeparalleldo"),
        "TOMPLoop": lambda: T.OMPLoopTrans(omp_directive="loop"),
        "TOMPParallelLoop": T.OMPParallelLoopTrans, "TOMPTaskloop": T.OMPTaskloopTrans,
        "TACCLoop": T.ACCLoopTrans, "TOMPParallel": T.OMPParallelTrans, "TOMPSingle": T.OMPSingleTrans,
        "TOMPMaster": T.OMPMasterTrans, "TOMPTarget": PT.OMPTargetTrans, "TACCParallel": T.ACCParallelTrans,
        "TACCKernels": PT.ACCKernelsTrans, "TACCData": T.ACCDataTrans, "TACCEnterData": T.ACCEnterDataTrans,
        "TACCRoutine": T.ACCRoutineTrans}
    return table[tname]()


# ------------------------------------------------------------------ class expressions -> kinds
class Resolver:
    def __init__(self):
        self.model = model_classes()
        self.notes = []

    def classes_of(self, expr, namespace, where):
        """evaluate an ast expression that must denote a class or a tuple of classes"""
        def one(e):
            if isinstance(e, ast.Name) or (isinstance(e, ast.Attribute) and isinstance(e.value, ast.Name)):
                try:
                    val = eval(compile(ast.Expression(e), "<c10>", "eval"), dict(namespace))  # noqa: S307
                except Exception as err:
                    raise TranslateError("%s: cannot resolve class expression %s: %s"
                                         % (where, ast.unparse(e), err))
                if not isinstance(val, type):
                    raise TranslateError("%s: %s is not a class" % (where, ast.unparse(e)))
                return [val]
            raise TranslateError("%s: unsupported class expression %s" % (where, ast.unparse(e)))
        if isinstance(expr, ast.Tuple):
            out = []
            for e in expr.elts:
                out += one(e)
            return out
        return one(expr)

    def kinds(self, classes, where):
        classes = tuple(classes)
        got = [coq for coq, cls in self.model if classes and issubclass(cls, classes)]
        for c in classes:
            if not any(issubclass(cls, c) for _, cls in self.model):
                self.notes.append("%s: class %s matches no modelled node kind (dropped)" % (where, c.__name__))
        return got

    def is_class(self, expr, namespace, name, where):
        from psyclone.psyir import nodes as N
        cl = self.classes_of(expr, namespace, where)
        return len(cl) == 1 and cl[0] is getattr(N, name)


def coq_kinds(ks):
    return "[" + "; ".join(ks) + "]"


# ------------------------------------------------------------------ static part
def func_ast(func):
    src = textwrap.dedent(inspect.getsource(func))
    mod = ast.parse(src)
    if len(mod.body) != 1 or not isinstance(mod.body[0], ast.FunctionDef):
        raise TranslateError("cannot parse source of %s" % func.__qualname__)
    return mod.body[0]


def strip_doc(body):
    if body and isinstance(body[0], ast.Expr) and isinstance(body[0].value, ast.Constant) \
            and isinstance(body[0].value.value, str):
        return body[1:]
    return body


def is_raise_generr(stmts, allow_assign_prefix=False):
    stmts = list(stmts)
    if allow_assign_prefix:
        while stmts and isinstance(stmts[0], ast.Assign):
            stmts = stmts[1:]
    if len(stmts) != 1 or not isinstance(stmts[0], ast.Raise):
        return False
    exc = stmts[0].exc
    return isinstance(exc, ast.Call) and isinstance(exc.func, ast.Name) and exc.func.id == "GenerationError"


def self_call(node, attr=None):
    """node is `self.<attr>(...)` -> (attr, call) else None"""
    if isinstance(node, ast.Call) and isinstance(node.func, ast.Attribute) \
            and isinstance(node.func.value, ast.Name) and node.func.value.id == "self":
        if attr is None or node.func.attr == attr:
            return node.func.attr, node
    return None


def ancestor_call(node, allowed_kw=("excluding",)):
    """`self.ancestor(T, excluding=E, limit=L)` -> (T, {kw: expr}) else None"""
    sc = self_call(node, "ancestor")
    if not sc:
        return None
    call = sc[1]
    if len(call.args) != 1:
        raise TranslateError("ancestor() with %d positional arguments: %s" % (len(call.args), ast.unparse(call)))
    kws = {}
    for kw in call.keywords:
        if kw.arg not in allowed_kw:
            raise TranslateError("ancestor() keyword %r not supported here: %s" % (kw.arg, ast.unparse(call)))
        kws[kw.arg] = kw.value
    return call.args[0], kws


class RuleExtractor:
    def __init__(self, resolver):
        self.r = resolver

    def rules_for_class(self, cls):
        func = getattr(cls, "validate_global_constraints")
        return self.rules_of_function(func, cls, depth=0)

    # -- following super() calls through the real MRO
    def next_in_mro(self, concrete, after_name, where):
        mro = inspect.getmro(concrete)
        names = [c.__name__ for c in mro]
        if after_name not in names:
            raise TranslateError("%s: class %s not in the MRO of %s" % (where, after_name, concrete.__name__))
        for c in mro[names.index(after_name) + 1:]:
            if "validate_global_constraints" in c.__dict__:
                return c.__dict__["validate_global_constraints"]
        raise TranslateError("%s: no further validate_global_constraints in the MRO" % where)

    def rules_of_function(self, func, concrete, depth):
        if depth > 8:
            raise TranslateError("super() chain too deep for " + concrete.__name__)
        owner = func.__qualname__.split(".")[0]
        where = "%s.validate_global_constraints (for %s)" % (owner, concrete.__name__)
        ns = func.__globals__
        fdef = func_ast(func)
        body = strip_doc(fdef.body)
        rules = []
        i = 0
        while i < len(body):
            st = body[i]
            nxt = body[i + 1] if i + 1 < len(body) else None
            # pass
            if isinstance(st, ast.Pass):
                i += 1
                continue
            # calls used as statements
            if isinstance(st, ast.Expr) and isinstance(st.value, ast.Call):
                call = st.value
                txt = ast.unparse(call)
                if txt == "super().validate_global_constraints()":
                    rules += self.rules_of_function(self.next_in_mro(concrete, owner, where), concrete, depth + 1)
                    i += 1
                    continue
                if isinstance(call.func, ast.Attribute) and call.func.attr == "validate_global_constraints":
                    base = call.func.value
                    # super(X, self).validate_global_constraints()
                    if isinstance(base, ast.Call) and isinstance(base.func, ast.Name) and base.func.id == "super" \
                            and len(base.args) == 2 and isinstance(base.args[0], ast.Name) and not call.args:
                        rules += self.rules_of_function(
                            self.next_in_mro(concrete, base.args[0].id, where), concrete, depth + 1)
                        i += 1
                        continue
                    # X.validate_global_constraints(self)
                    if isinstance(base, ast.Name) and len(call.args) == 1 and ast.unparse(call.args[0]) == "self":
                        cl = self.r.classes_of(base, ns, where)[0]
                        if cl not in inspect.getmro(concrete):
                            raise TranslateError("%s: %s is not a base of %s" % (where, cl.__name__, concrete.__name__))
                        rules += self.rules_of_function(getattr(cl, "validate_global_constraints"), concrete, depth + 1)
                        i += 1
                        continue
                sc = self_call(call)
                if sc and not call.args and not call.keywords:
                    meth = getattr(concrete, sc[0], None)
                    if meth is None:
                        raise TranslateError("%s: unknown method %s" % (where, sc[0]))
                    if sc[0] == "_validate_single_loop":
                        rules += self.single_loop_rules(meth, where)
                    elif sc[0] == "_validate_collapse_value":
                        rules += self.collapse_rules(strip_doc(func_ast(meth).body), meth.__globals__, where)
                    else:
                        # any other helper must be unable to raise
                        for sub in ast.walk(func_ast(meth)):
                            if isinstance(sub, (ast.Raise, ast.Assert)):
                                raise TranslateError("%s: helper %s can raise; not modelled" % (where, sc[0]))
                    i += 1
                    continue
                raise TranslateError("%s: unrecognised call statement: %s" % (where, txt))
            # if-statements
            if isinstance(st, ast.If) and not st.orelse:
                test = st.test
                txt = ast.unparse(test)
                # collapse loop written in-line
                if txt == "self._collapse":
                    rules += self.collapse_rules([st], ns, where)
                    i += 1
                    continue
                if is_raise_generr(st.body):
                    # if not self.ancestor(...): raise
                    if isinstance(test, ast.UnaryOp) and isinstance(test.op, ast.Not):
                        ac = ancestor_call(test.operand)
                        if ac:
                            rules.append(self.anc_rule("GRequireAnc", ac, ns, where))
                            i += 1
                            continue
                    # if self.ancestor(...) [is not None]: raise
                    inner = test
                    if isinstance(test, ast.Compare) and len(test.ops) == 1 and isinstance(test.ops[0], ast.IsNot) \
                            and isinstance(test.comparators[0], ast.Constant) and test.comparators[0].value is None:
                        inner = test.left
                    ac = ancestor_call(inner)
                    if ac:
                        rules.append(self.anc_rule("GForbidAnc", ac, ns, where))
                        i += 1
                        continue
                    if txt == "len(self.dir_body.children) != 1":
                        rules.append("GBodyLenOne")
                        i += 1
                        continue
                    if txt in ("not isinstance(self.dir_body.children[0], Loop)", "not isinstance(self.dir_body[0], Loop)"):
                        self.check_loop_name(ns, where)
                        rules.append("GFirstIsLoop")
                        i += 1
                        continue
                    if txt == "len(self._children) == 3 and isinstance(self._children[1], OMPNogroupClause)":
                        # clause-list shape of OMPTaskloopDirective; cannot hold for the directives
                        # the modelled transformations create (one nogroup clause at most)
                        self.r.notes.append(where + ": nogroup-clause shape test not modelled")
                        i += 1
                        continue
                raise TranslateError("%s: unrecognised if-statement: if %s: ..." % (where, txt))
            # data_nodes = self.walk(T) ; if data_nodes: raise
            if isinstance(st, ast.Assign) and len(st.targets) == 1 and isinstance(st.targets[0], ast.Name):
                var = st.targets[0].id
                sc = self_call(st.value, "walk")
                if sc and len(sc[1].args) == 1 and not sc[1].keywords and isinstance(nxt, ast.If) \
                        and not nxt.orelse and ast.unparse(nxt.test) == var and is_raise_generr(nxt.body):
                    cl = self.r.classes_of(sc[1].args[0], ns, where)
                    rules.append("GNoDescendant %s" % coq_kinds(self.r.kinds(cl, where)))
                    i += 2
                    continue
                # parent_routine = self.ancestor(Routine) ; if not (self.ancestor(T, limit=parent_routine) or
                #    (parent_routine and parent_routine.walk(W))): ...; raise
                ac = ancestor_call(st.value, allowed_kw=())
                if ac and self.r.is_class(ac[0], ns, "Routine", where) and isinstance(nxt, ast.If) and not nxt.orelse:
                    rules.append(self.acc_loop_ctx(var, nxt, ns, where))
                    i += 2
                    continue
            raise TranslateError("%s: unrecognised statement: %s" % (where, ast.unparse(st).split("\n")[0]))
        return rules

    def check_loop_name(self, ns, where):
        from psyclone.psyir.nodes import Loop
        if ns.get("Loop") is not Loop:
            raise TranslateError("%s: the name Loop does not denote psyir.nodes.Loop" % where)

    def anc_rule(self, ctor, ac, ns, where):
        types = self.r.kinds(self.r.classes_of(ac[0], ns, where), where)
        excl = []
        if "excluding" in ac[1]:
            excl = self.r.kinds(self.r.classes_of(ac[1]["excluding"], ns, where), where)
        return "%s %s %s" % (ctor, coq_kinds(types), coq_kinds(excl))

    def single_loop_rules(self, meth, where):
        body = strip_doc(func_ast(meth).body)
        out = []
        for st in body:
            if not (isinstance(st, ast.If) and not st.orelse and is_raise_generr(st.body)):
                raise TranslateError("%s: _validate_single_loop: unrecognised statement %s"
                                     % (where, ast.unparse(st).split("\n")[0]))
            txt = ast.unparse(st.test)
            if txt == "len(self.dir_body.children) != 1":
                out.append("GBodyLenOne")
            elif txt in ("not isinstance(self.dir_body[0], Loop)", "not isinstance(self.dir_body.children[0], Loop)"):
                self.check_loop_name(meth.__globals__, where)
                out.append("GFirstIsLoop")
            else:
                raise TranslateError("%s: _validate_single_loop: unrecognised test %s" % (where, txt))
        return out

    def collapse_rules(self, body, ns, where):
        """[] (method body without statements) or
        [if self._collapse: cursor = self.dir_body.children[0]; for depth in range(self._collapse):
             [if A or B: raise GenerationError]; cursor = cursor.loop_body.children[0]]"""
        if not body:
            return []
        if len(body) != 1 or not isinstance(body[0], ast.If) or body[0].orelse \
                or ast.unparse(body[0].test) != "self._collapse":
            raise TranslateError("%s: collapse validation: expected a single `if self._collapse:`" % where)
        inner = body[0].body
        if len(inner) != 2 or ast.unparse(inner[0]) != "cursor = self.dir_body.children[0]" \
                or not isinstance(inner[1], ast.For) or inner[1].orelse \
                or ast.unparse(inner[1].iter) != "range(self._collapse)" \
                or not isinstance(inner[1].target, ast.Name):
            raise TranslateError("%s: collapse validation: unrecognised cursor loop" % where)
        fb = inner[1].body
        atoms = []
        # any number of `if <atom> [or <atom>]: raise GenerationError(...)` tests, then the cursor step
        while len(fb) > 1:
            test_st = fb[0]
            if not (isinstance(test_st, ast.If) and not test_st.orelse and is_raise_generr(test_st.body)):
                raise TranslateError("%s: collapse validation: unrecognised test statement" % where)
            t = test_st.test
            parts = t.values if (isinstance(t, ast.BoolOp) and isinstance(t.op, ast.Or)) else [t]
            for p in parts:
                txt = ast.unparse(p)
                if txt == "len(cursor.parent.children) != 1":
                    atoms.append("CNotOnlyChild")
                elif txt == "not isinstance(cursor, Loop)":
                    self.check_loop_name(ns, where)
                    atoms.append("CNotLoop")
                else:
                    raise TranslateError("%s: collapse validation: unrecognised test %s" % (where, txt))
            fb = fb[1:]
        if len(fb) != 1 or ast.unparse(fb[0]) != "cursor = cursor.loop_body.children[0]":
            raise TranslateError("%s: collapse validation: unrecognised cursor step" % where)
        return ["GCollapse [%s]" % "; ".join(atoms)]

    def acc_loop_ctx(self, var, ifst, ns, where):
        t = ifst.test
        ok = isinstance(t, ast.UnaryOp) and isinstance(t.op, ast.Not) and isinstance(t.operand, ast.BoolOp) \
            and isinstance(t.operand.op, ast.Or) and len(t.operand.values) == 2
        if not ok or not is_raise_generr(ifst.body, allow_assign_prefix=True):
            raise TranslateError("%s: unrecognised ACC loop context test" % where)
        first, second = t.operand.values
        ac = ancestor_call(first, allowed_kw=("limit",))
        if not ac or "limit" not in ac[1] or ast.unparse(ac[1]["limit"]) != var:
            raise TranslateError("%s: unrecognised ancestor test in ACC loop context" % where)
        if not (isinstance(second, ast.BoolOp) and isinstance(second.op, ast.And) and len(second.values) == 2
                and ast.unparse(second.values[0]) == var and isinstance(second.values[1], ast.Call)
                and ast.unparse(second.values[1].func) == var + ".walk" and len(second.values[1].args) == 1
                and not second.values[1].keywords):
            raise TranslateError("%s: unrecognised routine walk in ACC loop context" % where)
        types = self.r.kinds(self.r.classes_of(ac[0], ns, where), where)
        walked = self.r.kinds(self.r.classes_of(second.values[1].args[0], ns, where), where)
        return "GAccLoopCtx %s %s" % (coq_kinds(types), coq_kinds(walked))


# ------------------------------------------------------------------ dynamic part
def _nest2():
    from psyclone.psyir.frontend.fortran import FortranReader
    from psyclone.psyir.nodes import Loop
    psyir = FortranReader().psyir_from_source(
        "subroutine s(a)\n real :: a(4,4)\n integer :: i, j\n do i=1,4\n  do j=1,4\n   a(i,j)=1.0\n  enddo\n enddo\n"
        "end subroutine s\n")
    return psyir, psyir.walk(Loop)[0]


def created_and_collapse(tname):
    """(class name of the inserted directive, collapse behaviour: CKeep | CDrop | CCrash)"""
    from psyclone.psyir.nodes import Directive
    psyir, loop = _nest2()
    tr = make_trans(tname)
    if tname in LOOP_TRANS:
        tr.apply(loop, {"force": True})
    else:
        tr.apply([loop])
    new = loop.parent.parent
    if not isinstance(new, Directive):
        raise TranslateError("%s did not wrap its target in a directive (%s)" % (tname, type(new).__name__))
    created = type(new).__name__
    eff = "CDrop"
    if tname in LOOP_TRANS:
        psyir, loop = _nest2()
        try:
            make_trans(tname).apply(loop, {"force": True, "collapse": 2})
            new2 = loop.parent.parent
            val = getattr(new2, "collapse", None)
            if val == 2:
                eff = "CKeep"
            elif val in (None, 0, False):
                eff = "CDrop"
            else:
                raise TranslateError("%s: collapse=2 became %r" % (tname, val))
        except TranslateError:
            raise
        except Exception:   # noqa  (NotImplementedError of OMPTaskloopTrans._directive)
            eff = "CCrash"
    return created, eff


def generate(out=None):
    """Write coq/C10/Gen.v; returns (changed, notes).  Raises TranslateError when the code no longer has
    a recognised shape."""
    out = Path(out) if out else core.COQ / "C10" / "Gen.v"
    res = Resolver()
    ex = RuleExtractor(res)
    lines = ["(* GENERATED by props/C10/translate.py from the PSyclone working tree -- do not edit *)",
             "From Coq Require Import List.", "Import ListNotations.", "From PV Require Import C10.Kinds.", ""]
    # gen_rules
    lines.append("Definition gen_rules (k : nkind) : list grule :=\n  match k with")
    inv = {v: k for k, v in DKINDS.items()}
    inv_s = {v: k for k, v in SKINDS.items()}
    for coq, cls in res.model:
        if not (coq.startswith("ND ") or coq.startswith("NS ")):
            # Routine, Loop, IfBlock, Assignment, Return, CodeBlock: must have no constraints
            rules = ex.rules_for_class(cls)
            if rules:
                raise TranslateError("%s has global constraints %s; not modelled" % (cls.__name__, rules))
            continue
        rules = ex.rules_for_class(cls)
        lines.append("  | %s => [%s]" % (coq, "; ".join(rules)))
    lines.append("  | _ => []\n  end.\n")
    # excluded_node_types
    lines.append("Definition excluded_tab (t : trans) : list nkind :=\n  match t with")
    for t in TRANS:
        tr = make_trans(t)
        ent = getattr(type(tr), "excluded_node_types", None)
        if ent is None and t in ("TACCEnterData", "TACCRoutine"):
            ent = ()
        if not isinstance(ent, tuple) or not all(isinstance(c, type) for c in ent):
            raise TranslateError("%s.excluded_node_types is not a tuple of classes: %r" % (type(tr).__name__, ent))
        lines.append("  | %s => %s" % (t, coq_kinds(res.kinds(ent, type(tr).__name__ + ".excluded_node_types"))))
    lines.append("  end.\n")
    # created directive + collapse behaviour
    lines.append("Definition created_tab (t : trans) : option dkind :=\n  match t with")
    effs = {}
    for t in LOOP_TRANS + REGION_TRANS:
        created, eff = created_and_collapse(t)
        if created not in inv:
            raise TranslateError("%s creates an unmodelled directive %s" % (t, created))
        effs[t] = eff
        lines.append("  | %s => Some %s" % (t, inv[created]))
    lines.append("  | TACCEnterData => None\n  | TACCRoutine => None\n  end.\n")
    lines.append("Inductive ceffect := CKeep | CDrop | CCrash.\n")
    lines.append("Definition collapse_tab (t : trans) : ceffect :=\n  match t with")
    for t in LOOP_TRANS:
        lines.append("  | %s => %s" % (t, effs[t]))
    lines.append("  | _ => CDrop\n  end.\n")
    for n in sorted(set(res.notes)):
        lines.append("(* note: %s *)" % n.replace("*)", "* )"))
    text = "\n".join(lines) + "\n"
    changed = core.write_if_changed(out, text)
    return changed, sorted(set(res.notes))


if __name__ == "__main__":
    ch, notes = generate()
    print("Gen.v %s" % ("rewritten" if ch else "unchanged"))
    for n in notes:
        print("note:", n)
