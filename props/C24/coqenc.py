"""C24 -- encode a source invoke + what was observed in the generated layers as a Coq term of
type C24.Model.case."""
from vlib import core

HEADER = ("From PV Require Import C24.Model.\nRequire Import Coq.Strings.String. Open Scope string_scope.\n"
          "Import ListNotations.")

RESERVED = ["stencil_1dx", "stencil_1dy", "stencil_cross", "stencil_2d_cross", "stencil_region",
            "omp_get_thread_num", "omp_get_max_threads"]


def canon_key(inv):
    return (bool(inv["label"]), tuple((k["kname"].lower(), tuple(a["canon"] for a in k["args"])) for k in inv["kernels"]))


def sarg(a):
    if a["lit"]:
        return "(SLit %s)" % core.coq_str(a["raw"])
    comps = ["(%s, %s)" % (core.coq_str(n), "None" if ix is None else "Some %s" % core.coq_str(ix))
             for n, ix in a["rawcomps"]]
    return "(SRef %s)" % core.coq_list(comps)


def kcall(k):
    slots, qrs, i = [], [], 0
    for lay in k["layout"]:
        if lay in ("Sr", "Si", "Sw", "F"):
            slots.append("Plain %s" % sarg(k["args"][i]))
            i += 1
        elif lay in ("Fc", "F1"):
            slots.append("Sten %s %s None" % (sarg(k["args"][i]), sarg(k["args"][i + 1])))
            i += 2
        elif lay == "Fx":
            slots.append("Sten %s %s (Some %s)" % (sarg(k["args"][i]), sarg(k["args"][i + 1]), sarg(k["args"][i + 2])))
            i += 3
        elif lay == "Q":
            qrs.append(sarg(k["args"][i]))
            i += 1
        else:
            raise ValueError(lay)
    return "{| k_builtin := %s; k_slots := %s; k_qr := %s |}" % (
        "true" if k["builtin"] else "false", core.coq_list(slots), core.coq_list(qrs))


def strs(l):
    return core.coq_list(core.coq_str("?" if x is None else x) for x in l)


def coq_case(inv, obs):
    pre = [obs["name"]] + RESERVED
    return "(%s, %s, %s, %s, %s)" % (strs(pre), core.coq_list(kcall(k) for k in inv["kernels"]),
                                     strs(obs["actuals"]), strs(obs["dummies"] or []),
                                     core.coq_list(strs(n) for n in obs["knames"]))
