"""C24 -- generator of LFRic algorithm files (structured, seeded).

A *source argument* is a dict
    {"kind": field|real|int|extent|direction|qr, "lit": bool,
     "comps": [(name, index-text or None), ...]   (non-literal: the structure a%b(i)%c)
     "littext": "1.0_r_def"                        (literal)
     "raw":   the spelling written in the file (random case / blanks),
     "canon": lower-case, blank-free text  (what the source says, modulo case/spacing),
     "root":  the names of the components joined by "_" (parse.algorithm.create_var_name)}
A kernel call is {"kname", "builtin": bool, "args": [source arguments in source order],
                  "layout": [...]} ; an invoke is {"label": str|None, "label_pos": int, "kernels": [...]};
a file is {"unit": program|module, "routines": [[item, ...], ...]} where an item is
("invoke", invoke, wrapper) or ("other", text).
"""

# ---------------------------------------------------------------- kernel tables
# layout letters: Sr real scalar, Si integer scalar, F field, Fc field+cross stencil (extent follows),
# Fx field + xory1d stencil (extent, direction follow), F1 field + x1d stencil (extent follows); Q quadrature (last)
USER_KERNELS = {
    "testkern_type": ("testkern_mod", "testkern_code", ["Sr", "F", "F", "F", "F"]),
    "testkern_one_int_scalar_type": ("testkern_one_int_scalar_mod", "testkern_one_int_scalar_code",
                                     ["F", "Si", "F", "F", "F"]),
    "testkern_qr_type": ("testkern_qr_mod", "testkern_qr_code", ["F", "F", "F", "Sr", "F", "Si", "Q"]),
    "testkern_stencil_type": ("testkern_stencil_mod", "testkern_stencil_code", ["F", "Fc", "F", "F"]),
    "testkern_stencil_xory1d_type": ("testkern_stencil_xory1d_mod", "testkern_stencil_xory1d_code",
                                     ["F", "Fx", "F", "F"]),
    "testkern_stencil_multi_type": ("testkern_stencil_multi_mod", "testkern_stencil_multi_code",
                                    ["F", "Fc", "Fx", "F1"]),
}
KERNEL_FILES = ["testkern_mod.F90", "testkern_one_int_scalar_mod.f90", "testkern_qr_mod.F90",
                "testkern_stencil_mod.f90", "testkern_stencil_xory1d_mod.f90", "testkern_stencil_multi_mod.f90"]

# built-in: argument kinds (source order), documented form of the lowered statement ({i} = argument i;
# a field argument f is rendered f_data(df)), W = positions written
BUILTINS = {
    "setval_c": (["F", "Sr"], "{0} = {1}"),
    "setval_X": (["F", "F"], "{0} = {1}"),
    "X_plus_Y": (["F", "F", "F"], "{0} = {1} + {2}"),
    "inc_X_plus_Y": (["F", "F"], "{0} = {0} + {1}"),
    "X_minus_Y": (["F", "F", "F"], "{0} = {1} - {2}"),
    "inc_X_minus_Y": (["F", "F"], "{0} = {0} - {1}"),
    "aX_plus_Y": (["F", "Sr", "F", "F"], "{0} = {1} * {2} + {3}"),
    "inc_aX_plus_Y": (["Sr", "F", "F"], "{1} = {0} * {1} + {2}"),
    "aX_plus_bY": (["F", "Sr", "F", "Sr", "F"], "{0} = {1} * {2} + {3} * {4}"),
    "inc_aX_plus_bY": (["Sr", "F", "Sr", "F"], "{1} = {0} * {1} + {2} * {3}"),
    "a_times_X": (["F", "Sr", "F"], "{0} = {1} * {2}"),
    "inc_a_times_X": (["Sr", "F"], "{1} = {0} * {1}"),
    "X_times_Y": (["F", "F", "F"], "{0} = {1} * {2}"),
    "inc_X_times_Y": (["F", "F"], "{0} = {0} * {1}"),
    "X_divideby_Y": (["F", "F", "F"], "{0} = {1} / {2}"),
    "inc_X_divideby_Y": (["F", "F"], "{0} = {0} / {1}"),
    "inc_X_plus_bY": (["F", "Sr", "F"], "{0} = {0} + {1} * {2}"),
    "X_minus_bY": (["F", "F", "Sr", "F"], "{0} = {1} - {2} * {3}"),
    "aX_minus_Y": (["F", "Sr", "F", "F"], "{0} = {1} * {2} - {3}"),
    "inc_X_minus_bY": (["F", "Sr", "F"], "{0} = {0} - {1} * {2}"),
    "a_plus_X": (["F", "Sr", "F"], "{0} = {1} + {2}"),
    "inc_a_plus_X": (["Sr", "F"], "{1} = {0} + {1}"),
    "X_minus_a": (["F", "F", "Sr"], "{0} = {1} - {2}"),
    "a_minus_X": (["F", "Sr", "F"], "{0} = {1} - {2}"),
    "inc_aX_times_Y": (["Sr", "F", "F"], "{1} = {0} * {1} * {2}"),
    "X_innerproduct_Y": (["Sw", "F", "F"], "{0} = {0} + {1} * {2}"),
    "sum_X": (["Sw", "F"], "{0} = {0} + {1}"),
}
BUILTINS_LC = {k.lower(): v for k, v in BUILTINS.items()}

# ---------------------------------------------------------------- argument pools
# (comps) ; the declarations below give every last component a type so that built-ins resolve
FIELD_POOL = [
    [("f1", None)], [("f2", None)], [("f3", None)], [("m1", None)], [("m2", None)],
    [("fa", "1")], [("fa", "2")], [("fa", "3")], [("fa", "i")], [("fa", "j")], [("fa", "idx")], [("fa", "jdx")],
    [("fb", "1,2")], [("fb", "i,j")], [("fb", "2,1")], [("fb", "idx,jdx")],
    [("obj", None), ("f", None)], [("obj", None), ("v", "1")], [("obj", None), ("v", "i")],
    [("obj", None), ("g", "2"), ("f", None)], [("obj", None), ("g", "i"), ("f", None)],
    [("obj", None), ("g", "1"), ("h", "2")], [("objs", "1"), ("f", None)], [("objs", "2"), ("f", None)],
    [("obj_f", None)], [("fa_1", None)], [("obj_g_f", None)], [("f1_1", None)],
    [("cell", None)], [("df", None)], [("nlayers", None)], [("map_w1", None)], [("f1_data", None)],
]
REAL_POOL = [[("a", None)], [("b", None)], [("sc", "1")], [("sc", "2")], [("sc", "i")], [("sc", "idx")],
             [("obj", None), ("s", None)], [("obj", None), ("t", "1")], [("obj_s", None)], [("sc_1", None)]]
REAL_LITS = ["1.0_r_def", "0.5_r_def", "2.0_r_def", "-1.0_r_def", "3.0e0_r_def"]
INT_POOL = [[("istp", None)], [("n", None)], [("ns", "2")], [("obj", None), ("n", None)], [("ns", "i")]]
INT_LITS = ["3_i_def", "2", "7_i_def"]
EXT_POOL = [[("ext", None)], [("exts", "1")], [("exts", "2")], [("exts", "i")], [("obj", None), ("ext", None)],
            [("obj", None), ("exts", "2")], [("n", None)], [("obj_ext", None)], [("exts_1", None)]]
EXT_LITS = ["1", "2"]
DIR_POOL = [[("dir", None)], [("dirs", "1")], [("dirs", "2")], [("obj", None), ("dir", None)], [("obj_dir", None)]]
DIR_CONST = ["x_direction", "y_direction"]
QR_POOL = [[("qr", None)], [("qr2", None)], [("qrs", "1")], [("qrs", "2")], [("obj", None), ("qr", None)],
           [("obj_qr", None)]]

DECLS = """\
  type :: inner_type
    type(field_type) :: f
    type(field_type) :: h(2)
  end type inner_type
  type :: some_type
    type(field_type) :: f
    type(field_type) :: v(3)
    type(inner_type) :: g(3)
    real(r_def) :: s
    real(r_def) :: t(2)
    integer(i_def) :: n, ext, dir, exts(2)
    type(quadrature_xyoz_type) :: qr
  end type some_type
"""
VAR_DECLS = """\
  type(field_type) :: f1, f2, f3, m1, m2, fa(3), fb(2,2), obj_f, fa_1, obj_g_f, f1_1
  type(field_type) :: cell, df, nlayers, map_w1, f1_data
  type(some_type) :: obj, objs(2)
  real(r_def) :: a, b, sc(2), obj_s, sc_1
  integer(i_def) :: istp, n, ns(3), ext, exts(2), obj_ext, exts_1, dir, dirs(2), obj_dir, i, j, idx, jdx, marker
  type(quadrature_xyoz_type) :: qr, qr2, qrs(2), obj_qr
"""


def canon_of(comps):
    return "%".join(n + ("(%s)" % ix if ix is not None else "") for n, ix in comps).replace(" ", "").lower()


def root_of(comps):
    return "_".join(n for n, _ in comps).lower()


def _case(rng, s):
    mode = rng.choice(["same", "same", "upper", "cap", "mixed"])
    if mode == "same":
        return s
    if mode == "upper":
        return s.upper()
    if mode == "cap":
        return s[:1].upper() + s[1:]
    return "".join(c.upper() if rng.random() < 0.5 else c for c in s)


def _sp(rng):
    return rng.choice(["", "", "", " ", "  "])


def spell(rng, comps):
    """a random spelling (case, blanks) of the reference; the meaning is unchanged.
    -> (text as written, [(name as written, index text as written or None)])"""
    parts, rawcomps = [], []
    for n, ix in comps:
        t = _case(rng, n)
        ixr = None
        if ix is not None:
            ixr = "%s%s%s" % (_sp(rng), ("%s,%s" % (_sp(rng), _sp(rng))).join(_case(rng, x) for x in ix.split(",")),
                              _sp(rng))
            parts.append("%s%s(%s)" % (t, _sp(rng), ixr))
        else:
            parts.append(t)
        rawcomps.append([t, ixr])
    return ("%s%%%s" % (_sp(rng), _sp(rng))).join(parts), rawcomps


def mkref(rng, kind, comps):
    raw, rawcomps = spell(rng, comps)
    return {"kind": kind, "lit": False, "comps": [list(c) for c in comps], "raw": raw, "rawcomps": rawcomps,
            "canon": canon_of(comps), "root": root_of(comps)}


def mklit(rng, kind, text):
    head, sep, kindsfx = text.partition("_")          # the kind suffix must stay lower-case (LFRic precision names)
    return {"kind": kind, "lit": True, "littext": text, "raw": _case(rng, head) + sep + kindsfx, "canon": text.lower(),
            "root": None, "comps": []}


# "themed" invokes concentrate kernels of one family and arguments that differ only in their index
THEME_POOLS = {"qr": [[("qrs", "1")], [("qrs", "2")], [("qr", None)], [("obj", None), ("qr", None)]],
               "extent": [[("exts", "1")], [("exts", "2")], [("exts", "i")], [("exts", "idx")], [("ext", None)], [("obj", None), ("exts", "2")]],
               "direction": [[("dirs", "1")], [("dirs", "2")], [("dir", None)]]}
THEME_KERNELS = {"qr": ["testkern_qr_type"],
                 "stencil": ["testkern_stencil_type", "testkern_stencil_xory1d_type", "testkern_stencil_multi_type"]}


class Gen:
    def __init__(self, rng, builtins_only=False, adversarial=0.15, field_pool=None):
        self.rng = rng
        self.field_pool = field_pool or FIELD_POOL
        self.builtins_only = builtins_only
        self.adv = adversarial
        self.labels = set()
        self.theme = None

    # ---- argument choice; `used` = canon texts already in this kernel call (PSyclone refuses repeats)
    def pick(self, kind, used, inv_pool, allow_lit=True):
        rng = self.rng
        pool, lits = {"field": (self.field_pool, []), "real": (REAL_POOL, REAL_LITS), "int": (INT_POOL, INT_LITS),
                      "extent": (EXT_POOL, EXT_LITS), "direction": (DIR_POOL, DIR_CONST),
                      "qr": (QR_POOL, [])}[kind]
        if kind == "field" and rng.random() > self.adv:
            pool = pool[:-5]                     # names that collide with PSy-layer internals: rarely
        if self.theme and kind in THEME_POOLS and rng.random() < 0.8:
            pool, lits = THEME_POOLS[kind], []
        for _ in range(200):
            if lits and allow_lit and rng.random() < 0.25:
                a = mklit(rng, kind, rng.choice(lits))
                if kind == "direction":          # x_direction / y_direction are names, not literals
                    a = mkref(rng, kind, [(a["littext"], None)])
                    a["const"] = True
                return a
            # prefer re-using something already in this invoke (repeats across kernels)
            prev = [p for p in inv_pool if p["kind"] == kind and not p["lit"] and p["canon"] not in used
                    and not p.get("const")]
            if prev and rng.random() < 0.45:
                comps = [tuple(c) for c in rng.choice(prev)["comps"]]
            else:
                comps = rng.choice(pool)
            a = mkref(rng, kind, comps)
            if a["canon"] not in used:
                return a
        raise RuntimeError("pool exhausted")

    def kernel(self, inv_pool):
        rng = self.rng
        if self.theme and not self.builtins_only and rng.random() < 0.75:
            kname = rng.choice(THEME_KERNELS[self.theme])
            kinds = USER_KERNELS[kname][2]
            builtin = False
        elif self.builtins_only or rng.random() < 0.45:
            kname = rng.choice(sorted(BUILTINS))
            kinds = BUILTINS[kname][0]
            builtin = True
        else:
            kname = rng.choice(sorted(USER_KERNELS))
            kinds = USER_KERNELS[kname][2]
            builtin = False
        args, used = [], set()

        def add(kind, allow_lit=True):
            a = self.pick(kind, used, inv_pool, allow_lit)
            if not a["lit"]:
                used.add(a["canon"])
            args.append(a)
            inv_pool.append(a)
        for k in kinds:
            if k in ("F", "Fc", "Fx", "F1"):
                add("field")
                if k != "F":
                    add("extent")
                if k == "Fx":
                    add("direction")
            elif k == "Sr":
                add("real")
            elif k == "Sw":
                add("real", allow_lit=False)
            elif k == "Si":
                add("int")
            elif k == "Q":
                add("qr")
        # spell the kernel name with random case too
        return {"kname": kname, "kraw": _case(rng, kname) if rng.random() < 0.3 else kname,
                "builtin": builtin, "args": args, "layout": list(kinds)}

    def invoke(self, nk=None):
        rng = self.rng
        nk = nk or rng.choice([1, 1, 2, 2, 3, 4])
        self.theme = None if self.builtins_only else rng.choice([None, None, None, "qr", "stencil"])
        if self.theme:
            nk = max(nk, 2)
        pool = []
        kernels = [self.kernel(pool) for _ in range(nk)]
        label = None
        if rng.random() < 0.4:
            for _ in range(50):
                label = rng.choice(["first", "Second_One", "UPDATE", "step_2", "a", "compute", "x1", "Zz"])
                if label.lower() not in self.labels:
                    break
                label = None
            if label:
                self.labels.add(label.lower())
        return {"label": label, "label_pos": rng.randrange(0, nk + 1), "kernels": kernels}

    def file(self, ninv=None):
        rng = self.rng
        self.labels = set()
        ninv = ninv or rng.choice([1, 1, 2, 2, 3])
        unit = "program" if self.builtins_only else rng.choice(["program", "module", "module"])
        nrout = 1 if unit == "program" else rng.choice([1, 2, 2])
        routines = [[] for _ in range(nrout)]
        for k in range(ninv):
            r = routines[min(k * nrout // ninv, nrout - 1)]
            if rng.random() < 0.4 and not self.builtins_only:
                r.append(("other", rng.choice(["call other_thing(a, n)", "marker = marker + 1",
                                               "call invoke_helper(f1)", "call obj%method(istp)"])))
            wrap = "plain" if self.builtins_only else rng.choice(["plain", "plain", "plain", "ifblock", "do", "ifstmt", "else"])
            r.append(("invoke", self.invoke(), wrap))
        return {"unit": unit, "routines": routines}


# ---------------------------------------------------------------- Fortran text
def invoke_text(inv, indent="    "):
    items = []
    for k in inv["kernels"]:
        items.append("%s(%s)" % (k["kraw"], ", ".join(a["raw"] for a in k["args"])))
    if inv["label"]:
        items.insert(inv["label_pos"], 'name = "%s"' % inv["label"])
    return "call invoke( &\n" + (", &\n".join(indent + "    " + it for it in items)) + " )"


def file_text(spec, name="c24_alg"):
    used_k = sorted({k["kname"] for r in spec["routines"] for it in r if it[0] == "invoke"
                     for k in it[1]["kernels"] if not k["builtin"]})
    uses = ["  use constants_mod, only: r_def, i_def", "  use field_mod, only: field_type",
            "  use quadrature_xyoz_mod, only: quadrature_xyoz_type",
            "  use flux_direction_mod, only: x_direction, y_direction"]
    for k in used_k:
        uses.append("  use %s, only: %s" % (USER_KERNELS[k][0], k))
    out = []

    def body(items, ind):
        lines = []
        for it in items:
            if it[0] == "other":
                lines.append(ind + it[1])
                continue
            _, inv, wrap = it
            txt = invoke_text(inv, ind)
            if wrap == "plain":
                lines.append(ind + txt)
            elif wrap == "ifblock":
                lines += [ind + "if (marker > 0) then", ind + "  " + txt, ind + "end if"]
            elif wrap == "else":
                lines += [ind + "if (marker > 0) then", ind + "  marker = 0", ind + "else", ind + "  " + txt, ind + "end if"]
            elif wrap == "do":
                lines += [ind + "do i = 1, 2", ind + "  " + txt, ind + "end do"]
            elif wrap == "ifstmt":
                lines.append(ind + "if (marker == 3) " + txt)
        return lines
    if spec["unit"] == "program":
        out.append("program %s" % name)
        out += uses + ["  implicit none", DECLS.rstrip("\n"), VAR_DECLS.rstrip("\n")]
        out += body(spec["routines"][0], "  ")
        out.append("end program %s" % name)
    else:
        out.append("module %s_mod" % name)
        out += uses + ["  implicit none", DECLS.rstrip("\n"), "contains"]
        for ri, items in enumerate(spec["routines"]):
            out.append("  subroutine sub%d()" % ri)
            out.append(VAR_DECLS.rstrip("\n"))
            out += body(items, "    ")
            out.append("  end subroutine sub%d" % ri)
        out.append("end module %s_mod" % name)
    return "\n".join(out) + "\n"


def invokes_of(spec):
    return [it[1] for r in spec["routines"] for it in r if it[0] == "invoke"]
