"""C24 -- read the two generated layers back and evaluate the property on them.

alg_calls(text)      -> [(routine name, [actual texts])] in text order (the generated `CALL invoke_...`)
psy_routines(text)   -> {name: Routine}; a Routine has .dummies, .defs (name -> [rhs texts]) and
                        .kernels = [("call", code name, [actuals]) | ("assign", lhs, rhs)] in schedule order
check_invoke(...)    -> (problems, observed) : the property itself, position by position.
"""
import re

from gen import BUILTINS_LC, USER_KERNELS

IDENT = re.compile(r"[A-Za-z_]\w*")


def norm(s):
    return re.sub(r"\s+", "", s).lower()


def join_continuations(text):
    """free-form continuation lines ('&' at end, optional '&' at start of the next line) -> one line"""
    out, cur = [], ""
    for line in text.split("\n"):
        s = line.rstrip()
        if cur:
            s2 = s.lstrip()
            if s2.startswith("&"):
                s2 = s2[1:]
            s = cur + s2
            cur = ""
        if s.rstrip().endswith("&"):
            cur = s.rstrip()[:-1]
            continue
        out.append(s)
    if cur:
        out.append(cur)
    return out


def split_args(s):
    """split at top-level commas"""
    args, depth, cur = [], 0, ""
    for c in s:
        if c == "(":
            depth += 1
        elif c == ")":
            depth -= 1
        if c == "," and depth == 0:
            args.append(cur.strip())
            cur = ""
        else:
            cur += c
    if cur.strip() or args:
        args.append(cur.strip())
    return args


def _call_parts(stmt):
    """'CALL name(args)' -> (name, [args]) ; balanced parentheses"""
    m = re.match(r"\s*call\s+([\w%]+)\s*\((.*)\)\s*$", stmt, re.I)
    if not m:
        m2 = re.match(r"\s*call\s+([\w%]+)\s*$", stmt, re.I)
        return (m2.group(1), []) if m2 else None
    return m.group(1), split_args(m.group(2))


def alg_calls(text):
    """the generated algorithm layer: every remaining CALL statement, in order, as
    (name lower, [actuals]); includes non-invoke calls (the caller filters by PSy routine names)."""
    res = []
    for line in join_continuations(text):
        s = line.strip()
        m = re.match(r"(?:if\s*\(.*?\)\s*)?(call\s+.*)$", s, re.I)
        if not m or s.startswith("!"):
            continue
        cp = _call_parts(m.group(1))
        if cp:
            res.append((cp[0].lower(), cp[1]))
    return res


class Routine:
    def __init__(self, name, dummies):
        self.name, self.dummies = name, dummies
        self.defs = {}          # lower name -> list of rhs strings
        self.kernels = []       # in order
        self.decl_names = set()


def psy_routines(text):
    lines = join_continuations(text)
    routs, cur, loop_depth = {}, None, 0
    order, loopvars = [], []
    for line in lines:
        s = line.strip()
        if not s or s.startswith("!"):
            continue
        m = re.match(r"subroutine\s+(\w+)\s*\((.*)\)\s*$", s, re.I)
        if m:
            cur = Routine(m.group(1).lower(), [norm(a) for a in split_args(m.group(2))])
            if cur.name in routs:
                raise ValueError("duplicate PSy routine " + cur.name)
            routs[cur.name] = cur
            order.append(cur.name)
            loop_depth = 0
            continue
        if re.match(r"end\s+subroutine", s, re.I):
            cur = None
            continue
        if cur is None:
            continue
        m = re.match(r"do\s+(\w+)\s*=", s, re.I)
        if m:
            loop_depth += 1
            loopvars.append(m.group(1).lower())
            continue
        if re.match(r"end\s*do", s, re.I):
            loop_depth -= 1
            loopvars.pop()
            continue
        if re.match(r"call\s", s, re.I):
            cp = _call_parts(s)
            if cp and loop_depth > 0 and "%" not in cp[0]:
                cur.kernels.append(("call", cp[0].lower(), cp[1]))
            continue
        m = re.match(r"(?:[\w(),= ]*::\s*)(.*)$", s) if "::" in s else None
        if m:
            for ent in split_args(m.group(1)):
                mm = IDENT.match(ent.strip())
                if mm:
                    cur.decl_names.add(mm.group(0).lower())
            continue
        m = re.match(r"([A-Za-z_]\w*(?:\([^=]*\))?)\s*(=>|=)\s*(.*)$", s)
        if m and not re.match(r"(if|else|end|use|do)\b", s, re.I):
            lhs, rhs = m.group(1), m.group(3)
            if loop_depth > 0:
                cur.kernels.append(("assign", lhs, rhs, loopvars[-1]))
            else:
                cur.defs.setdefault(IDENT.match(lhs).group(0).lower(), []).append(rhs.strip())
    return routs, order


def strip_parens(t):
    while t.startswith("(") and t.endswith(")"):
        t = t[1:-1]
    return t


def lead_ident(expr):
    m = IDENT.match(expr.strip())
    return m.group(0).lower() if m else None


def is_literal(tok):
    return bool(re.match(r"^[+-]?\s*\d", tok.strip()))


def chase(r, name, seen=()):
    """the PSy dummy (or None) that the local `name` is derived from: follow the leading identifier
    of every definition; all definitions must agree."""
    name = name.lower()
    if name in r.dummies:
        return name
    if name in seen or name not in r.defs:
        return None
    roots = set()
    for rhs in r.defs[name]:
        if rhs.lower().startswith("null("):
            continue
        li = lead_ident(rhs)
        roots.add(chase(r, li, seen + (name,)) if li else None)
    return roots.pop() if len(roots) == 1 else None


def stencil_extents(r, size_name):
    """the extent expressions used to build the stencil map behind `size_name`"""
    exts, maps = set(), set()
    for rhs in r.defs.get(size_name.lower(), []):
        li = lead_ident(rhs)
        if li:
            maps.add(li)
    for mp in maps:
        for rhs in r.defs.get(mp, []):
            m = re.search(r"get_stencil_dofmap\s*\((.*)\)\s*$", rhs, re.I)
            if m:
                a = split_args(m.group(1))
                exts.add(norm(a[-1]))
            else:
                exts.add(None)
    return exts, maps


def same_shape_fields(inv, shape):
    """texts of the stencil fields of the invoke with this (stencil kind, extent text, direction text)"""
    out = set()
    for k in inv["kernels"]:
        pos = 0
        for lay in k["layout"]:
            n = {"Fc": 2, "F1": 2, "Fx": 3}.get(lay, 1)
            if lay in ("Fc", "F1", "Fx"):
                sh = (lay, k["args"][pos + 1]["canon"], k["args"][pos + 2]["canon"] if lay == "Fx" else None)
                if sh == shape:
                    out.add(k["args"][pos]["canon"])
            pos += n
    return out


def expected_invoke_kernels(inv):
    return [k["kname"].lower() for k in inv["kernels"]]


def check_invoke(inv, call_name, actuals, routs):
    """Evaluate the property for one source invoke against the generated call and PSy routine.
    Returns (problems, obs).  A problem is (code, site, detail dict)."""
    probs = []
    obs = {"name": call_name, "actuals": [norm(a) for a in actuals], "dummies": None, "knames": []}
    r = routs.get(call_name)
    if r is None:
        return [("no-psy-routine", "alg", {"call": call_name})], obs
    obs["dummies"] = list(r.dummies)
    nact = [norm(a) for a in actuals]
    if len(nact) != len(r.dummies):
        probs.append(("length-mismatch", "invoke", {"actuals": nact, "dummies": r.dummies}))
    if len(set(r.dummies)) != len(r.dummies):
        probs.append(("duplicate-dummy", "invoke", {"dummies": r.dummies}))
    # a dummy that is also (re)defined as a proxy / pointer inside the routine = identifier clash
    for d in r.dummies:
        for rhs in r.defs.get(d, []):
            if re.search(r"get_proxy\(\)|%data\b|get_quadrature_proxy|get_stencil", rhs):
                probs.append(("dummy-redefined", "psy-names", {"dummy": d, "rhs": rhs}))
    if len(r.kernels) != len(inv["kernels"]):
        probs.append(("kernel-count", "schedule", {"psy": [k[:2] for k in r.kernels],
                                                   "src": expected_invoke_kernels(inv)}))
        return probs, obs

    def actual_of(dummy):
        if dummy is None or dummy not in r.dummies:
            return None
        p = r.dummies.index(dummy)
        return nact[p] if p < len(nact) else None

    def bind(kidx, pos, arg, tok, via=None):
        """source argument `arg` at (kidx,pos) is represented in the PSy layer by token `tok`"""
        site = {"field": "field", "real": "scalar", "int": "scalar", "extent": "stencil-extent",
                "direction": "stencil-direction", "qr": "quadrature"}[arg["kind"]]
        where = {"kernel": kidx, "position": pos, "source_text": arg["raw"], "psy_token": tok}
        if tok is None:
            probs.append(("untraceable", site, where))
            return None
        if arg["lit"]:
            if strip_parens(norm(tok)) != arg["canon"]:
                probs.append(("literal-changed", site, where))
            return strip_parens(norm(tok))
        if arg.get("const"):
            if norm(tok) != arg["canon"]:
                probs.append(("direction-constant-changed", site, where))
            return norm(tok)
        d = via if via is not None else chase(r, lead_ident(tok) or "")
        if d is None:
            probs.append(("not-bound-to-dummy", site, where))
            return None
        act = actual_of(d)
        where = dict(where, dummy=d, actual=act)
        if act is None:
            probs.append(("no-actual-for-dummy", site, where))
        elif act != arg["canon"]:
            probs.append(("actual-is-not-source-text", site, where))
        return d

    for kidx, (k, pk) in enumerate(zip(inv["kernels"], r.kernels)):
        names = []
        if k["builtin"]:
            if pk[0] != "assign":
                probs.append(("builtin-not-lowered", "schedule", {"kernel": kidx, "psy": pk[:2]}))
                obs["knames"].append(names)
                continue
            tmpl = BUILTINS_LC[k["kname"].lower()][1].split()
            toks = ("%s = %s" % (pk[1], pk[2])).split()
            binding, ok = {}, len(tmpl) == len(toks)
            if ok:
                for tt, at in zip(tmpl, toks):
                    m = re.match(r"\{(\d+)\}$", tt)
                    if m:
                        if binding.setdefault(int(m.group(1)), at) != at:
                            ok = False
                    elif tt != at:
                        ok = False
            if not ok:
                probs.append(("builtin-form", "builtin", {"kernel": kidx, "name": k["kname"],
                                                          "statement": "%s = %s" % (pk[1], pk[2]),
                                                          "documented": " ".join(tmpl)}))
                obs["knames"].append(names)
                continue
            for pos, arg in enumerate(k["args"]):
                tok = binding.get(pos)
                if arg["kind"] == "field":
                    m = re.match(r"(\w+)\((\w+)\)$", tok or "")
                    tok = m.group(1) if m and m.group(2).lower() == pk[3] else None
                names.append(bind(kidx, pos, arg, tok))
        else:
            code = USER_KERNELS[k["kname"]][1]
            if pk[0] != "call" or pk[1] != code.lower():
                probs.append(("wrong-kernel", "schedule", {"kernel": kidx, "psy": pk[:2], "src": code}))
                obs["knames"].append(names)
                continue
            ca = pk[2][1:]                 # drop nlayers
            ci, pos = 0, 0
            try:
                for lay in k["layout"]:
                    if lay == "Q":
                        continue
                    arg = k["args"][pos]
                    fld = bind(kidx, pos, arg, ca[ci])
                    names.append(fld)
                    pos += 1
                    ci += 1
                    if lay in ("Fc", "Fx", "F1"):
                        size_tok = lead_ident(ca[ci])
                        ci += 1
                        exts, maps = stencil_extents(r, size_tok)
                        # the stencil dofmap is a property of (function space, stencil type, extent[, direction]):
                        # PSyclone shares one map between fields that agree on those (stencil_unique_str), so the
                        # map may be built from another stencil field of this invoke with the same shape
                        owner = chase(r, size_tok)
                        shape = (lay, k["args"][pos]["canon"], k["args"][pos + 1]["canon"] if lay == "Fx" else None)
                        if owner != fld and actual_of(owner) not in same_shape_fields(inv, shape):
                            probs.append(("stencil-map-of-unrelated-field", "stencil-extent",
                                          {"kernel": kidx, "position": pos, "map_owner": owner, "field": fld}))
                        ext_tok = exts.pop() if len(exts) == 1 else None
                        earg = k["args"][pos]
                        names.append(bind(kidx, pos, earg, ext_tok,
                                          via=(ext_tok if ext_tok in r.dummies else None) if not earg["lit"] else None))
                        pos += 1
                        if lay == "Fx":
                            names.append(bind(kidx, pos, k["args"][pos], ca[ci]))
                            pos += 1
                            ci += 1
                        ci += 1            # the dofmap
                if "Q" in k["layout"]:
                    qarg = k["args"][pos]
                    qs = {chase(r, lead_ident(t) or "") for t in ca[-4:]}
                    q = qs.pop() if len(qs) == 1 else None
                    names.append(bind(kidx, pos, qarg, ca[-1] if q is not None else None, via=q))
            except IndexError:
                probs.append(("kernel-call-too-short", "schedule", {"kernel": kidx, "call": pk[2]}))
        obs["knames"].append(names)
    return probs, obs
