"""C24 -- generated algorithm layer and PSy layer agree on invoke arguments (DESIGN 5/C24).

Model: coq/C24/{Fresh,Model}.v, theorems coq/Properties/C24.v.  Tie: correspondence.
The harness writes LFRic algorithm files (gen.py), runs psyclone.generator.generate on the tree
under test, reads both generated layers back (extract.py) and
  (1) evaluates the property itself on them, position by position  (the failing-input search);
  (2) encodes what it saw (actual list, dummy list, the dummy every kernel position is bound to) and
      lets the Coq model recompute all three from the source invoke (vm_compute) -- the correspondence.
Thorough tier additionally builds and runs built-in-only invokes on the bundled LFRic infrastructure.
"""
import contextlib
import io
import json
import os
import shutil
import sys
import tempfile
import time
from pathlib import Path

from vlib import core

HERE = Path(__file__).resolve().parent
sys.path.insert(0, str(HERE))
import gen as G          # noqa: E402
import extract as X      # noqa: E402
import coqenc as CE      # noqa: E402

TF = "src/psyclone/tests/test_files/dynamo0p3"
SITE_OF_FINDING = "LFRicStencils.unique_alg_vars"


class Work:
    """scratch copy of the user kernels (a copy of PSyclone files: lives under /var/tmp, removed at exit)"""

    def __init__(self):
        self.root = Path(tempfile.mkdtemp(prefix="C24-", dir="/var/tmp"))
        self.kdir = self.root / "kern"
        self.kdir.mkdir()
        for f in G.KERNEL_FILES:
            shutil.copy(core.REPO / TF / f, self.kdir / f)
        self.n = 0

    def close(self):
        shutil.rmtree(self.root, ignore_errors=True)


def run_generate(work, text, dm, name="c24_alg", psyir=False):
    """-> ("ok", alg text, psy text) | ("refused", exception class name, message).
    psyir=False: the default algorithm generation (alg_gen.Alg); psyir=True: the PSyIR-based one
    (LFRicAlgTrans + LFRicAlgInvoke2PSyCallTrans), selected by generator.LFRIC_TESTING (restored afterwards)."""
    from psyclone import generator
    from psyclone.errors import PSycloneError
    work.n += 1
    path = work.root / ("%s_%d.x90" % (name, work.n))
    path.write_text(text)
    saved = generator.LFRIC_TESTING
    try:
        generator.LFRIC_TESTING = bool(psyir)
        with contextlib.redirect_stdout(io.StringIO()), contextlib.redirect_stderr(io.StringIO()):
            alg, psy = generator.generate(str(path), api="dynamo0.3", kernel_paths=[str(work.kdir)],
                                          distributed_memory=dm)
        return ("ok", str(alg), str(psy))
    except (PSycloneError, NotImplementedError) as err:
        return ("refused", type(err).__name__, str(err)[:300])
    except Exception as err:                               # noqa: BLE001
        if not psyir:
            raise
        # the PSyIR path is not the default one: a crash produces no code, so there is nothing the property
        # could be evaluated on; it is counted (histogram "generate_psyir") and not reported
        return ("refused", "crash:" + type(err).__name__, str(err)[:300])
    finally:
        generator.LFRIC_TESTING = saved
        path.unlink()


PSYIR_DUP = "psyir-path:AlgInvoke2PSyCallTrans._add_arg/repeated-structure-argument-passed-twice"
PSYIR_NAME = "psyir-path:AlgorithmInvokeCall/named-single-kernel-invoke-called-by-index-name"


def evaluate(spec, alg, psy, path="default"):
    """the property on one generated pair.  -> (problems, per-invoke observations).
    path = "default" (alg_gen.Alg) or "psyir" (LFRicAlgTrans + LFRicAlgInvoke2PSyCallTrans): same oracle; on the
    PSyIR path two defects of the unchanged tree are recognised precisely (own reason codes) and the oracle then
    continues on the repaired view so that everything else is still checked."""
    invs = G.invokes_of(spec)
    routs, _ = X.psy_routines(psy)
    calls = [c for c in X.alg_calls(alg) if c[0].startswith("invoke")
             and c[0] not in ("invoke_helper",)]
    probs, obs = [], []
    if len(calls) != len(invs) or len(routs) != len(invs):
        probs.append(("invoke-count", "file", {"alg_calls": [c[0] for c in calls], "psy": sorted(routs),
                                               "source_invokes": len(invs)}))
        return probs, obs
    if len({c[0] for c in calls}) != len(calls):
        probs.append(("invoke-name-reused", "file", {"alg_calls": [c[0] for c in calls]}))
    for i, (inv, (cname, acts)) in enumerate(zip(invs, calls)):
        raw_acts_psyir = list(acts)
        if path == "psyir":
            lab = "invoke_" + inv["label"].lower() if inv["label"] else None
            if cname not in routs and lab in routs and len(inv["kernels"]) == 1 and cname == "invoke_%d" % i:
                probs.append(("psyir-named-single", "alg", {"invoke": i, "called": cname, "psy_routine": lab,
                                                            "source_invoke": G.invoke_text(inv)}))
                cname = lab
            # a structure argument (a%b...) that is repeated in the invoke is passed again (seen with another letter case of
            # a component name and, after a stencil kernel, even with the identical spelling)
            seen, keep, dups = {}, [], []
            for a in acts:
                n = X.norm(a)
                if n in seen and "%" in n:
                    dups.append({"first": seen[n], "again": "".join(a.split())})
                else:
                    seen.setdefault(n, "".join(a.split()))
                    keep.append(a)
            if dups:
                probs.append(("psyir-structure-dup", "alg", {"invoke": i, "passed_twice": dups,
                                                             "actuals": ["".join(a.split()) for a in acts],
                                                             "dummies": routs[cname].dummies if cname in routs else None,
                                                             "source_invoke": G.invoke_text(inv)}))
                acts = keep
        raw_acts = list(acts) if path != "psyir" else raw_acts_psyir
        p, o = X.check_invoke(inv, cname, acts, routs)
        o["raw_actuals"] = raw_acts
        for c, s, d in p:
            if c == "duplicate-dummy":
                dups = sorted({x for x in d["dummies"] if d["dummies"].count(x) > 1})
                sh = shared_stencil_texts(inv)
                if dups and set(dups) <= set(sh):
                    d = dict(d, stencil_arg_also_kernel_arg=dups)
            probs.append((c, s, dict(d, invoke=i)))
        obs.append(o)
    return probs, obs


def classify(code, site, d, path="default"):
    """finding key of a concrete property failure (site/reason-code)"""
    if code == "psyir-structure-dup":
        return PSYIR_DUP
    if code == "psyir-named-single":
        return PSYIR_NAME
    key = classify_default(code, site, d)
    if path == "psyir" and not key.startswith("LFRicInvoke.gen_code/"):      # (that one is a PSy-layer defect)
        key = "psyir-path:" + key
    return key


def classify_default(code, site, d):
    if code == "actual-is-not-source-text" and site in ("stencil-extent", "stencil-direction") \
            and d.get("actual") == d.get("dummy"):
        return "%s/%s-passed-by-psy-name-not-source-text" % (SITE_OF_FINDING, site)
    if code == "duplicate-dummy" and d.get("stencil_arg_also_kernel_arg"):
        return "LFRicInvoke.gen_code/stencil-extent-or-direction-also-kernel-argument-duplicate-dummy"
    return "%s/%s" % (site, code)


def shared_stencil_texts(inv):
    """texts used both as a (non-literal) stencil extent/direction and as an ordinary kernel argument, or both as
    extent and as direction, in one invoke: the implementation lists such a variable twice in the PSy dummy list"""
    sten, plain = {"extent": set(), "direction": set()}, set()
    for k in inv["kernels"]:
        for a in k["args"]:
            if a["lit"] or a.get("const"):
                continue
            if a["kind"] in sten:
                sten[a["kind"]].add(a["canon"])
            else:
                plain.add(a["canon"])
    return sorted(((sten["extent"] | sten["direction"]) & plain) | (sten["extent"] & sten["direction"]))


def fixed_specs():
    """witness files replayed first on every run (the Coq witnesses wit_stencil / wit_dup, the upstream test files'
    shapes 19.22 / 19.23, and a clean invoke)"""
    import random
    rng = random.Random(24)

    def ref(kind, *comps):
        return G.mkref(rng, kind, [tuple(c) if isinstance(c, (list, tuple)) else (c, None) for c in comps])

    def user(kname, args):
        return {"kname": kname, "kraw": kname, "builtin": False, "args": args, "layout": list(G.USER_KERNELS[kname][2])}

    def file(*invs):
        return {"unit": "program", "routines": [[("invoke", {"label": None, "label_pos": 0, "kernels": ks}, "plain")
                                                 for ks in invs]]}
    f = lambda n: ref("field", n)                                           # noqa: E731
    w_ext = user("testkern_stencil_type", [f("f1"), f("f2"), ref("extent", ("exts", "1")), f("m1"), f("m2")])
    w_dir = user("testkern_stencil_xory1d_type", [f("f1"), f("f2"), ref("extent", "ext"), ref("direction", ("dirs", "1")),
                                                  f("m1"), f("m2")])
    w_deref = user("testkern_stencil_xory1d_type", [f("f1"), f("f2"), ref("extent", "obj", "ext"),
                                                    ref("direction", "obj", "dir"), f("m1"), f("m2")])
    w_dup = [user("testkern_one_int_scalar_type", [f("f1"), ref("int", "n"), f("f2"), f("m1"), f("m2")]),
             user("testkern_stencil_type", [f("f1"), f("f2"), ref("extent", "n"), f("m1"), f("m2")])]
    clean = [user("testkern_stencil_xory1d_type", [f("f1"), f("f2"), ref("extent", "ext"), ref("direction", "dir"),
                                                   f("m1"), f("m2")]),
             user("testkern_qr_type", [ref("field", "obj", "f"), f("f2"), f("obj_f"), ref("real", ("sc", "2")), f("m2"),
                                       ref("int", "istp"), ref("qr", "obj", "qr")])]
    def qrk(q):
        return user("testkern_qr_type", [f("f1"), f("f2"), f("m1"), ref("real", "a"), f("m2"), ref("int", "istp"), q])

    def stk(e, d):
        return user("testkern_stencil_xory1d_type", [f("f1"), f("f2"), e, d, f("m1"), f("m2")])
    qr_pair = [qrk(ref("qr", ("qrs", "1"))), qrk(ref("qr", ("qrs", "2"))), qrk(ref("qr", ("qrs", "1"))), qrk(ref("qr", "qr"))]
    st_pair = [stk(ref("extent", ("exts", "1")), ref("direction", ("dirs", "1"))),
               stk(ref("extent", ("exts", "2")), ref("direction", ("dirs", "2"))),
               stk(ref("extent", ("exts", "1")), ref("direction", ("dirs", "2")))]
    def respell(a, raw, rawcomps):
        return dict(a, raw=raw, rawcomps=rawcomps)

    def bi(kname, args):
        return {"kname": kname, "kraw": kname, "builtin": True, "args": args, "layout": list(G.BUILTINS[kname][0])}
    lit = lambda t: G.mklit(rng, "real", t)                                  # noqa: E731
    # the same array element repeated with another letter case of the INDEX (and of the name)
    idx_case = [bi("setval_c", [respell(ref("field", ("fa", "idx")), "fa(idx)", [["fa", "idx"]]), lit("1.0_r_def")]),
                bi("setval_c", [respell(ref("field", ("fa", "jdx")), "fa(jdx)", [["fa", "jdx"]]), lit("2.0_r_def")]),
                bi("inc_a_times_X", [lit("3.0_r_def"), respell(ref("field", ("fa", "idx")), "FA(IDX)", [["FA", "IDX"]])]),
                bi("inc_a_times_X", [lit("0.5_r_def"), respell(ref("field", ("fb", "i,j")), "fb( I , j)", [["fb", " I , j"]])]),
                bi("setval_c", [respell(ref("field", ("fb", "i,j")), "Fb(i,J)", [["Fb", "i,J"]]), lit("2.0_r_def")])]
    # the same structure argument repeated with another letter case of a component name
    comp_case = [bi("setval_c", [respell(ref("field", "obj", ("v", "1")), "obj%v(1)", [["obj", None], ["v", "1"]]), lit("1.0_r_def")]),
                 bi("setval_X", [f("f1"), respell(ref("field", "obj", ("v", "1")), "OBJ % V( 1 )", [["OBJ", None], ["V", " 1 "]])])]
    named_single = {"unit": "program", "routines": [[("invoke", {"label": "Update", "label_pos": 0, "kernels":
                                                                 [bi("setval_c", [f("f2"), lit("1.0_r_def")])]}, "plain")]]}
    return [("indexed-repeat-index-case", file(idx_case)), ("component-repeat-case", file(comp_case)),
            ("named-single-kernel", named_single), ("qr-indexed-pair", file(qr_pair)), ("stencil-indexed-pairs", file(st_pair)),
            ("witness-extent-indexed", file([w_ext])), ("witness-direction-indexed", file([w_dir])),
            ("witness-extent-direction-deref", file([w_deref])), ("witness-extent-also-scalar", file(w_dup)),
            ("clean-stencil-qr", file(clean))]


def run(ctx):
    ctx.cov["rule"] = (
        "LFRic algorithm files: 1-3 invokes (40% named, name= at any position; in program or module with 1-2 "
        "subroutines; plain / IF block / ELSE / DO / one-line IF; other CALLs interleaved), 1-4 kernels each from 27 "
        "built-ins and 6 user kernels (scalars, fields, cross/xory1d/x1d stencils, xyoz quadrature); argument texts "
        "from pools of plain, indexed, derived-type-component and literal references, re-used across kernels with "
        "random case/blank spelling, incl. names that collide with generated names (obj_f vs obj%f, fa_1 vs fa(2), "
        "cell, df, nlayers); 40% of the invokes are themed (several quadrature or stencil kernels whose qr / extent / "
        "direction arguments differ only in their index); DM on/off; 7 fixed witness files replayed first (the Coq "
        "witnesses, the shapes of upstream 19.22/19.23, indexed qr and stencil pairs).  non-trivial = generation accepted and >=1 non-literal argument traced; "
        "distinct = canonical (invoke structure, argument texts)")
    ctx.cov["trusted_base"] = core.BASE_TRUST + [
        "coq/C24/Model.v is hand-written; tied to Invoke.__init__/LFRicInvoke.__init__/DynKernelArguments/alg_gen by this correspondence run",
        "props/C24/extract.py (reader of the generated Fortran: CALL statements, SUBROUTINE dummy lists, def-use chase of "
        "proxies/pointers/stencil maps/quadrature proxies, documented built-in statement forms) is trusted glue",
        "fparser2 prints a reference canonically (two spellings that differ only in case/blanks give the same Arg.text): "
        "assumed by the model (texts are compared blank-free, lower-case), exercised by the spelled generator",
        "thorough tier: gfortran 12 + bundled LFRic infrastructure as the execution oracle (testing only)"]
    ctx.assumptions = [
        "no Section hypotheses: the fresh-name search is modelled concretely (root, root_1, ...) and proved to return an unused name",
        "texts are compared blank-free and lower-case: fparser2 is assumed to print two spellings of one reference identically",
        "pre (names present before the first argument is named) = routine name + LFRic reserved names; the theorems hold for every pre"]
    tr_err = None
    try:
        import translate
        ctx.notes["extracted_tag_keys"] = [l for l in translate.main().split("\n") if l.startswith("Definition")]
    except Exception as err:                               # noqa: BLE001  (fail-closed translator)
        tr_err = "%s: %s" % (type(err).__name__, err)
    ok, rep = ctx.prove()
    if tr_err:
        ok = False
        rep = dict(rep, translator_error=tr_err)
    ctx.log("proof ok=%s discharged=%d/%d%s" % (ok, ctx.cov["discharged"], ctx.cov["obligations"],
                                                 " TRANSLATOR: " + tr_err if tr_err else ""))

    rng = ctx.rng("gen")
    work = Work()
    budget = ctx.pick(35, 300)            # seconds for the generated part
    nfiles = ctx.pick(60, 900)
    t0 = time.time()
    cases, coq_cases, failures, refused = [], [], [], 0
    psyir_cases, psyir_coq = [], []
    try:
        g = G.Gen(rng)
        k = 0
        fixed = fixed_specs()
        while k < nfiles + len(fixed) and (time.time() - t0 < budget or k < len(fixed)):
            k += 1
            if k <= len(fixed):
                spec, dm = fixed[k - 1][1], False
                ctx.hist("source", "fixed-witness")
            else:
                spec = g.file()
                dm = rng.random() < 0.3
                ctx.hist("source", "generated")
            text = G.file_text(spec)
            res = run_generate(work, text, dm)
            if k == 1:
                t0 = time.time()          # the first call pays the import / configuration warm-up: not counted
            ctx.hist("generate", res[0] if res[0] == "ok" else "refused:" + res[1])
            if res[0] != "ok":
                refused += 1
                ctx.count(("refused", text), False)
                ctx.hist("refusal", res[2][:70])
                continue
            probs, obs = evaluate(spec, res[1], res[2])
            # the same file through the PSyIR-based algorithm generation: same oracle (harness only, no model)
            res2 = run_generate(work, text, dm, psyir=True)
            ctx.hist("generate_psyir", res2[0] if res2[0] == "ok" else "refused:" + res2[1])
            if res2[0] == "ok":
                probs2, obs2 = evaluate(spec, res2[1], res2[2], path="psyir")
                ctx.hist("psyir_invokes_checked", len(obs2))
                if len(obs2) == len(G.invokes_of(spec)):
                    for inv2, o2 in zip(G.invokes_of(spec), obs2):
                        if any(" % " in a for a in o2["raw_actuals"]):
                            ctx.hist("psyir_model", "skipped: an actual is a CodeBlock (printed as written)")
                            continue
                        ctx.hist("psyir_model", "compared")
                        psyir_cases.append((inv2, o2, text))
                        psyir_coq.append("(%s, %s)" % (core.coq_list(CE.kcall(kk) for kk in inv2["kernels"]),
                                                       CE.strs([X.norm(a) for a in o2["raw_actuals"]])))
                for code, site, d in probs2:
                    failures.append((classify(code, site, d, "psyir"), code, site, d, text, dm))
            invs = G.invokes_of(spec)
            ctx.hist("invokes_per_file", len(invs))
            ctx.hist("unit", spec["unit"])
            ctx.hist("dm", dm)
            for inv in invs:
                ctx.hist("kernels_per_invoke", len(inv["kernels"]))
                ctx.hist("named", bool(inv["label"]))
                for kk in inv["kernels"]:
                    ctx.hist("kernel", kk["kname"])
                    for a in kk["args"]:
                        ctx.hist("arg_form", "literal" if a["lit"] else ("component" if len(a["comps"]) > 1 else
                                                                          ("indexed" if a["comps"][0][1] else "name")))
                key = CE.canon_key(inv)
                ctx.count(key, any(not a["lit"] for kk in inv["kernels"] for a in kk["args"]))
            for code, site, d in probs:
                failures.append((classify(code, site, d), code, site, d, text, dm))
            if len(obs) == len(invs):
                for inv, o in zip(invs, obs):
                    cases.append((inv, o, text))
                    coq_cases.append(CE.coq_case(inv, o))
            if k <= 2:
                ctx.sample({"source_invoke": G.invoke_text(invs[0]), "generated_call": "%s(%s)" % (obs[0]["name"], ", ".join(obs[0]["actuals"])) if obs else None,
                            "psy_dummies": obs[0]["dummies"] if obs else None})
        ctx.notes["files_generated"] = k
        ctx.notes["files_refused"] = refused
    finally:
        work.close()
    ctx.log("files=%d refused=%d invokes=%d property failures=%d (%.0fs)" % (k, refused, len(cases), len(failures), time.time() - t0))

    # ---- correspondence with the Coq model
    failing = []
    if coq_cases:
        failing = ctx.coq_eval_failing(CE.HEADER, "case", "agrees", coq_cases, shard=ctx.pick(40, 120))
    failing2 = []
    if psyir_coq:
        failing2 = ctx.coq_eval_failing(CE.HEADER + "\nFrom PV Require Import C24.Psyir.", "list kcall * list string",
                                        "agrees_psyir", psyir_coq, shard=ctx.pick(60, 150))
    ctx.cov["disagreements_checked"] = len(failing) + len(failing2)
    ctx.log("model/implementation disagreements: %d of %d (default path), %d of %d (PSyIR path)"
            % (len(failing), len(coq_cases), len(failing2), len(psyir_coq)))

    # ---- thorough tier: execute built-in-only invokes on the bundled infrastructure (supporting evidence)
    run_problems = []
    if ctx.thorough:
        import gfrun
        run_problems = gfrun.run(ctx, nprog=4)
        ctx.log("gfortran run: %s, problems=%d" % (ctx.notes.get("gfortran_run"), len(run_problems)))
    for pr in run_problems[:3]:
        ctx.violation(dict(pr, property="C24"), no_input=not pr.get("concrete"))

    # ---- verdict
    seen = set()
    for key, code, site, d, text, dm in failures:
        if key in seen:
            continue
        seen.add(key)
        ctx.finding(key, "%s at %s" % (code, site),
                    {"property": "C24", "algorithm_file": text, "distributed_memory": dm, "detail": d,
                     "replay": "psyclone.generator.generate(<this file>, api='dynamo0.3', kernel_paths=[dir with "
                               "the dynamo0p3 test kernels], distributed_memory=%s)%s; compare the generated CALL's "
                               "actuals with the source texts" % (dm, " with psyclone.generator.LFRIC_TESTING = True"
                                                                  if key.startswith("psyir-path:") else "")})
    if not ctx.violations and failing2 and not failing and ok:
        j = failing2[0]
        ctx.violation({"property": "C24", "broken": "correspondence C24.Psyir.psyir_alg_args = actual list generated by the "
                       "PSyIR algorithm path (generator.LFRIC_TESTING)", "n_differing": len(failing2),
                       "first_differing_case": {"source_invoke": G.invoke_text(psyir_cases[j][0]),
                                                "observed_actuals": psyir_cases[j][1]["raw_actuals"], "file": psyir_cases[j][2],
                                                "model": ctx.coq_eval_show(CE.HEADER + "\nFrom PV Require Import C24.Psyir.",
                                                                           ["psyir_alg_args (fun _ => false) (fst %s)" % psyir_coq[j]])}},
                      no_input=True)
    if not ctx.violations and (failing or not ok):
        i = failing[0] if failing else None
        ctx.violation({"property": "C24",
                       "broken": "correspondence C24.Model (alg_unique_args / psy dummies / kernel bindings) = implementation"
                       if failing else "proof obligations of Properties/C24.v",
                       "proof_report": rep if not ok else None,
                       "first_differing_case": {"source_invoke": G.invoke_text(cases[i][0]), "observed": cases[i][1],
                                                "file": cases[i][2],
                                                "model": ctx.coq_eval_show(CE.HEADER, ["model_view (%s)" % coq_cases[i]])}
                       if failing else None, "n_differing": len(failing)}, no_input=True)
