"""C24 thorough tier -- SUPPORTING EVIDENCE, TESTING ONLY (not part of the proof).

Built-in-only invokes are generated with the same argument pools as the main harness (repeats across
kernels, case/blank spellings, array elements fa(i), components obj%g(2)%f, literals, names that clash
with generated names).  Every storage location (field or scalar) the file refers to is given a distinct
constant; PSyclone (tree under test) generates both layers; they are compiled with gfortran against a
scratch copy of the bundled LFRic infrastructure (under /var/tmp, removed afterwards) and run on one
process.  The printed value of every location is compared with a source-level simulation of the invokes
(each built-in applied, in order, to the locations written in the source).  A mis-routed argument
changes a printed value.  Build/compile pattern after props/C20/gfrun.py."""
import os
import re
import shutil
import tempfile
from fractions import Fraction
from pathlib import Path

from vlib import core

import gen as G

MESH_SETUP = """
    global_mesh = global_mesh_base_type()
    global_mesh_ptr => global_mesh
    partitioner_ptr => partitioner_planar
    partition = partition_type(global_mesh_ptr, partitioner_ptr, 1, 1, 0, 0, 1)
    extrusion = uniform_extrusion_type(0.0_r_def, 100.0_r_def, 3)
    extrusion_ptr => extrusion
    mesh = mesh_type(global_mesh_ptr, partition, extrusion_ptr)
    vector_space = function_space_type(mesh, element_order, lfric_fs, ndata_sz)
    vector_space_ptr => vector_space
"""

RUN_DECLS = """\
  type :: inner_type
    type(field_type) :: f
    type(field_type) :: h(2)
  end type inner_type
  type :: some_type
    type(field_type) :: f
    type(field_type) :: v(3)
    type(inner_type) :: g
    real(r_def) :: s
    real(r_def) :: t(2)
  end type some_type
  type(field_type) :: f1, f2, f3, m1, m2, fa(3), fb(2,2), obj_f, fa_1, obj_g_f, f1_1
  type(field_type) :: cell, df, nlayers, map_w1, f1_data
  type(some_type) :: obj, objs(2)
  real(r_def) :: a, b, sc(2), obj_s, sc_1
  integer(i_def) :: i, j, idx, jdx
"""
# gfortran 12 has an internal compiler error on a derived type with an ARRAY component of a type that has
# finalisable (field_type) components, so the executed variant uses a scalar component g
RUN_FIELD_POOL = [c for c in G.FIELD_POOL if not any(n == "g" for n, _ in c)] + [
    [("obj", None), ("g", None), ("f", None)], [("obj", None), ("g", None), ("h", "2")],
    [("obj", None), ("g", None), ("h", "i")], [("objs", "i"), ("g", None), ("f", None)],
    [("objs", "2"), ("v", "j")]]
RUN_FIELD_POOL = RUN_FIELD_POOL[:-9] + RUN_FIELD_POOL[-4:] + RUN_FIELD_POOL[-9:-4]      # adversarial names stay last
NO_RUN = {"X_divideby_Y", "inc_X_divideby_Y"}          # a zero divisor would only test IEEE arithmetic
IDX = {"i": "1", "j": "2", "idx": "1", "jdx": "2"}


def location(arg):
    """the storage location a (non-literal) source argument denotes at run time (i = 1, j = 2)"""
    parts = []
    for n, ix in arg["comps"]:
        if ix is not None:
            ix = ",".join(IDX.get(x.strip().lower(), x.strip()) for x in ix.split(","))
        parts.append(n.lower() + ("(%s)" % ix if ix is not None else ""))
    return "%".join(parts)


def lit_value(text):
    return Fraction(text.lower().split("_")[0].replace("e0", ""))


def driver(spec, name):
    invs = G.invokes_of(spec)
    flocs, slocs = [], []
    for inv in invs:
        for k in inv["kernels"]:
            for a in k["args"]:
                if a["lit"]:
                    continue
                lst = flocs if a["kind"] == "field" else slocs
                if location(a) not in lst:
                    lst.append(location(a))
    fval = {loc: Fraction(3 + 2 * n, 4) for n, loc in enumerate(flocs)}          # 0.75, 1.25, ...: all distinct
    sval = {loc: Fraction(-(5 + 2 * n), 8) for n, loc in enumerate(slocs)}       # negative: distinct from fields
    body = ["    i = 1", "    j = 2", "    idx = 1", "    jdx = 2"]
    for loc in flocs:
        body.append('    call init_field(%s, %s_r_def)' % (loc, float(fval[loc])))
    for loc in slocs:
        body.append("    %s = %s_r_def" % (loc, float(sval[loc])))
    for inv in invs:
        body.append("    " + G.invoke_text(inv))
    for n, loc in enumerate(flocs):
        body.append('    call dump_field("F %d", %s)' % (n, loc))
    for n, loc in enumerate(slocs):
        body.append('    write(*, \'(A,1X,ES25.17)\') "S %d", %s' % (n, loc))
    src = """program %s
    use global_mesh_base_mod,   only: global_mesh_base_type
    use mesh_mod,               only: mesh_type, PLANE
    use partition_mod,          only: partition_type, partitioner_planar, partitioner_interface
    use extrusion_mod,          only: uniform_extrusion_type
    use function_space_mod,     only: function_space_type
    use fs_continuity_mod,      only: W0
    use field_mod,              only: field_type, field_proxy_type
    use constants_mod,          only: r_def, i_def
    implicit none
    type(global_mesh_base_type), target        :: global_mesh
    class(global_mesh_base_type), pointer      :: global_mesh_ptr
    type(partition_type)                       :: partition
    type(mesh_type), target                    :: mesh
    type(uniform_extrusion_type), target       :: extrusion
    type(uniform_extrusion_type), pointer      :: extrusion_ptr
    type(function_space_type), target          :: vector_space
    type(function_space_type), pointer         :: vector_space_ptr
    procedure (partitioner_interface), pointer :: partitioner_ptr
    integer(kind=i_def)                        :: lfric_fs = W0
    integer(kind=i_def)                        :: element_order = 1
    integer(kind=i_def)                        :: ndata_sz = 1
%s
%s
%s
contains
    subroutine init_field(fld, val)
      type(field_type), intent(inout) :: fld
      real(r_def), intent(in) :: val
      type(field_proxy_type) :: prx
      call fld%%initialise(vector_space = vector_space_ptr, name="c24")
      prx = fld%%get_proxy()
      prx%%data(:) = val
    end subroutine init_field
    subroutine dump_field(tag, fld)
      character(len=*), intent(in) :: tag
      type(field_type), intent(in) :: fld
      type(field_proxy_type) :: prx
      prx = fld%%get_proxy()
      write(*, '(A,1X,I0,2(1X,ES25.17))') tag, size(prx%%data), minval(prx%%data), maxval(prx%%data)
    end subroutine dump_field
end program %s
""" % (name, RUN_DECLS.rstrip("\n"), MESH_SETUP, "\n".join(body), name)
    return src, flocs, slocs, fval, sval


def simulate(spec, fval, sval, undf):
    f, s = dict(fval), dict(sval)
    for inv in G.invokes_of(spec):
        for k in inv["kernels"]:
            kinds, tmpl = G.BUILTINS[k["kname"]]

            def val(p):
                a = k["args"][p]
                if a["lit"]:
                    return lit_value(a["littext"])
                return (f if a["kind"] == "field" else s)[location(a)]
            lhs, rhs = tmpl.split(" = ")
            w = int(lhs.strip("{}"))
            expr = re.sub(r"\{(\d+)\}", lambda m: "val(%s)" % m.group(1), rhs)
            if kinds[w] == "Sw":                     # reduction: zeroed, then summed over the DoFs
                expr = re.sub(r"^val\(%d\) \+ " % w, "", expr)
                s[location(k["args"][w])] = undf * eval(expr, {"val": val})          # noqa: S307 (own template table)
            else:
                (f if k["args"][w]["kind"] == "field" else s)[location(k["args"][w])] = eval(expr, {"val": val})  # noqa: S307
    return f, s


def run(ctx, nprog):
    from psyclone.generator import generate
    rng = ctx.rng("gfrun")
    root = Path(tempfile.mkdtemp(prefix="C24-gf-", dir="/var/tmp"))
    problems, note = [], {"programs": 0, "values_compared": 0, "skipped": []}
    try:
        infra_src = core.REPO / "src/psyclone/tests/test_files/dynamo0p3/infrastructure"
        infra = root / "infrastructure"
        shutil.copytree(infra_src, infra)
        rc, out = core.sh("make F90=gfortran -j4", cwd=infra, timeout=900)
        if rc != 0 or not (infra / "liblfric.a").exists():
            note["status"] = "infrastructure build failed or timed out (rc=%d); execution check skipped" % rc
            ctx.notes["gfortran_run"] = note
            return []
        incs = " ".join("-I %s" % d for d, _, _ in os.walk(infra))
        g = G.Gen(rng, builtins_only=True, adversarial=0.2, field_pool=RUN_FIELD_POOL)
        saved = dict(G.BUILTINS)
        for p in range(nprog):
            for nm in NO_RUN:
                G.BUILTINS.pop(nm, None)
            try:
                spec = g.file(ninv=rng.choice([2, 3]))
            finally:
                G.BUILTINS.update(saved)
            name = "c24_run%d" % p
            src, flocs, slocs, fval, sval = driver(spec, name)
            wd = root / name
            wd.mkdir()
            (wd / (name + ".x90")).write_text(src)
            dm = rng.random() < 0.5
            try:
                alg, psy = generate(str(wd / (name + ".x90")), api="dynamo0.3", distributed_memory=dm, kernel_paths=[])
            except Exception as err:                                   # noqa: BLE001
                problems.append({"broken": "PSyclone could not process the generated driver", "driver": src,
                                 "error": "%s: %s" % (type(err).__name__, str(err)[:400])})
                continue
            (wd / "alg.f90").write_text(str(alg))
            (wd / "psy.f90").write_text(str(psy))
            cmd = ("gfortran -g -fcheck=bounds -ffree-line-length-none %s -c psy.f90 && gfortran -g -fcheck=bounds -ffree-line-length-none %s -c alg.f90 && "
                   "gfortran psy.o alg.o -o run.exe -L%s -llfric" % (incs, incs, infra))
            rc, out = core.sh(cmd, cwd=wd, timeout=900)
            if rc == 124:
                note["skipped"].append("%s: compilation timed out" % name)
                continue
            if rc != 0:
                problems.append({"concrete": True, "what": "generated layers do not compile together (gfortran)",
                                 "driver": src, "distributed_memory": dm, "log": out[-1500:]})
                continue
            rc, out = core.sh("./run.exe", cwd=wd, timeout=300)
            if rc != 0:
                if rc == 124:
                    note["skipped"].append("%s: run timed out" % name)
                else:
                    problems.append({"concrete": True, "what": "generated executable failed at run time", "driver": src,
                                     "distributed_memory": dm, "log": out[-1500:]})
                continue
            gotf, gots, undf = {}, {}, None
            for line in out.split("\n"):
                m = re.match(r"^\s*F (\d+) (\d+)\s+(\S+)\s+(\S+)\s*$", line)
                if m:
                    gotf[int(m.group(1))] = (float(m.group(3)), float(m.group(4)))
                    undf = int(m.group(2))
                m = re.match(r"^\s*S (\d+)\s+(\S+)\s*$", line)
                if m:
                    gots[int(m.group(1))] = float(m.group(2))
            if len(gotf) != len(flocs) or len(gots) != len(slocs) or undf is None:
                problems.append({"broken": "cannot parse driver output", "output": out[-800:]})
                continue
            ef, es = simulate(spec, fval, sval, undf)
            note["programs"] += 1
            for n, loc in enumerate(flocs):
                lo, hi = gotf[n]
                exp = float(ef[loc])
                note["values_compared"] += 1
                if not (abs(lo - exp) <= 1e-11 * max(1.0, abs(exp)) and abs(hi - exp) <= 1e-11 * max(1.0, abs(exp))):
                    problems.append({"concrete": True, "what": "executed invoke: field %s holds %r..%r, the source-level "
                                     "meaning of the invokes gives %r" % (loc, lo, hi, exp), "driver": src,
                                     "distributed_memory": dm,
                                     "replay": "generate(driver, api='dynamo0.3'), build against tests/test_files/dynamo0p3/infrastructure, run"})
                    break
            for n, loc in enumerate(slocs):
                exp = float(es[loc])
                note["values_compared"] += 1
                if abs(gots[n] - exp) > 1e-11 * max(1.0, abs(exp)):
                    problems.append({"concrete": True, "what": "executed invoke: scalar %s is %r, the source-level meaning "
                                     "of the invokes gives %r" % (loc, gots[n], exp), "driver": src, "distributed_memory": dm})
                    break
        note["status"] = "testing only (supporting evidence)"
    finally:
        shutil.rmtree(root, ignore_errors=True)
    ctx.notes["gfortran_run"] = note
    ctx.cov["evaluations"] += note["values_compared"]
    return problems
