"""Tiny fail-closed parser for the Fortran expressions that occur in (a) the formula blocks of the
LFRic built-in documentation, (b) the `!>` comment lines of lfric_builtins_mod.f90 and (c) the loop
bodies of the generated PSy layer.  Produces a *named* expression tree

    ('name', str)            a bare name (scalar, reduction variable, kind name)
    ('elem', str)            NAME(:)  or  NAME(df)  -- the current element of a field / data array
    ('lit', int)             integer-valued literal (1, 0.0_r_def, 2.0, -3 is ('neg', ('lit', 3)))
    ('neg', e)
    ('bin', op, a, b)        op in + - * / **
    ('call', NAME, [args], {kw: name})   intrinsic call, NAME upper-cased

which the translators then resolve to argument positions.  Anything not recognised raises
ParseError (never skipped)."""
import re


class ParseError(Exception):
    pass


TOK = re.compile(r"\s*(?:(?P<num>\d+(?:\.\d*)?(?:[eEdD][+-]?\d+)?(?:_[A-Za-z]\w*)?)|"
                 r"(?P<name>[A-Za-z]\w*(?:<\w+>)?)|(?P<op>\*\*|[-+*/(),:=]))")


def tokenize(s):
    out, i = [], 0
    s = s.rstrip()
    while i < len(s):
        m = TOK.match(s, i)
        if not m or m.end() == i:
            raise ParseError("cannot tokenize %r at %d" % (s, i))
        i = m.end()
        if m.group("num") is not None:
            out.append(("num", m.group("num")))
        elif m.group("name") is not None:
            out.append(("name", m.group("name")))
        else:
            out.append(("op", m.group("op")))
    return out


class P:
    def __init__(self, toks, index_names=("df",)):
        self.t = toks
        self.i = 0
        self.index_names = index_names

    def peek(self):
        return self.t[self.i] if self.i < len(self.t) else ("eof", "")

    def eat(self, kind=None, val=None):
        k, v = self.peek()
        if (kind and k != kind) or (val is not None and v != val):
            raise ParseError("expected %s %s, found %s %r" % (kind, val, k, v))
        self.i += 1
        return v

    # expr := term (('+'|'-') term)*      with optional leading sign
    def expr(self):
        k, v = self.peek()
        if (k, v) == ("op", "-"):
            self.eat()
            e = ("neg", self.term())
        elif (k, v) == ("op", "+"):
            self.eat()
            e = self.term()
        else:
            e = self.term()
        while self.peek() in (("op", "+"), ("op", "-")):
            op = self.eat()
            e = ("bin", op, e, self.term())
        return e

    def term(self):
        e = self.power()
        while self.peek() in (("op", "*"), ("op", "/")):
            op = self.eat()
            e = ("bin", op, e, self.power())
        return e

    def power(self):                      # right associative
        b = self.atom()
        if self.peek() == ("op", "**"):
            self.eat()
            k, v = self.peek()
            if (k, v) == ("op", "-"):     # a ** -b is not standard Fortran; refuse
                raise ParseError("sign after **")
            return ("bin", "**", b, self.power())
        return b

    def atom(self):
        k, v = self.peek()
        if k == "num":
            self.eat()
            return ("lit", num_value(v))
        if (k, v) == ("op", "("):
            self.eat()
            e = self.expr()
            self.eat("op", ")")
            return e
        if k == "name":
            self.eat()
            if self.peek() != ("op", "("):
                return ("name", v)
            self.eat("op", "(")
            # NAME(:)  /  NAME(df)  => element ;  otherwise a call
            if self.peek() == ("op", ":"):
                self.eat()
                self.eat("op", ")")
                return ("elem", v)
            if self.peek()[0] == "name" and self.peek()[1].lower() in self.index_names \
                    and self.t[self.i + 1] == ("op", ")"):
                self.eat()
                self.eat("op", ")")
                return ("elem", v)
            args, kw = [], {}
            while True:
                if self.peek()[0] == "name" and self.i + 1 < len(self.t) and self.t[self.i + 1] == ("op", "="):
                    key = self.eat("name").lower()
                    self.eat("op", "=")
                    kw[key] = self.eat("name")
                else:
                    if kw:
                        raise ParseError("positional after keyword argument")
                    args.append(self.expr())
                if self.peek() == ("op", ","):
                    self.eat()
                    continue
                break
            self.eat("op", ")")
            return ("call", v.upper(), args, kw)
        raise ParseError("unexpected token %s %r" % (k, v))


def num_value(txt):
    """Only integer-valued literals are in the exactly-representable domain used here."""
    body = txt.split("_", 1)[0].lower().replace("d", "e")
    f = float(body)
    if f != int(f):
        raise ParseError("non-integer literal %r" % txt)
    return int(f)


def parse_expr(s, index_names=("df",)):
    p = P(tokenize(s), index_names)
    e = p.expr()
    if p.peek()[0] != "eof":
        raise ParseError("trailing input in %r at token %d" % (s, p.i))
    return e


def parse_assignment(s, index_names=("df",)):
    """'lhs = rhs' -> (lhs_tree, rhs_tree); lhs is ('elem', n), ('name', n) or an array element
    with several subscripts ('call', N, [subscripts], {})."""
    toks = tokenize(s)
    depth, pos = 0, None
    for j, (k, v) in enumerate(toks):
        if (k, v) == ("op", "("):
            depth += 1
        elif (k, v) == ("op", ")"):
            depth -= 1
        elif (k, v) == ("op", "=") and depth == 0:
            pos = j
            break
    if pos is None:
        raise ParseError("no top-level '=' in %r" % s)
    pl = P(toks[:pos], index_names)
    lhs = pl.atom()
    if pl.peek()[0] != "eof" or lhs[0] not in ("elem", "name", "call"):
        raise ParseError("bad left-hand side in %r" % s)
    pr = P(toks[pos + 1:], index_names)
    rhs = pr.expr()
    if pr.peek()[0] != "eof":
        raise ParseError("trailing input in %r" % s)
    return lhs, rhs
