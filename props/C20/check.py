"""C20 -- LFRic built-ins compute their documented operations.

Tie: TRANSLATORS (props/C20/translate.py, dynamic + fail-closed), re-run on every check:
  * every class in BUILTIN_MAP is put in a one-kernel invoke; the PSy layer is generated and the DoF
    loop lowered under DM x COMPUTE_ANNEXED_DOFS x {serial, DynamoOMPParallelLoopTrans}; generated
    text and lowered PSyIR are serialised independently and must agree  -> coq/C20/GenCode.v
  * the user-guide entry (`**name** (args)` + formula block) and the `!>`/meta_args of
    lfric_builtins_mod.f90 are parsed                                      -> coq/C20/GenDoc.v
  * obligations builtin_<n>_matches_doc / dof_range_<n>_<setting> / skeleton_... -> coq/C20/GenObl.v
Theorems: coq/Properties/C20.v (generic loop theorems + composition over the generated table).

Independently of the proofs the check evaluates the property itself on the implementation's output
(the serialised generated loop) against the documented formula on small exact inputs -- this is
the search for a concrete failing input -- and cross-checks its interpreter against the Coq model
(vm_compute) on one case per generated instance."""
import json
import os
import re
import shutil
import sys
from fractions import Fraction
from pathlib import Path

from vlib import core

HERE = Path(__file__).resolve().parent
sys.path.insert(0, str(HERE))
import translate as T  # noqa: E402


# ------------------------------------------------------------------------------------------------
# executable semantics of the serialised code and of the documented formula (mirrors C20/Model.v)
# ------------------------------------------------------------------------------------------------
class Fault(Exception):
    pass


class ExactOps:
    """exact rational arithmetic: the meaning of the property on the exactly representable domain"""
    name = "exact"

    @staticmethod
    def div(a, b):
        if b == 0:
            raise Fault("division by zero")
        return Fraction(a) / Fraction(b)

    @staticmethod
    def pow(a, b):
        if Fraction(b).denominator != 1:
            raise Fault("non-integer exponent")
        if a == 0 and b < 0:
            raise Fault("0 ** negative")
        return Fraction(a) ** int(b)

    @staticmethod
    def conv(c, kind, v):
        if c == "CvInt":
            v = Fraction(v)
            return Fraction(int(abs(v))) * (1 if v >= 0 else -1)      # truncation
        return Fraction(v)

    @staticmethod
    def rand(n):
        return Fraction(7 * n + 3)


class ZOps:
    """the concrete [xops] used to compare this interpreter with the Coq model"""
    name = "xops"

    @staticmethod
    def div(a, b):
        if b == 0:
            return 0
        q = abs(a) // abs(b)
        return q if (a >= 0) == (b >= 0) else -q              # Z.quot

    @staticmethod
    def pow(a, b):
        return 0 if b < 0 else a ** b                         # Z.pow

    @staticmethod
    def conv(c, kind, v):
        return 2 * v + (1 if c == "CvInt" else 0) + (0 if kind[0] == "klhs" else 10)

    @staticmethod
    def rand(n):
        return 7 * n + 3


def ev(t, ops, fld, scl, red, loc=0):
    k = t[0]
    if k == "fld":
        return fld(t[1])
    if k == "scl":
        return scl[t[1]]
    if k == "red":
        return red
    if k == "loc":
        return loc
    if k == "lit":
        return t[1]
    if k == "neg":
        return -ev(t[1], ops, fld, scl, red, loc)
    if k == "bin":
        a, b = ev(t[2], ops, fld, scl, red, loc), ev(t[3], ops, fld, scl, red, loc)
        if t[1] == "OAdd":
            return a + b
        if t[1] == "OSub":
            return a - b
        if t[1] == "OMul":
            return a * b
        if t[1] == "ODiv":
            return ops.div(a, b)
        if t[1] == "OPow":
            return ops.pow(a, b)
    if k == "fn2":
        a, b = ev(t[2], ops, fld, scl, red, loc), ev(t[3], ops, fld, scl, red, loc)
        if t[1] == "FSign":
            return abs(a) if b >= 0 else -abs(a)
        if t[1] == "FMax":
            return max(a, b)
        if t[1] == "FMin":
            return min(a, b)
    if k == "conv":
        return ops.conv(t[1], t[2], ev(t[3], ops, fld, scl, red, loc))
    raise Fault("bad tree %r" % (t,))


def bound_value(b, lay):
    return {"lit": lambda: b[1], "undf": lambda: lay["undf"], "owned": lambda: lay["owned"],
            "annexed": lambda: lay["annexed"], "halo": lambda: lay["undf"]}[b[0]]()


def omp_mode(inst):
    if "mode" in inst:
        return inst["mode"]
    o = inst["omp"]
    return False if o is None else {"pardo": True, "region": "region", "reprod": "reprod"}[o["form"]]


def run_code(inst, ops, bind, lay, sched, fields, scalars, red, strict=True, loc0=0):
    """execute the serialised generated invoke.  fields: {fid: [values]} (index df-1); returns
    (fields', red', nrand).  strict: an access outside 1..undf is a Fault (array bounds)."""
    F = {f: list(v) for f, v in fields.items()}
    st = {"red": red, "rcnt": 0, "loc": loc0}
    if inst["zero"]:
        st["red"] = 0
    lo, hi = bound_value(inst["lo"], lay), bound_value(inst["hi"], lay)
    iters = list(range(lo, hi + 1))
    kern = inst["kern"]

    def get(f, df):
        if not 1 <= df <= lay["undf"]:
            if strict:
                raise Fault("access to element %d outside 1..undf=%d" % (df, lay["undf"]))
            return 0
        return F[f][df - 1]

    def put(f, df, v):
        if not 1 <= df <= lay["undf"]:
            if strict:
                raise Fault("write to element %d outside 1..undf=%d" % (df, lay["undf"]))
            return
        F[f][df - 1] = v

    def iteration(df):
        fld = lambda k: get(bind[k], df)                                    # noqa: E731
        if kern[0] == "assign":
            put(bind[kern[1]], df, ev(kern[2], ops, fld, scalars, st["red"]))
        elif kern[0] == "reduce":
            st["red"] = ev(kern[1], ops, fld, scalars, st["red"], st["loc"])
        elif kern[0] == "reduce_local":
            st["loc"] = ev(kern[1], ops, fld, scalars, st["red"], st["loc"])
        else:
            put(bind[kern[1]], df, ops.rand(st["rcnt"]))
            st["rcnt"] += 1
    if sched is None:
        for df in iters:
            iteration(df)
    elif sched[0] == "perm":
        for df in sched[1]:
            iteration(df)
    elif inst["omp"] and inst["omp"].get("reprod") is not None:
        # reproducible reduction: l_red(1,t) zeroed (if the code does so), thread t accumulates its chunk
        # there, afterwards the elements are added to the reduction variable (if the code does so)
        rp = inst["omp"]["reprod"]
        partial = []
        for ch in sched[1]:
            st["loc"] = 0 if rp["zeroed"] else loc0
            for df in ch:
                iteration(df)
            partial.append(st["loc"])
        if rp["final_sum"]:
            for v in partial:
                st["red"] = st["red"] + v
    else:                                   # OpenMP threads with their chunks
        red0 = st["red"]
        if inst["omp"] and inst["omp"]["reduction"]:
            total = red0
            for ch in sched[1]:
                st["red"] = 0
                for df in ch:
                    iteration(df)
                total += st["red"]
            st["red"] = total
        else:
            # no reduction clause: the threads race on the shared variable; one admissible outcome
            # is that every thread starts from the original value and the last writer wins
            last = red0
            for ch in sched[1]:
                st["red"] = red0
                for df in ch:
                    iteration(df)
                last = st["red"]
            st["red"] = last
    return F, st["red"], st["rcnt"]


def doc_hi(dm, ann, reduction, lay):
    if not dm:
        return lay["undf"]
    return lay["annexed"] if (ann and not reduction) else lay["owned"]


def run_doc(doc, ops, dm, ann, bind, lay, fields, scalars, red):
    """the documented result: (fields', red', random_dofs)"""
    spec = doc["spec"]
    hi = doc_hi(dm, ann, spec[0] == "sum", lay)
    F = {f: list(v) for f, v in fields.items()}
    if spec[0] == "pointwise":
        for df in range(1, hi + 1):
            F[bind[spec[1]]][df - 1] = ev(spec[2], ops, lambda k: fields[bind[k]][df - 1], scalars, red)
        return F, red, None
    if spec[0] == "sum":
        tot = 0
        for df in range(1, hi + 1):
            tot += ev(spec[1], ops, lambda k: fields[bind[k]][df - 1], scalars, red)
        return F, tot, None
    return F, red, (bind[spec[1]], list(range(1, hi + 1)))


# ------------------------------------------------------------------------------------------------
# input generation
# ------------------------------------------------------------------------------------------------
def uses(t, what):
    if t[0] == "bin" and t[1] == what:
        return True
    return any(isinstance(x, tuple) and uses(x, what) for x in t[1:])


def tree_of(x):
    return x[2] if x[0] in ("assign", "pointwise") else (x[1] if x[0] in ("reduce", "sum") else ("lit", 0))


def gen_case(rng, inst, doc, targeted=None):
    args = inst["args"]
    undf = rng.choice([0, 1, 2, 3, 4, 5, 6, 7]) if targeted is None else targeted
    owned = rng.randint(0, undf)
    annexed = rng.randint(owned, undf)
    if rng.random() < 0.5 and undf >= 2:            # make the three bounds pairwise different
        owned, annexed = sorted(rng.sample(range(0, undf), 2)) if undf >= 3 else (0, 1)
    lay = {"undf": undf, "owned": owned, "annexed": annexed}
    trees = [tree_of(inst["kern"]), tree_of(doc["spec"])]
    nonzero = any(uses(t, "ODiv") or uses(t, "OPow") for t in trees)
    vals = [v for v in range(-4, 5) if v or not nonzero]
    # field ids: one per field argument, sometimes two arguments of the same type share a field
    bind, fields, fid = {}, {}, 0
    fpos = [k for k, a in enumerate(args) if a[0] == "fld"]
    for k in fpos:
        same = [j for j in fpos if j < k and args[j][1] == args[k][1]]
        if same and rng.random() < 0.25:
            bind[k] = bind[rng.choice(same)]
        else:
            bind[k] = fid
            fields[fid] = [rng.choice(vals) for _ in range(undf)]
            fid += 1
    scalars = {}
    for k, a in enumerate(args):
        if a[0] == "scl" and not a[2]:
            if any(uses(t, "OPow") for t in trees):
                scalars[k] = rng.choice([-2, -1, 0, 1, 2, 3])
            else:
                scalars[k] = rng.choice(vals)
    red = rng.choice([-7, 0, 5, 11])
    sched = None
    if inst["omp"] is not None:
        lo, hi = bound_value(inst["lo"], lay), bound_value(inst["hi"], lay)
        it = list(range(lo, hi + 1))
        rng.shuffle(it)
        if inst["kern"][0] in ("reduce", "reduce_local"):
            nt = rng.choice([1, 2, 3] if inst["kern"][0] == "reduce_local" else [1, 2, 3, 4])
            cuts = sorted(rng.randint(0, len(it)) for _ in range(nt - 1))
            sched = ("chunks", [it[a:b] for a, b in zip([0] + cuts, cuts + [len(it)])])
        else:
            sched = ("perm", it)
    return {"bind": bind, "layout": lay, "fields": fields, "scalars": scalars, "red": red, "sched": sched,
            "loc0": rng.choice([0, 9])}


def check_case(inst, doc, case):
    """evaluate the property on one input; returns None or a description of the failure"""
    ops = ExactOps
    dm, ann = inst["dm"], inst["ann"]
    try:
        exp_f, exp_red, rnd = run_doc(doc, ops, dm, ann, case["bind"], case["layout"], case["fields"], case["scalars"], case["red"])
    except Fault:
        return "skip"
    try:
        got_f, got_red, nr = run_code(inst, ops, case["bind"], case["layout"], case["sched"], case["fields"], case["scalars"], case["red"], loc0=case.get("loc0", 0))
    except Fault as f:
        return {"why": "generated code faults where the documented formula is defined: %s" % f}
    if rnd is not None:
        f, dofs = rnd
        vals = [got_f[f][d - 1] for d in dofs]
        if sorted(vals) != sorted(ops.rand(n) for n in range(len(dofs))) or nr != len(dofs):
            return {"why": "setval_random: DoFs of the documented range did not each receive one new random number",
                    "observed": [str(v) for v in got_f[f]], "expected_range": dofs}
        for d in dofs:
            exp_f[f][d - 1] = got_f[f][d - 1]
    if spec_kind(doc) == "sum":
        if got_red != exp_red:
            return {"why": "reduction result differs from the documented SUM over the documented range",
                    "observed": str(got_red), "expected": str(exp_red)}
    elif got_red != case["red"]:
        return {"why": "a scalar was modified by a pointwise built-in", "observed": str(got_red), "expected": str(case["red"])}
    if got_f != exp_f:
        bad = [(f, d + 1, str(got_f[f][d]), str(exp_f[f][d])) for f in got_f for d in range(len(got_f[f])) if got_f[f][d] != exp_f[f][d]]
        return {"why": "field values differ from the documented formula / range (field id, DoF, observed, expected)", "differences": bad[:8]}
    return None


def spec_kind(doc):
    return doc["spec"][0]


def dm_global_case(rng, inst, doc):
    """several MPI processes: global sum of the local results == sum over all owned DoFs"""
    tot_code, tot_doc, ranks = 0, 0, []
    for _ in range(rng.choice([1, 2, 3])):
        c = gen_case(rng, inst, doc)
        try:
            _, r, _ = run_code(inst, ExactOps, c["bind"], c["layout"], c["sched"], c["fields"], c["scalars"], c["red"], loc0=c.get("loc0", 0))
            lay_owned = dict(c["layout"])
            _, e, _ = run_doc(doc, ExactOps, True, inst["ann"], c["bind"], lay_owned, c["fields"], c["scalars"], c["red"])
        except Fault:
            return None
        tot_code += r
        tot_doc += e
        ranks.append(c)
    if not inst["gsum"]:
        return {"why": "no global sum is generated for a reduction under distributed memory", "ranks": ranks}
    if tot_code != tot_doc:
        return {"why": "global sum of the local results differs from the SUM over the owned DoFs of all processes",
                "observed": str(tot_code), "expected": str(tot_doc), "ranks": ranks}
    return None


# ------------------------------------------------------------------------------------------------
# Coq side of the interpreter cross-check
# ------------------------------------------------------------------------------------------------
XHEADER = """From Coq Require Import ZArith Bool String.
From PV Require Import C20.Model C20.GenCode.
Open Scope Z_scope.
Definition xops : ops := mkOps Z.quot Z.pow
  (fun c k z => 2 * z + (match c with CvInt => 1 | CvReal => 0 end) + (match k with KLhs => 0 | KName _ => 10 end))
  (fun n => 7 * Z.of_nat n + 3).
Definition xstore (fl : list (list Z)) (sc : list Z) (r l : Z) : store :=
  mkStore (fun f d => if d <=? 0 then 0 else nth (Z.to_nat (d - 1)) (nth f fl []) 0) (fun k => nth k sc 0) r l 0.
Definition xcase := (instance * list nat * (Z * Z * Z) * schedule * list (list Z) * list Z * (Z * Z) * (list (list Z) * Z))%type.
Fixpoint row_ok (s : store) (f : nat) (d : Z) (row : list Z) : bool :=
  match row with [] => true | v :: r => (fdat s f d =? v) && row_ok s f (d + 1) r end.
Fixpoint rows_ok (s : store) (f : nat) (rows : list (list Z)) : bool :=
  match rows with [] => true | row :: r => row_ok s f 1 row && rows_ok s (S f) r end.
Definition agrees (c : xcase) : bool :=
  match c with (i, bl, (u, o, a), sch, fl, sc, (r, l), (efl, er)) =>
    let s' := run_instance xops (fun k => nth k bl 0%nat) (mkLayout u o a (fun _ => u)) i sch (xstore fl sc r l) in
    rows_ok s' 0 efl && (rvar s' =? er)
  end.
"""


def zl(xs):
    return "[" + "; ".join("(%d)" % x for x in xs) + "]"


def coq_case(inst, case, got_f, got_red):
    nargs = len(inst["args"])
    bl = "[" + "; ".join("%d%%nat" % case["bind"].get(k, 0) for k in range(nargs)) + "]"
    lay = case["layout"]
    nf = len(case["fields"])
    fl = "[" + "; ".join(zl(case["fields"][f]) for f in range(nf)) + "]"
    efl = "[" + "; ".join(zl(got_f[f]) for f in range(nf)) + "]"
    sc = zl([case["scalars"].get(k, 0) for k in range(nargs)])
    s = case["sched"]
    sch = "SSerial" if s is None else ("(SPerm %s)" % zl(s[1]) if s[0] == "perm" else "(SChunks [%s])" % "; ".join(zl(c) for c in s[1]))
    return "(inst_%s_%s, %s, ((%d), (%d), (%d)), %s, %s, %s, ((%d), (%d)), (%s, (%d)))" % (
        T.cid(inst["name"]), T.setting_tag(inst["dm"], inst["ann"], omp_mode(inst)), bl,
        lay["undf"], lay["owned"], lay["annexed"], sch, fl, sc, case["red"], case.get("loc0", 0), efl, got_red)


# ------------------------------------------------------------------------------------------------
def jsonable_case(inst, doc, case):
    return {"builtin": inst["name"], "distributed_memory": inst["dm"], "compute_annexed_dofs": inst["ann"],
            "openmp_mode": omp_mode(inst),
            "openmp": inst["omp"], "generated_loop_body": inst.get("body_text"),
            "generated_bounds": [inst["lo"], inst["hi"]], "zeroed_before_loop": inst["zero"], "global_sum": inst["gsum"],
            "documented": {"args": doc["raw_args"], "formula": doc["formula_lines"], "guide_line": doc["line"]},
            "argument_binding(arg position -> field id)": {str(k): v for k, v in case["bind"].items()},
            "layout": case["layout"], "fields": {str(k): [str(x) for x in v] for k, v in case["fields"].items()},
            "scalars": {str(k): str(v) for k, v in case["scalars"].items()}, "reduction_variable_before": case["red"],
            "local_array_garbage_if_not_zeroed": case.get("loc0", 0),
            "schedule": case["sched"]}


REPLAY_HOW = ("write an algorithm file with `call invoke(<builtin>(<one variable per argument>))`, parse it with "
              "psyclone.parse.algorithm.parse(api='dynamo0.3'), set Config.get().api_conf('lfric')._compute_annexed_dofs, "
              "PSyFactory('dynamo0.3', distributed_memory=<dm>).create(info) [+ DynamoOMPParallelLoopTrans on the DoF loop, or "
              "Dynamo0p3OMPLoopTrans (options {'reprod': True} for form 'reprod') + OMPParallelTrans around it], "
              "read the DO loop of str(psy.gen) and execute it on the listed field values (or: VERIF_REPO=<tree> ./check C20)")


def run(ctx):
    ctx.cov["rule"] = ("every class in BUILTIN_MAP x {DM off/on} x {COMPUTE_ANNEXED_DOFS off/on} x {serial, OMP PARALLEL DO, OMP PARALLEL + OMP DO} "
                       "and every reduction built-in additionally with run-reproducible OpenMP reductions (1-3 simulated threads) and with the omp_schedule grid "
                       "{none, dynamic, guided, auto, static,4} x {PARALLEL DO, PARALLEL + DO, reprod} (a missing reduction clause is evaluated as a race: last writer wins); "
                       "per instance random exact inputs: undf 0..7, owned<=annexed<=undf, integer field values -4..4 (non-zero when the "
                       "formula divides or raises to a power), argument aliasing with probability 1/4, non-zero initial reduction variable, "
                       "random OpenMP permutation / chunking; non-trivial = documented range non-empty; distinct = (instance, input)")
    ctx.cov["trusted_base"] = core.BASE_TRUST + [
        "translators props/C20/translate.py + fexpr.py (fail-closed): user guide / lfric_builtins_mod.f90 / generated PSy-layer text and lowered PSyIR -> Gallina; "
        "the generated text and the lowered PSyIR are serialised by two routes and must agree; the emitted Gallina instances are executed by vm_compute against the Python view of the same instances",
        "values are integers; real division, **, INT(.,kind) and REAL(.,kind) are uninterpreted operators shared by the formula and the code (theorems hold for every interpretation); floating-point rounding is out of scope",
        "LFRic run-time library: get_undf / get_last_dof_owned / get_last_dof_annexed return the layout bounds, scalar_type%get_sum is the exact global sum, proxy%data is the field's data (modelled, validated by the thorough-tier gfortran run only)",
        "OpenMP: iterations of a parallel do with disjoint footprints behave as some sequential order; reduction(+) = private zero-initialised copies added at the end (modelled)"]
    ctx.assumptions = ["documented DoF range: all DoFs (no DM) / owned (DM) / owned+annexed (DM and COMPUTE_ANNEXED_DOFS, not for reductions) -- user guide sections 'Built-ins' and 'Annexed DoFs'",
                       "the formula block of a guide entry is the built-in's definition (the prose gloss of sign_X differs from SIGN for a<0: theorem C20_sign_gloss_refuted_for_negative_a)"]
    # ------------------------------------------------------------------ translators
    tr_error = None
    res = None
    try:
        res = T.run_translators(ctx.scratch / "alg", log=None)
    except (T.TranslateError, T.ParseError) as err:
        tr_error = "%s: %s" % (type(err).__name__, err)
    if res is None:
        ctx.log("translator failed: %s" % tr_error)
        ctx.cov["obligations"], ctx.cov["discharged"] = 1, 0
        # The translators refuse what they do not recognise.  Try the two halves separately so that the
        # report says which side changed.
        ctx.violation({"property": "C20", "broken": "translator (fail-closed) could not translate the working tree",
                       "error": tr_error,
                       "meaning": "the generated PSy layer / the user guide / lfric_builtins_mod.f90 has a shape outside the "
                                  "recognised subset, so the property is no longer shown to hold"}, no_input=True)
        return
    doc = {e["name"]: e for e in res["doc"]}
    insts = res["instances"]
    table = res["table"]
    ctx.log("translated: %d built-ins, %d instances, %d doc entries, %d obligations (Gen files changed: %s)"
            % (len(table), len(insts), len(doc), len(res["index"]), res["changed"]))
    rejected = sorted("%s/%s" % (k[0], T.setting_tag(*k[1:])) for k, v in insts.items() if "rejected" in v)
    ctx.notes["omp_rejected_by_transformation"] = rejected
    ctx.notes["openmp_variants_translated"] = {k: len(v) for k, v in res["omp_names"].items()}
    ctx.notes["doc_entries_unparseable"] = []          # fail-closed: any such entry aborts the translation above
    ctx.notes["meta_comment_lines_recognised_verbatim"] = sorted(
        n for n, m in res["meta"].items() if n in doc and T.meta_comment_spec(n, m, doc[n])[1].startswith("free-form"))
    ctx.notes["generated_obligations"] = {k: sum(1 for x in res["index"] if x[1] == k) for k in sorted({x[1] for x in res["index"]})}
    ctx.notes["two_route_agreement_instances"] = sum(1 for v in insts.values() if "rejected" not in v)
    # ------------------------------------------------------------------ proofs
    ok, rep = ctx.prove(timeout=900)
    ctx.log("proof ok=%s discharged=%d/%d" % (ok, ctx.cov["discharged"], ctx.cov["obligations"]))
    failed_lemma = None
    if not ok and rep.get("failed_at", "").startswith("./C20/GenObl.v"):
        ln = int(rep["failed_at"].split(":")[1])
        lines = res["obl_text"].split("\n")
        for j in range(min(ln, len(lines)) - 1, -1, -1):
            m = re.match(r"^(?:Lemma|Definition) (\w+)", lines[j])
            if m:
                failed_lemma = m.group(1)
                break
        ctx.log("first failing generated obligation: %s" % failed_lemma)
    # ------------------------------------------------------------------ the property on the implementation's output
    rng = ctx.rng("inputs")
    per_inst = ctx.pick(6, 60)
    failures, xcases, xmeta = [], [], []
    names_without_doc = [n for n, _, _ in table if n not in doc]
    xr = ctx.rng("xpick")
    xpick = {n: xr.sample(T.SETTINGS, 2) for n, _, _ in table}
    for (name, dm, ann, omp), inst in sorted(insts.items(), key=lambda kv: (kv[0][0], kv[0][1], kv[0][2], T.omp_code(kv[0][3]))):
        if "rejected" in inst or name not in doc:
            continue
        d = doc[name]
        tag = T.setting_tag(dm, ann, omp)
        ctx.hist("setting", tag)
        ctx.hist("kind", d["spec"][0])
        nfail = 0
        for c in range(per_inst):
            case = gen_case(rng, inst, d, targeted=(c if c < 3 else None))
            r = check_case(inst, d, case)
            if r == "skip":
                ctx.hist("skipped", "formula undefined on input")
                continue
            hi = doc_hi(dm, ann, d["spec"][0] == "sum", case["layout"])
            ctx.count((name, tag, case), nontrivial=hi >= 1)
            ctx.hist("undf", case["layout"]["undf"])
            ctx.hist("aliased_arguments", len(set(case["bind"].values())) < len(case["bind"]))
            if r is not None and nfail < 2:
                nfail += 1
                failures.append((inst, d, case, r))
        if dm and d["spec"][0] == "sum":
            for _ in range(per_inst):
                r = dm_global_case(rng, inst, d)
                ctx.count((name, tag, "global", _), nontrivial=True)
                if r is not None and nfail < 3:
                    nfail += 1
                    failures.append((inst, d, None, r))
        # one case per chosen instance goes to the Coq model (interpreter / emitter cross-check);
        # quick tier: two of the eight settings of every built-in (seeded), thorough: all
        if not ctx.thorough and omp != "reprod" and (dm, ann, omp) not in xpick[name] \
                and not (T.omp_sched(omp) == "none" and not dm):
            continue
        case = gen_case(rng, inst, d)
        try:
            gf, gr, _ = run_code(inst, ZOps, case["bind"], case["layout"], case["sched"], case["fields"], case["scalars"], case["red"],
                                 strict=False, loc0=case.get("loc0", 0))
            if inst["kern"][0] == "reduce_local" and (inst["omp"] is None or inst["omp"].get("reprod") is None):
                raise Fault("thread-local accumulation outside the reproducible scheme")
            if inst["kern"][0] == "reduce" and inst["omp"] is not None and not inst["omp"]["reduction"]:
                raise Fault("racy")
            xcases.append(coq_case(inst, case, gf, gr))
            xmeta.append((name, tag, case, (name, dm, ann, omp)))
        except Fault:
            pass
    if res["instances"]:
        skey = lambda k: (k[0], k[1], k[2], T.omp_code(k[3]))                                    # noqa: E731
        k0 = sorted((k for k, v in insts.items() if "rejected" not in v and k[0] in doc), key=skey)[0]
        ctx.sample(jsonable_case(insts[k0], doc[k0[0]], gen_case(ctx.rng("sample"), insts[k0], doc[k0[0]], targeted=3)))
        kr = sorted((k for k, v in insts.items() if "rejected" not in v and k[0] in doc and v["kern"][0] == "reduce_local" and k[1]), key=skey)
        if kr:
            ctx.sample(jsonable_case(insts[kr[0]], doc[kr[0][0]], gen_case(ctx.rng("sample2"), insts[kr[0]], doc[kr[0][0]], targeted=4)))
    # ------------------------------------------------------------------ interpreter == Coq model on the generated instances
    xfail = []
    gencode_vo = core.COQ / "C20" / "GenCode.vo"
    if xcases and gencode_vo.exists() and gencode_vo.stat().st_mtime >= (core.COQ / "C20" / "GenCode.v").stat().st_mtime:
        xfail = ctx.coq_eval_failing(XHEADER, "xcase", "agrees", xcases, shard=140, timeout=600)
        ctx.cov["disagreements_checked"] = len(xcases)
        ctx.log("interpreter vs Coq model on %d generated instances: %d disagreements" % (len(xcases), len(xfail)))
    else:
        ctx.log("GenCode.vo not available: interpreter cross-check skipped")
    ctx.notes["model_interpreter_disagreements"] = len(xfail)
    # ------------------------------------------------------------------ thorough extras
    extra_fail = []
    if ctx.thorough:
        extra_fail += mixed_precision_check(ctx, res)
        extra_fail += gfortran_check(ctx, res, doc)
    # ------------------------------------------------------------------ verdict
    ctx.log("property evaluations=%d failures=%d" % (ctx.cov["evaluations"], len(failures)))
    reported = set()
    for inst, d, case, r in failures:
        key = (inst["name"], r["why"])
        if key in reported or len(reported) >= 6:
            continue
        reported.add(key)
        body = {"property": "C20", "what": r["why"], "builtin": inst["name"],
                "setting": T.setting_tag(inst["dm"], inst["ann"], omp_mode(inst)), "result": r, "replay": REPLAY_HOW}
        if case is not None:
            body["input"] = jsonable_case(inst, d, case)
        else:
            body["generated"] = {"loop_body": inst.get("body_text"), "bounds": [inst["lo"], inst["hi"]], "global_sum": inst["gsum"]}
        ctx.violation(body)
    for e in extra_fail[:4]:
        ctx.violation(e, no_input=not e.get("concrete", False))
    if names_without_doc:
        ctx.violation({"property": "C20", "broken": "built-ins without a user-guide definition", "builtins": names_without_doc}, no_input=True)
    if not failures and not extra_fail and (not ok or xfail):
        if xfail:
            i = xfail[0]
            ctx.violation({"property": "C20", "broken": "check interpreter and Coq model disagree on a generated instance (harness glue)",
                           "instance": xmeta[i][:2], "case": jsonable_case(insts[xmeta[i][3]], doc[xmeta[i][0]], xmeta[i][2]),
                           "n_differing": len(xfail)}, no_input=True)
        if not ok:
            ctx.violation({"property": "C20", "broken": "proof obligations of Properties/C20.v (generated obligations no longer re-prove)",
                           "first_failing_obligation": failed_lemma, "failed_at": rep.get("failed_at"),
                           "errors": rep.get("errors"), "build_log_tail": rep.get("build_log_tail", "")[-2500:],
                           "search": "lowered code and documented formula were evaluated on %d exact inputs without a difference" % ctx.cov["evaluations"]},
                          no_input=True)


def untag(tag):
    m = re.fullmatch(r"dm(\d)_ann(\d)(_omp|_ompregion|_ompreprod)?", tag)
    return (m.group(1) == "1", m.group(2) == "1", {None: False, "_omp": True, "_ompregion": "region", "_ompreprod": "reprod"}[m.group(3)])


# ------------------------------------------------------------------------------------------------
# thorough tier
# ------------------------------------------------------------------------------------------------
def mixed_precision_check(ctx, res):
    """Real fields of the other supported precisions: the lowered kernel must be the same positional
    term (in particular kind= of the conversions must follow the written field)."""
    out = []
    for shift in (1, 2):
        try:
            _, insts, _ = T.translate_code(ctx.scratch / ("alg_mixed%d" % shift), settings=[(True, False, False), (False, True, True)], variant=("mixed", shift))
        except (T.TranslateError, T.ParseError) as err:
            out.append({"property": "C20", "broken": "translator failed on mixed-precision variant", "error": str(err)})
            continue
        n = 0
        for key, inst in insts.items():
            base = res["instances"].get(key)
            if base is None or "rejected" in base or "rejected" in inst:
                continue
            n += 1
            if inst["kern"] != base["kern"] or inst["lo"] != base["lo"] or inst["hi"] != base["hi"]:
                out.append({"property": "C20", "broken": "mixed-precision variant lowers differently", "builtin": key[0],
                            "default": repr(base["kern"]), "variant": repr(inst["kern"]), "body": inst.get("body_text")})
        ctx.notes["mixed_precision_instances_shift%d" % shift] = n
        ctx.cov["evaluations"] += n
    return out


def hash_name(s):
    return sum(ord(c) * (i + 1) for i, c in enumerate(s))


def gfortran_check(ctx, res, doc):
    """SUPPORTING EVIDENCE, TESTING ONLY: build generated PSy layers against a scratch copy of the
    bundled LFRic infrastructure and compare the printed values with the documented formula."""
    try:
        import gfrun
    except ImportError as err:                                  # pragma: no cover
        ctx.notes["gfortran_run"] = "not available: %s" % err
        return []
    return gfrun.run(ctx, res, doc, T)


def replay(ctx, path):
    """./check C20 --replay <file>: re-evaluate a recorded input on the tree under test"""
    rec = json.loads(Path(path).read_text())
    res = T.run_translators(ctx.scratch / "alg")
    inp = rec.get("input")
    if not inp:
        print("replay file has no concrete input:", rec.get("broken"))
        return 1
    o = inp["openmp"]
    key = (inp["builtin"], inp["distributed_memory"], inp["compute_annexed_dofs"],
           inp["openmp_mode"] if "openmp_mode" in inp else
           (False if o is None else {"pardo": True, "region": "region", "reprod": "reprod"}[o["form"]]))
    inst = res["instances"][key]
    d = {e["name"]: e for e in res["doc"]}[inp["builtin"]]
    sched = inp["schedule"]
    case = {"bind": {int(k): v for k, v in inp["argument_binding(arg position -> field id)"].items()}, "layout": inp["layout"],
            "fields": {int(k): [Fraction(x) for x in v] for k, v in inp["fields"].items()},
            "scalars": {int(k): Fraction(v) for k, v in inp["scalars"].items()}, "red": inp["reduction_variable_before"],
            "sched": None if sched is None else (sched[0], sched[1]), "loc0": inp.get("local_array_garbage_if_not_zeroed", 0)}
    r = check_case(inst, d, case)
    print("generated loop body now:", inst.get("body_text"), "| bounds:", inst["lo"], inst["hi"])
    print("property on the recorded input:", "HOLDS" if r is None else r)
    shutil.rmtree(ctx.scratch, ignore_errors=True)
    return 0 if r is None else 1
