"""C20 translators (all fail-closed; anything unrecognised raises TranslateError).

 1. doc      : doc/user_guide/dynamo0p3.rst  -> documented definition of every built-in
               (`**name** (args)` line + the literal formula block)           -> coq/C20/GenDoc.v
 2. meta     : src/psyclone/parse/lfric_builtins_mod.f90 -> meta_args and the `!>` formula of every
               built-in (cross-check of argument order / a second formula)     -> coq/C20/GenDoc.v
 3. code     : for every class in BUILTIN_MAP_CAPITALISED: a one-kernel invoke, generated PSy layer
               text + lower_to_language_level() of the DoF loop, under DM x annexed x {serial, OpenMP}
                                                                               -> coq/C20/GenCode.v
 4. obligations (builtin_<name>_matches_doc, dof_range_<name>_<setting>, ...)   -> coq/C20/GenObl.v

Expression trees after resolution to argument positions (Python tuples mirroring C20/Model.v):
   ('fld',k) ('scl',k) ('red',) ('lit',z) ('neg',e) ('bin',op,a,b) ('fn2',f,a,b) ('conv',c,kind,e)
"""
import os
import re
import sys
from pathlib import Path

HERE = Path(__file__).resolve().parent
sys.path.insert(0, str(HERE))
sys.path.insert(0, str(HERE.parent.parent))
import fexpr  # noqa: E402
from fexpr import ParseError  # noqa: E402


class TranslateError(Exception):
    pass


def repo_path():
    return Path(os.environ.get("VERIF_REPO", "/repo"))


BINOPS = {"+": "OAdd", "-": "OSub", "*": "OMul", "/": "ODiv", "**": "OPow"}
FN2 = {"SIGN": "FSign", "MAX": "FMax", "MIN": "FMin"}
CONV = {"INT": "CvInt", "REAL": "CvReal"}

# ------------------------------------------------------------------------------------------------
# 1. documentation
# ------------------------------------------------------------------------------------------------
ENTRY_RE = re.compile(r"^\*\*(\w+)\*\* \((.*)\)\s*$")
UNDERLINES = ("^^^^", "####", "++++", "----", "====")


def doc_arg_kind(name):
    """Kind of a documented argument from its (documented, see 'Naming scheme') name."""
    if re.fullmatch(r"ifield\d*", name):
        return ("fld", "int")
    if re.fullmatch(r"field\d*", name):
        return ("fld", "real")
    if re.fullmatch(r"rscalar\d*", name):
        return ("scl", "real")
    if re.fullmatch(r"iscalar\d*", name):
        return ("scl", "int")
    if name == "constant":
        return ("scl", "same")          # type of the field that is set
    if name in ("innprod", "sumfld"):
        return ("scl", "real")
    raise TranslateError("doc: cannot classify argument name %r" % name)


def parse_doc(rst_text):
    """-> list of entries {name, args:[(name, kind, ty, written)], formula_lines, spec, line}"""
    lines = rst_text.split("\n")
    try:
        start = next(i for i, l in enumerate(lines) if l.strip() == ".. _lfric-built-ins-real:")
        end = next(i for i, l in enumerate(lines) if i > start and l.strip() == "Boundary Conditions")
    except StopIteration:
        raise TranslateError("doc: cannot find the built-ins section markers")
    # headings with ^^^^ underline inside the section are exactly the built-in entries
    heads = [i for i in range(start, end) if lines[i + 1].startswith("^^^^") and lines[i].strip()]
    entries = []
    for n, h in enumerate(heads):
        name = lines[h].strip()
        # body: until next heading of any level
        j = h + 2
        body_end = end
        for k in range(j, end):
            if k + 1 < len(lines) and lines[k].strip() and lines[k + 1][:4] in UNDERLINES \
                    and len(lines[k + 1].strip()) >= len(lines[k].strip()) and set(lines[k + 1].strip()) <= set("^#+-="):
                body_end = k
                break
        body = lines[j:body_end]
        sig = [(j + b, ENTRY_RE.match(l)) for b, l in enumerate(body) if ENTRY_RE.match(l)]
        if len(sig) != 1:
            raise TranslateError("doc: entry %r (line %d) has %d signature lines" % (name, h + 1, len(sig)))
        ln, m = sig[0]
        if m.group(1) != name:
            raise TranslateError("doc: heading %r but signature %r (line %d)" % (name, m.group(1), ln + 1))
        args = []
        for a in [x.strip() for x in m.group(2).split(",")]:
            mb = re.fullmatch(r"\*\*(\w+)\*\*", a)
            mi = re.fullmatch(r"\*(\w+)\*", a)
            if mb:
                args.append((mb.group(1), True))
            elif mi:
                args.append((mi.group(1), False))
            else:
                raise TranslateError("doc: entry %s: cannot parse argument %r" % (name, a))
        # literal blocks: a paragraph ending in '::' then blank then indented lines
        blocks = []
        k = ln - j + 1
        while k < len(body):
            if body[k].rstrip().endswith("::") and not body[k].lstrip().startswith(".."):
                b = k + 1
                while b < len(body) and not body[b].strip():
                    b += 1
                blk = []
                while b < len(body) and (body[b].startswith("  ") or not body[b].strip()):
                    if body[b].strip():
                        blk.append(body[b].strip())
                    b += 1
                blocks.append(blk)
                k = b
            else:
                k += 1
        if len(blocks) != 1 or not blocks[0]:
            raise TranslateError("doc: entry %s has %d formula blocks" % (name, len(blocks)))
        entries.append({"name": name, "raw_args": args, "formula_lines": blocks[0], "line": ln + 1})
    # any signature line that is not under a ^^^^ heading is an error (nothing silently skipped)
    nsig = sum(1 for i in range(start, end) if ENTRY_RE.match(lines[i]))
    if nsig != len(entries):
        raise TranslateError("doc: %d signature lines but %d entries" % (nsig, len(entries)))
    for e in entries:
        resolve_doc_entry(e)
    names = [e["name"] for e in entries]
    if len(set(n.lower() for n in names)) != len(names):
        raise TranslateError("doc: duplicate entries")
    return entries


def resolve_names(tree, pos, kinds, redname=None):
    """named tree (fexpr) -> positional tree.  pos: name -> argument position."""
    t = tree[0]
    if t == "lit":
        return ("lit", tree[1])
    if t == "neg":
        return ("neg", resolve_names(tree[1], pos, kinds, redname))
    if t == "bin":
        return ("bin", BINOPS[tree[1]], resolve_names(tree[2], pos, kinds, redname),
                resolve_names(tree[3], pos, kinds, redname))
    if t == "elem":
        if tree[1] not in pos or kinds[pos[tree[1]]][0] != "fld":
            raise TranslateError("element reference to non-field %r" % (tree[1],))
        return ("fld", pos[tree[1]])
    if t == "name":
        if redname is not None and tree[1] == redname:
            return ("red",)
        if tree[1] not in pos or kinds[pos[tree[1]]][0] != "scl":
            raise TranslateError("bare reference to non-scalar %r" % (tree[1],))
        return ("scl", pos[tree[1]])
    if t == "call":
        f, args, kw = tree[1], tree[2], tree[3]
        if f in FN2 and len(args) == 2 and not kw:
            return ("fn2", FN2[f], resolve_names(args[0], pos, kinds, redname),
                    resolve_names(args[1], pos, kinds, redname))
        if f in CONV and len(args) == 1 and set(kw) == {"kind"}:
            return ("conv", CONV[f], ("kname", kw["kind"]), resolve_names(args[0], pos, kinds, redname))
        raise TranslateError("unsupported call %s/%d %s" % (f, len(args), sorted(kw)))
    raise TranslateError("unsupported tree %r" % (tree,))


def resolve_doc_entry(e):
    name = e["name"]
    kinds = [doc_arg_kind(a) for a, _ in e["raw_args"]]
    written = [i for i, (_, w) in enumerate(e["raw_args"]) if w]
    if len(written) != 1:
        raise TranslateError("doc: %s must have exactly one bold (written) argument" % name)
    w = written[0]
    # 'constant' has the type of the field being set
    ftys = {k[1] for k in kinds if k[0] == "fld"}
    kinds = [(k[0], (kinds[w][1] if k[1] == "same" else k[1])) for k in kinds]
    pos = {}
    for i, (a, _) in enumerate(e["raw_args"]):
        if a in pos:
            raise TranslateError("doc: %s repeats argument name %s" % (name, a))
        pos[a] = i
    e["args"] = [(kinds[i][0], kinds[i][1], i == w) for i in range(len(kinds))]
    e["written"] = w
    fl = e["formula_lines"]
    try:
        if len(fl) == 1:
            lhs, rhs = fexpr.parse_assignment(fl[0])
            wname = e["raw_args"][w][0]
            if lhs == ("elem", wname) and kinds[w][0] == "fld":
                tree = resolve_names(rhs, pos, kinds)
                tree = doc_kind_placeholder(tree, kinds[w][1])
                e["spec"] = ("pointwise", w, tree)
            elif lhs == ("name", wname) and kinds[w][0] == "scl":
                if rhs[0] == "call" and rhs[1] == "SUM" and len(rhs[2]) == 1 and not rhs[3]:
                    e["spec"] = ("sum", resolve_names(rhs[2][0], pos, kinds))
                else:
                    raise TranslateError("doc: %s: scalar result that is not SUM(...)" % name)
            else:
                raise TranslateError("doc: %s: left-hand side %r is not the bold argument %s" % (name, lhs, wname))
        elif [x.lower() for x in fl] == ["do df = 1, ndofs", "%s(df) = rand()" % e["raw_args"][w][0], "end do"] \
                and kinds[w][0] == "fld":
            e["spec"] = ("random", w)
        else:
            raise TranslateError("doc: %s: unrecognised formula block %r" % (name, fl))
    except ParseError as err:
        raise TranslateError("doc: %s: %s" % (name, err))
    return e


def doc_kind_placeholder(tree, lhs_ty):
    """`kind=i_<prec>` / `kind=r_<prec>` in the guide stands for the precision of the written field
    (the entry texts say so); it must be the integer placeholder iff the written field is integer."""
    t = tree[0]
    if t == "conv":
        kn = tree[2][1]
        want = "i_<prec>" if lhs_ty == "int" else "r_<prec>"
        if kn != want:
            raise TranslateError("doc: kind placeholder %r, expected %r" % (kn, want))
        if (tree[1] == "CvInt") != (lhs_ty == "int"):
            raise TranslateError("doc: conversion %s to a %s field" % (tree[1], lhs_ty))
        return ("conv", tree[1], ("klhs",), doc_kind_placeholder(tree[3], lhs_ty))
    if t == "neg":
        return ("neg", doc_kind_placeholder(tree[1], lhs_ty))
    if t in ("bin", "fn2"):
        return (t, tree[1], doc_kind_placeholder(tree[2], lhs_ty), doc_kind_placeholder(tree[3], lhs_ty))
    return tree


# ------------------------------------------------------------------------------------------------
# 2. lfric_builtins_mod.f90
# ------------------------------------------------------------------------------------------------
TYPE_RE = re.compile(r"^\s*type, public, extends\(kernel_type\) :: (\w+)\s*$")
ARG_RE = re.compile(r"arg_type\(\s*(GH_FIELD|GH_SCALAR)\s*,\s*(GH_REAL|GH_INTEGER)\s*,\s*"
                    r"(GH_READ|GH_WRITE|GH_READWRITE|GH_SUM)\s*(?:,\s*(\w+)\s*)?\)")


def parse_meta(f90_text):
    """-> {name: {args:[(kind, ty, written)], comment, spaces}} in file order."""
    lines = f90_text.split("\n")
    out = {}
    i = 0
    while i < len(lines):
        m = TYPE_RE.match(lines[i])
        if not m:
            i += 1
            continue
        name = m.group(1)
        if i == 0 or not lines[i - 1].strip().startswith("!>"):
            raise TranslateError("meta: %s has no `!>` line" % name)
        comment = lines[i - 1].strip()[2:].strip()
        j = i + 1
        blk = []
        while not re.match(r"^\s*end type " + re.escape(name) + r"\s*$", lines[j]):
            blk.append(lines[j])
            j += 1
            if j >= len(lines):
                raise TranslateError("meta: unterminated type %s" % name)
        text = " ".join(blk)
        mm = re.search(r"meta_args\((\d+)\)", text)
        found = ARG_RE.findall(text)
        if not mm or int(mm.group(1)) != len(found) or text.count("arg_type(") != len(found):
            raise TranslateError("meta: %s: cannot parse meta_args" % name)
        if not re.search(r"operates_on\s*=\s*DOF", text):
            raise TranslateError("meta: %s does not operate on DOF" % name)
        args, spaces = [], set()
        for at, dt, acc, fs in found:
            kind = "fld" if at == "GH_FIELD" else "scl"
            if (kind == "fld") != bool(fs):
                raise TranslateError("meta: %s: function space on scalar / missing on field" % name)
            if fs:
                spaces.add(fs)
            args.append((kind, "real" if dt == "GH_REAL" else "int", acc != "GH_READ"))
        if name in out:
            raise TranslateError("meta: duplicate type %s" % name)
        out[name] = {"args": args, "comment": comment, "spaces": sorted(spaces), "line": i + 1}
        i = j + 1
    if f90_text.count("extends(kernel_type)") != len(out):
        raise TranslateError("meta: %d kernel types found but %d parsed" % (f90_text.count("extends(kernel_type)"), len(out)))
    return out


def meta_comment_spec(name, meta, doc):
    """Resolve the `!>` formula onto the documented argument names.  The `!>` lines use the same
    names as the guide except `scalar<n>` for `rscalar<n>`/`iscalar<n>`/`constant`, and write the
    reductions and conversions in free form (recognised explicitly below).  Returns
    (spec or None, note)."""
    c = meta["comment"]
    names = [a for a, _ in doc["raw_args"]]
    kinds = [(k, t) for k, t, _ in doc["args"]]
    w = doc["written"]
    pos = {a: i for i, a in enumerate(names)}
    alias = dict(pos)
    for a, i in pos.items():
        m = re.fullmatch(r"[ri]scalar(\d*)", a)
        if m:
            alias.setdefault("scalar" + m.group(1), i)
        if a == "constant":
            alias.setdefault("scalar", i)
            alias.setdefault("iscalar" if kinds[i][1] == "int" else "rscalar", i)
    wname = names[w]
    special = {
        "innprod = innprod + field1(i,j,..)*field2(i,j,...)": ("sum", ("bin", "OMul", ("fld", alias.get("field1", -1)), ("fld", alias.get("field2", -1)))),
        "innprod = innprod + field(i,j,..)*field(i,j,...)": ("sum", ("bin", "OMul", ("fld", alias.get("field", -1)), ("fld", alias.get("field", -1)))),
        "sumfld = SUM(field(:,:,...))": ("sum", ("fld", alias.get("field", -1))),
        "field = random()": ("random", w),
    }
    if c in special:
        return special[c], "free-form `!>` line recognised verbatim"
    txt = re.sub(r"\s*\((real|integer) scalar\)\s*$", "", c)       # trailing remark on the pow lines
    m = re.fullmatch(r"(\w+) = (int|real)\((\w+), ([ri])_<prec>\)", txt)
    try:
        if m:
            if m.group(1) != wname or alias.get(m.group(3)) is None:
                raise TranslateError("meta: %s: `!>` %r names unknown arguments" % (name, c))
            cv = "CvInt" if m.group(2) == "int" else "CvReal"
            if (m.group(4) == "i") != (kinds[w][1] == "int"):
                raise TranslateError("meta: %s: `!>` kind letter does not match written field" % name)
            return ("pointwise", w, ("conv", cv, ("klhs",), ("fld", alias[m.group(3)]))), "conversion `!>` line"
        lhs, rhs = fexpr.parse_assignment(txt)
        if lhs != ("name", wname):
            raise TranslateError("meta: %s: `!>` left-hand side %r is not %s" % (name, lhs, wname))

        def conv(t):
            # in the `!>` lines fields are written without (:)
            if t[0] == "name":
                if t[1] not in alias:
                    raise TranslateError("meta: %s: `!>` unknown name %s" % (name, t[1]))
                k = alias[t[1]]
                return ("fld", k) if kinds[k][0] == "fld" else ("scl", k)
            if t[0] == "lit":
                return t
            if t[0] == "neg":
                return ("neg", conv(t[1]))
            if t[0] == "bin":
                return ("bin", BINOPS[t[1]], conv(t[2]), conv(t[3]))
            if t[0] == "call" and t[1] in FN2 and len(t[2]) == 2 and not t[3]:
                return ("fn2", FN2[t[1]], conv(t[2][0]), conv(t[2][1]))
            raise TranslateError("meta: %s: unsupported `!>` tree %r" % (name, t))
        return ("pointwise", w, conv(rhs)), "parsed"
    except ParseError as err:
        raise TranslateError("meta: %s: `!>` %r: %s" % (name, c, err))



# ------------------------------------------------------------------------------------------------
# 3. the implementation: generated PSy layer + lowered PSyIR for every built-in
# ------------------------------------------------------------------------------------------------
API = "dynamo0.3"
# omp: False = serial, True = OMP PARALLEL DO (DynamoOMPParallelLoopTrans), "region" = OMP DO inside an
# OMP PARALLEL region (Dynamo0p3OMPLoopTrans + OMPParallelTrans), "reprod" = the same with
# run-reproducible reductions ({"reprod": True}; reduction built-ins only)
OMP_MODES = (False, True, "region")
SETTINGS = [(dm, ann, omp) for dm in (False, True) for ann in (False, True) for omp in OMP_MODES]
REPROD_SETTINGS = [(dm, ann, "reprod") for dm in (False, True) for ann in (False, True)]
OMP_SUFFIX = {False: "", True: "_omp", "region": "_ompregion", "reprod": "_ompreprod"}
OMP_CODE = {False: 0, True: 1, "region": 2, "reprod": 3}
# option grid of the OpenMP loop transformations, for the reduction built-ins: omp_schedule of
# DynamoOMPParallelLoopTrans ("pardo") and Dynamo0p3OMPLoopTrans ("region"; "reprod" = reprod=True).
# A grid mode is the string "<base>@<schedule>"; the default schedule (static) is the plain mode above.
SCHEDULES = ["static", "none", "dynamic", "guided", "auto", "static,4"]
GRID_SETTINGS = [(dm, ann, "%s@%s" % (base, sch)) for dm, ann in ((False, False), (True, True))
                 for base in ("pardo", "region", "reprod") for sch in SCHEDULES if sch != "static"]


def omp_base(omp):
    """mode -> False | True | 'region' | 'reprod'"""
    if isinstance(omp, str) and "@" in omp:
        b = omp.split("@")[0]
        return True if b == "pardo" else b
    return omp


def omp_sched(omp):
    return omp.split("@")[1] if isinstance(omp, str) and "@" in omp else None


def omp_code(omp):
    sch = omp_sched(omp)
    return OMP_CODE[omp_base(omp)] * 10 + (SCHEDULES.index(sch) if sch else 0)


def setting_tag(dm, ann, omp):
    sch = omp_sched(omp)
    return "dm%d_ann%d%s%s" % (dm, ann, OMP_SUFFIX[omp_base(omp)], "_s" + cid(sch) if sch else "")


def builtin_table():
    """[(CapName, cls, args)] for every class in BUILTIN_MAP (args from the class's metadata())."""
    from psyclone.configuration import Config
    Config.get()
    from psyclone.domain.lfric import lfric_builtins as lb
    caps = list(lb.BUILTIN_MAP_CAPITALISED.items())
    if sorted(lb.BUILTIN_MAP) != sorted(n.lower() for n, _ in caps) or len(lb.BUILTIN_MAP) != len(caps):
        raise TranslateError("code: BUILTIN_MAP and BUILTIN_MAP_CAPITALISED disagree")
    out = []
    for name, cls in caps:
        if lb.BUILTIN_MAP[name.lower()] is not cls:
            raise TranslateError("code: BUILTIN_MAP[%s] is a different class" % name.lower())
        md = cls.metadata()
        if md.operates_on != "dof":
            raise TranslateError("code: %s does not operate on dof" % name)
        args = []
        for a in md.meta_args:
            cn = type(a).__name__
            if cn not in ("FieldArgMetadata", "ScalarArgMetadata"):
                raise TranslateError("code: %s: unsupported argument metadata %s" % (name, cn))
            if a.datatype not in ("gh_real", "gh_integer") or a.access not in ("gh_read", "gh_write", "gh_readwrite", "gh_sum"):
                raise TranslateError("code: %s: unsupported datatype/access %s/%s" % (name, a.datatype, a.access))
            args.append(("fld" if cn == "FieldArgMetadata" else "scl",
                         "real" if a.datatype == "gh_real" else "int", a.access != "gh_read"))
        out.append((name, cls, args))
    return out


FIELD_TYPES = {"real": ("field_mod", "field_type"), "int": ("integer_field_mod", "integer_field_type")}
# mixed-precision variants of real fields (user guide, "Mixed precision")
REAL_FIELD_VARIANTS = [("field_mod", "field_type", "r_def"), ("r_solver_field_mod", "r_solver_field_type", "r_solver"),
                       ("r_tran_field_mod", "r_tran_field_type", "r_tran"), ("r_bl_field_mod", "r_bl_field_type", "r_bl"),
                       ("r_phys_field_mod", "r_phys_field_type", "r_phys")]


def algorithm_source(chunk, variant=None):
    """One program with one named single-kernel invoke per built-in of the chunk.  Every argument
    position gets its own variable, so argument order is observable in the generated code.
    chunk: [(idx, name, args)];  variant: optional function (name, k, arg) -> (module, type) for
    real fields."""
    uses = {"constants_mod": {"r_def", "i_def"}}
    decls, calls, actual = [], [], {}
    for idx, name, args in chunk:
        names = []
        for k, (kind, ty, _) in enumerate(args):
            nm = "b%da%d" % (idx, k)
            if kind == "fld":
                mod, typ = FIELD_TYPES[ty]
                if ty == "real" and variant is not None:
                    mod, typ = variant(name, k)
                elif ty == "real" and [a[0] for a in args] == ["fld", "fld"]:
                    # copy / conversion built-ins (setval_X, real_to_real_X, real_to_int_X, int_to_real_X):
                    # written and read real fields get different precisions so that a wrong kind= shows
                    mod, typ = ("r_tran_field_mod", "r_tran_field_type") if args[k][2] else ("r_solver_field_mod", "r_solver_field_type")
                uses.setdefault(mod, set()).add(typ)
                decls.append("  type(%s) :: %s" % (typ, nm))
            else:
                decls.append("  %s :: %s" % ("real(r_def)" if ty == "real" else "integer(i_def)", nm))
            names.append(nm)
        actual[name] = names
        calls.append('  call invoke(name="bi_%s", %s(%s))' % (name.lower(), name, ", ".join(names)))
    src = ["program c20_alg"]
    src += ["  use %s, only: %s" % (m, ", ".join(sorted(v))) for m, v in sorted(uses.items())]
    src += ["  implicit none"] + decls + calls + ["end program c20_alg", ""]
    return "\n".join(src), actual


def join_continuations(text):
    out = []
    for raw in text.split("\n"):
        line = raw.rstrip()
        if out and out[-1].endswith("&"):
            prev = out[-1][:-1]
            cur = line.lstrip()
            if prev.lstrip().lower().startswith("!$omp") and cur.lower().startswith("!$omp"):
                cur = cur[5:].lstrip()
            if cur.startswith("&"):
                cur = cur[1:]
            else:
                cur = " " + cur
            out[-1] = prev + cur
        else:
            out.append(line)
    return out


DECL_RE = re.compile(r"^(USE |IMPLICIT NONE|TYPE\(|INTEGER\(|REAL\(|INTEGER |REAL |LOGICAL|CONTAINS)", re.I)
DATA_DECL_RE = re.compile(r"^(REAL|INTEGER)\(KIND=(\w+)\), pointer, dimension\(:\) :: (\w+) => null\(\)$", re.I)


def split_subroutines(psy_text):
    lines = join_continuations(psy_text)
    subs, cur, name = {}, None, None
    for l in lines:
        t = l.strip()
        m = re.match(r"^SUBROUTINE (\w+)\((.*)\)$", t, re.I)
        if m:
            if cur is not None:
                raise TranslateError("code: nested SUBROUTINE")
            name, cur = m.group(1).lower(), {"formals": [x.strip() for x in m.group(2).split(",") if x.strip()], "lines": []}
            continue
        if re.match(r"^END SUBROUTINE", t, re.I):
            subs[name] = cur
            cur = None
            continue
        if cur is not None:
            cur["lines"].append(t)
    return subs


def parse_invoke_text(name, sub, actual, args):
    """Interpret the statements of one generated invoke subroutine (fail-closed).  Returns the
    named skeleton: events in execution order and the symbol chains data -> proxy -> argument."""
    if [f.lower() for f in sub["formals"]] != [a.lower() for a in actual]:
        raise TranslateError("code: %s: formal arguments %s differ from the actual arguments %s" % (name, sub["formals"], actual))
    proxy_of, data_of, undf_of, data_kind = {}, {}, {}, {}
    bounds, events = {}, []
    for t in sub["lines"]:
        if not t:
            continue
        if t.startswith("!"):
            if t.lower().startswith("!$omp"):
                events.append(("omp", t[5:].strip()))
            continue
        m = DATA_DECL_RE.match(t)
        if m:
            data_kind[m.group(3).lower()] = (m.group(1).lower(), m.group(2).lower())
            continue
        if DECL_RE.match(t):
            continue
        low = t.lower()
        m = re.match(r"^(\w+) = (\w+)%get_proxy\(\)$", low)
        if m:
            proxy_of[m.group(1)] = m.group(2)
            continue
        m = re.match(r"^(\w+) => (\w+)%data$", low)
        if m:
            data_of[m.group(1)] = m.group(2)
            continue
        m = re.match(r"^(\w+) = (\w+)%vspace%get_undf\(\)$", low)
        if m:
            undf_of[m.group(1)] = m.group(2)
            continue
        if re.match(r"^mesh => \w+%vspace%get_mesh\(\)$", low) or re.match(r"^max_halo_depth_mesh = mesh%get_halo_depth\(\)$", low):
            continue
        m = re.match(r"^(loop\d+_(?:start|stop)) = (.+)$", low)
        if m:
            if m.group(1) in bounds:
                raise TranslateError("code: %s: %s assigned twice" % (name, m.group(1)))
            bounds[m.group(1)] = m.group(2).strip()
            continue
        m = re.match(r"^nthreads = omp_get_max_threads\(\)$", low)
        if m:
            events.append(("nthreads",))
            continue
        m = re.match(r"^(\w+) = omp_get_thread_num\(\)\s*\+\s*1$", low)
        if m:
            events.append(("thidx", m.group(1)))
            continue
        m = re.match(r"^allocate \((\w+)\((\d+),\s*nthreads\)\)$", low)
        if m:
            events.append(("alloc", m.group(1), int(m.group(2))))
            continue
        m = re.match(r"^deallocate \((\w+)\)$", low)
        if m:
            events.append(("dealloc", m.group(1)))
            continue
        m = re.match(r"^do (\w+)\s*=\s*([^,]+),\s*([^,]+?)(?:,\s*(.+))?$", low)
        if m:
            events.append(("do", m.group(1), m.group(2).strip(), m.group(3).strip(), (m.group(4) or "1").strip()))
            continue
        if low == "end do":
            events.append(("enddo",))
            continue
        m = re.match(r"^global_sum%value = (\w+)$", low)
        if m:
            events.append(("gsum_set", m.group(1)))
            continue
        m = re.match(r"^(\w+) = global_sum%get_sum\(\)$", low)
        if m:
            events.append(("gsum_get", m.group(1)))
            continue
        m = re.match(r"^call (\w+)%set_(dirty|clean)\((\d*)\)$", low)
        if m:
            events.append(("halo", m.group(1), m.group(2), m.group(3)))
            continue
        m = re.match(r"^(\w+) = 0(?:\.0*)?(?:_\w+)?$", low)
        if m:
            events.append(("zero", m.group(1)))
            continue
        m = re.match(r"^call random_number\((\w+)\((\w+)\)\)$", low)
        if m:
            events.append(("random", m.group(1), m.group(2)))
            continue
        if re.match(r"^[\w(),]+ = ", low):
            events.append(("assign", low))
            continue
        raise TranslateError("code: %s: unrecognised generated statement %r" % (name, t))
    return {"proxy_of": proxy_of, "data_of": data_of, "undf_of": undf_of, "data_kind": data_kind,
            "bounds": bounds, "events": events}


def parse_omp(name, text, redvar):
    """one `!$omp ...` line -> (kind, clauses) with kind in 'parallel do', 'parallel', 'do',
    'end parallel do', 'end parallel', 'end do'; clauses: default_shared / private (list) /
    schedule / reduction (bool: reduction(+:<the reduction variable>))"""
    low = " ".join(text.lower().split())
    for kind in ("end parallel do", "end parallel", "end do"):
        if low == kind:
            return kind, {}
    for kind in ("parallel do", "parallel", "do"):
        if low == kind or low.startswith(kind + " "):
            rest = low[len(kind):].strip()
            break
    else:
        raise TranslateError("code: %s: unsupported OpenMP directive %r" % (name, text))
    clauses, depth, cur = [], 0, ""
    for ch in rest:
        if ch == "(":
            depth += 1
        if ch == ")":
            depth -= 1
        if ch == "," and depth == 0:
            clauses.append(cur.strip())
            cur = ""
        else:
            cur += ch
    if cur.strip():
        clauses.append(cur.strip())
    d = {"default_shared": False, "private": [], "reduction": False, "schedule": ""}
    for c in clauses:
        m = re.fullmatch(r"(\w+)\((.*)\)", c)
        if not m:
            raise TranslateError("code: %s: unsupported OpenMP clause %r" % (name, c))
        k, v = m.group(1), m.group(2).replace(" ", "")
        if k == "default":
            d["default_shared"] = (v == "shared")
        elif k == "private":
            d["private"] = v.split(",")
            if redvar is not None and redvar in d["private"]:
                raise TranslateError("code: %s: reduction variable is private" % name)
        elif k == "schedule":
            d["schedule"] = v
        elif k == "reduction":
            mm = re.fullmatch(r"\+:(\w+)", v)
            if not mm:
                raise TranslateError("code: %s: unsupported reduction clause %r" % (name, c))
            if redvar is None or mm.group(1) != redvar:
                raise TranslateError("code: %s: reduction clause on %r, not on the reduction variable" % (name, mm.group(1)))
            d["reduction"] = True
        else:
            raise TranslateError("code: %s: unsupported OpenMP clause %r" % (name, c))
    return kind, d


def resolve_bound(name, txt, sk, actual, args):
    """text of a loop bound -> ('lit',z) | ('undf',k) | ('owned',k) | ('annexed',k) | ('halo',k,d)"""
    def arg_of_proxy(p):
        a = sk["proxy_of"].get(p)
        if a is None or a not in [x.lower() for x in actual]:
            raise TranslateError("code: %s: bound uses unknown proxy %r" % (name, p))
        k = [x.lower() for x in actual].index(a)
        return k
    if re.fullmatch(r"-?\d+", txt):
        return ("lit", int(txt))
    if txt in sk["undf_of"]:
        return ("undf", arg_of_proxy(sk["undf_of"][txt]))
    m = re.fullmatch(r"(\w+)%vspace%get_last_dof_(owned|annexed)\(\)", txt)
    if m:
        return (m.group(2), arg_of_proxy(m.group(1)))
    m = re.fullmatch(r"(\w+)%vspace%get_last_dof_halo\((\d+)\)", txt)
    if m:
        return ("halo", arg_of_proxy(m.group(1)), int(m.group(2)))
    raise TranslateError("code: %s: unrecognised loop bound %r" % (name, txt))


class Resolver:
    """names of the generated code -> argument positions (through data => proxy%data, proxy = arg%get_proxy())"""

    def __init__(self, name, sk, actual, args):
        self.name, self.sk, self.args = name, sk, args
        self.actual = [a.lower() for a in actual]
        self.red = None
        self.local = None        # name of the thread-local array of a reproducible reduction
        self.thidx = None        # name of the thread index variable
        w = [k for k, a in enumerate(args) if a[0] == "scl" and a[2]]
        if w:
            self.red = self.actual[w[0]]

    def is_local_elem(self, t):
        """l_red(1, th_idx): this thread's element of the reproducible-reduction array"""
        return (t[0] == "call" and self.local is not None and t[1].lower() == self.local and not t[3]
                and len(t[2]) == 2 and t[2][0] == ("lit", 1) and t[2][1][0] == "name"
                and self.thidx is not None and t[2][1][1].lower() == self.thidx)

    def field_of_data(self, dname):
        p = self.sk["data_of"].get(dname)
        a = self.sk["proxy_of"].get(p) if p else None
        if a is None or a not in self.actual:
            raise TranslateError("code: %s: %r is not the data pointer of an argument" % (self.name, dname))
        k = self.actual.index(a)
        if self.args[k][0] != "fld":
            raise TranslateError("code: %s: %r belongs to a non-field argument" % (self.name, dname))
        decl = self.sk["data_kind"].get(dname)
        want = "real" if self.args[k][1] == "real" else "integer"
        if decl is None or decl[0] != want:
            raise TranslateError("code: %s: data pointer %r is declared %r but the argument is %s" % (self.name, dname, decl, want))
        return k

    def tree(self, t, lhs_data):
        k = t[0]
        if k == "lit":
            return t
        if k == "neg":
            return ("neg", self.tree(t[1], lhs_data))
        if k == "bin":
            return ("bin", BINOPS[t[1]], self.tree(t[2], lhs_data), self.tree(t[3], lhs_data))
        if k == "elem":
            return ("fld", self.field_of_data(t[1].lower()))
        if k == "name":
            n = t[1].lower()
            if n == self.red:
                return ("red",)
            if n in self.actual and self.args[self.actual.index(n)][0] == "scl":
                return ("scl", self.actual.index(n))
            raise TranslateError("code: %s: reference to %r which is not a scalar argument" % (self.name, n))
        if k == "call":
            if self.is_local_elem(t):
                return ("loc",)
            f, a, kw = t[1], t[2], t[3]
            if f in FN2 and len(a) == 2 and not kw:
                return ("fn2", FN2[f], self.tree(a[0], lhs_data), self.tree(a[1], lhs_data))
            if f in CONV and len(a) == 1 and set(kw) == {"kind"}:
                kn = kw["kind"].lower()
                lk = self.sk["data_kind"].get(lhs_data, (None, None))[1] if lhs_data else None
                kind = ("klhs",) if lk is not None and kn == lk else ("kname", kn)
                return ("conv", CONV[f], kind, self.tree(a[0], lhs_data))
            raise TranslateError("code: %s: unsupported call %s/%d %s" % (self.name, f, len(a), sorted(kw)))
        raise TranslateError("code: %s: unsupported expression %r" % (self.name, t))


def build_instance(name, sk, actual, args, dm, ann, omp):
    """named skeleton -> positional instance dict (mirrors Model.instance); checks statement order.
    Returns (inst, resolver)."""
    ev = list(sk["events"])
    R = Resolver(name, sk, actual, args)
    inst = {"name": name, "dm": dm, "ann": ann, "args": args, "zero": False, "omp": None, "gsum": False}
    pos = [0]

    def peek():
        return ev[pos[0]] if pos[0] < len(ev) else ("eof",)

    def take(kind=None):
        e = peek()
        if kind is not None and e[0] != kind:
            raise TranslateError("code: %s: expected %s, found %r" % (name, kind, e))
        pos[0] += 1
        return e

    def omp_line():
        e = take("omp")
        return parse_omp(name, e[1], R.red)
    reprod = None
    if peek()[0] == "nthreads":
        take()
        reprod = {"zeroed": False, "thidx_set": False, "thidx_private": False, "final_sum": False}
    if peek()[0] == "zero":
        if peek()[1] != R.red:
            raise TranslateError("code: %s: %r zeroed, which is not the reduction argument" % (name, peek()[1]))
        inst["zero"] = True
        take()
    if peek()[0] == "alloc":
        if reprod is None or R.red is None:
            raise TranslateError("code: %s: local reduction array without nthreads / reduction argument" % name)
        _, lname, rows = take()
        if rows < 1:
            raise TranslateError("code: %s: local reduction array has %d rows" % (name, rows))
        R.local = lname
        if peek() == ("zero", lname):
            take()
            reprod["zeroed"] = True
    elif reprod is not None:
        raise TranslateError("code: %s: nthreads queried but no local reduction array allocated" % name)
    form, clauses = None, None
    if peek()[0] == "omp":
        kind, cl = omp_line()
        if kind == "parallel do":
            form, clauses = "pardo", cl
        elif kind == "parallel":
            if peek()[0] == "thidx":
                R.thidx = take()[1]
                if reprod is not None:
                    reprod["thidx_set"] = True
            kind2, cl2 = omp_line()
            if kind2 != "do":
                raise TranslateError("code: %s: expected `!$omp do` inside the parallel region, found %r" % (name, kind2))
            if cl2["private"] or cl2["default_shared"]:
                raise TranslateError("code: %s: data-sharing clauses on `!$omp do`" % name)
            form = "reprod" if reprod is not None else "region"
            clauses = {"default_shared": cl["default_shared"], "private": cl["private"],
                       "schedule": cl2["schedule"] or cl["schedule"], "reduction": cl2["reduction"] or cl["reduction"]}
        else:
            raise TranslateError("code: %s: unexpected OpenMP directive %r before the loop" % (name, kind))
    elif reprod is not None:
        raise TranslateError("code: %s: reproducible-reduction set-up without an OpenMP region" % name)
    _, dovar, lo, hi, step = take("do")
    if dovar != "df":
        raise TranslateError("code: %s: DoF loop variable is %r" % (name, dovar))
    if step != "1":
        raise TranslateError("code: %s: DoF loop step is %r" % (name, step))
    if form is not None:
        inst["omp"] = {"form": form, "default_shared": clauses["default_shared"], "private_df": dovar in clauses["private"],
                       "reduction": clauses["reduction"], "schedule": clauses["schedule"]}
        if reprod is not None:
            reprod["thidx_private"] = R.thidx is not None and R.thidx in clauses["private"]
            inst["omp"]["reprod"] = reprod
    for side, var in (("lo", lo), ("hi", hi)):
        if var not in sk["bounds"]:
            raise TranslateError("code: %s: loop bound variable %r is never assigned" % (name, var))
        inst[side] = resolve_bound(name, sk["bounds"][var], sk, actual, args)
    if len(sk["bounds"]) != 2:
        raise TranslateError("code: %s: unexpected bound variables %s" % (name, sorted(sk["bounds"])))
    body = take()
    if body[0] == "assign":
        lhs, rhs = fexpr.parse_assignment(body[1], index_names=(dovar,))
        if lhs[0] == "elem":
            out = R.field_of_data(lhs[1].lower())
            inst["kern"] = ("assign", out, R.tree(rhs, lhs[1].lower()))
        elif lhs[0] == "name":
            if lhs[1].lower() != R.red:
                raise TranslateError("code: %s: assignment to %r inside the DoF loop" % (name, lhs[1]))
            inst["kern"] = ("reduce", R.tree(rhs, None))
        elif R.is_local_elem(lhs):
            inst["kern"] = ("reduce_local", R.tree(rhs, None))
        else:
            raise TranslateError("code: %s: assignment to %r inside the DoF loop" % (name, lhs))
        inst["body_text"] = body[1]
    elif body[0] == "random":
        if body[2] != dovar:
            raise TranslateError("code: %s: random_number on element %r" % (name, body[2]))
        inst["kern"] = ("random", R.field_of_data(body[1]))
        inst["body_text"] = "call random_number(%s(%s))" % (body[1], body[2])
    else:
        raise TranslateError("code: %s: unexpected loop body %r" % (name, body))
    if peek()[0] != "enddo":
        raise TranslateError("code: %s: more than one statement in the DoF loop: %r" % (name, peek()))
    take()
    if form == "pardo":
        if omp_line()[0] != "end parallel do":
            raise TranslateError("code: %s: OpenMP parallel do not closed after the loop" % name)
    elif form in ("region", "reprod"):
        if omp_line()[0] != "end do" or omp_line()[0] != "end parallel":
            raise TranslateError("code: %s: OpenMP region not closed after the loop" % name)
    if reprod is not None:
        # DO th_idx=1,nthreads / red = red + l_red(1,th_idx) / END DO / DEALLOCATE (l_red)
        if peek()[0] == "do":
            _, tv, tlo, thi, tstep = take()
            st = take()
            ok = (tv == R.thidx and tlo == "1" and thi == "nthreads" and tstep == "1" and st[0] == "assign")
            if ok:
                l2, r2 = fexpr.parse_assignment(st[1], index_names=())
                ok = (l2 == ("name", R.red) or (l2[0] == "name" and l2[1].lower() == R.red)) and \
                    R.tree(r2, None) == ("bin", "OAdd", ("red",), ("loc",))
            take("enddo")
            reprod["final_sum"] = bool(ok)
        if peek()[0] == "dealloc":
            if peek()[1] != R.local:
                raise TranslateError("code: %s: deallocation of %r" % (name, peek()[1]))
            take()
    if peek()[0] == "gsum_set":
        if peek()[1] != R.red or pos[0] + 1 >= len(ev) or ev[pos[0] + 1] != ("gsum_get", R.red):
            raise TranslateError("code: %s: malformed global sum" % name)
        inst["gsum"] = True
        pos[0] += 2
    while peek()[0] == "halo":
        h = take()
        # halo bookkeeping only concerns the written field of this invoke
        a = sk["proxy_of"].get(h[1])
        if a is None or a not in R.actual or not args[R.actual.index(a)][2]:
            raise TranslateError("code: %s: halo call on %r which is not the written field" % (name, h[1]))
    if peek()[0] != "eof":
        raise TranslateError("code: %s: unexpected statement after the loop: %r" % (name, peek()))
    return inst, R


# ---- route 2: the lowered PSyIR
def psyir_named_tree(node):
    from psyclone.psyir import nodes as N
    if isinstance(node, N.Literal):
        try:
            return ("lit", fexpr.num_value(node.value))
        except (ParseError, ValueError):
            raise TranslateError("code: literal %r outside the integer-valued domain" % node.value)
    if isinstance(node, N.ArrayReference) and len(node.indices) == 2:
        # element of a reproducible-reduction array: same shape as the text route gives
        return ("call", node.name.upper(), [psyir_named_tree(i) for i in node.indices], {})
    if isinstance(node, N.ArrayReference):
        if len(node.indices) != 1 or not isinstance(node.indices[0], N.Reference) or node.indices[0].name != "df" \
                or isinstance(node.indices[0], N.ArrayReference):
            raise TranslateError("code: array reference %s not indexed by df" % node.name)
        return ("elem", node.name)
    if isinstance(node, N.IntrinsicCall):
        args, kw = [], {}
        for nm, ch in zip(node.argument_names, node.arguments if hasattr(node, "arguments") else node.children):
            if nm is None:
                args.append(psyir_named_tree(ch))
            else:
                if type(ch) is not N.Reference:
                    raise TranslateError("code: keyword argument %s is not a plain name" % nm)
                kw[nm.lower()] = ch.name
        return ("call", node.intrinsic.name.upper(), args, kw)
    if isinstance(node, N.BinaryOperation):
        ops = {"ADD": "+", "SUB": "-", "MUL": "*", "DIV": "/", "POW": "**"}
        if node.operator.name not in ops:
            raise TranslateError("code: unsupported operator %s" % node.operator.name)
        return ("bin", ops[node.operator.name], psyir_named_tree(node.children[0]), psyir_named_tree(node.children[1]))
    if isinstance(node, N.UnaryOperation):
        if node.operator.name != "MINUS":
            raise TranslateError("code: unsupported unary operator %s" % node.operator.name)
        return ("neg", psyir_named_tree(node.children[0]))
    if type(node) is N.Reference:
        return ("name", node.name)
    raise TranslateError("code: unsupported PSyIR node %s" % type(node).__name__)


def lowered_kernel(name, schedule, R, sk):
    """lower the DoF loop of the schedule in place and serialise its body (route 2)."""
    from psyclone.psyir import nodes as N
    loops = schedule.walk(N.Loop)
    if len(loops) != 1:
        raise TranslateError("code: %s: %d loops in the invoke" % (name, len(loops)))
    low = loops[0].lower_to_language_level()
    if not isinstance(low, N.Loop) or low.variable.name != "df":
        raise TranslateError("code: %s: lowering did not give a df loop" % name)
    st, sp, step = low.start_expr, low.stop_expr, low.step_expr
    if type(st) is not N.Reference or type(sp) is not N.Reference or not isinstance(step, N.Literal) or step.value != "1":
        raise TranslateError("code: %s: lowered loop bounds are not loop<n>_start/stop/1" % name)
    body = low.loop_body.children
    if len(body) != 1:
        raise TranslateError("code: %s: lowered loop body has %d statements" % (name, len(body)))
    b = body[0]
    if isinstance(b, N.Assignment):
        lhs = psyir_named_tree(b.lhs)
        if lhs[0] == "elem":
            kern = ("assign", R.field_of_data(lhs[1].lower()), R.tree(psyir_named_tree(b.rhs), lhs[1].lower()))
        elif lhs[0] == "name" and lhs[1].lower() == R.red:
            kern = ("reduce", R.tree(psyir_named_tree(b.rhs), None))
        elif R.is_local_elem(lhs):
            kern = ("reduce_local", R.tree(psyir_named_tree(b.rhs), None))
        else:
            raise TranslateError("code: %s: lowered assignment to %r" % (name, lhs))
    elif isinstance(b, N.IntrinsicCall) and b.intrinsic.name == "RANDOM_NUMBER":
        a = [psyir_named_tree(c) for c in (b.arguments if hasattr(b, "arguments") else b.children)]
        if len(a) != 1 or a[0][0] != "elem":
            raise TranslateError("code: %s: random_number arguments %r" % (name, a))
        kern = ("random", R.field_of_data(a[0][1].lower()))
    else:
        raise TranslateError("code: %s: lowered body is a %s" % (name, type(b).__name__))
    return kern, (st.name.lower(), sp.name.lower())


def translate_chunk(job):
    """worker: (chunk, scratch file, settings, variant spec) -> (instances, texts) for the built-ins of the chunk"""
    chunk, fname, settings, variant_spec = job
    from psyclone.configuration import Config
    from psyclone.parse.algorithm import parse
    from psyclone.psyGen import PSyFactory
    from psyclone.psyir.nodes import Loop
    from psyclone.transformations import DynamoOMPParallelLoopTrans, Dynamo0p3OMPLoopTrans, OMPParallelTrans
    from psyclone.errors import GenerationError
    from psyclone.psyir.transformations import TransformationError
    variant = make_variant(variant_spec)
    src, actual = algorithm_source(chunk, variant)
    Path(fname).write_text(src)
    _, info = parse(str(fname), api=API)
    conf = Config.get().api_conf("lfric")
    saved = conf._compute_annexed_dofs
    instances, psy_texts = {}, {}
    try:
        for dm, ann, omp in settings:
            conf._compute_annexed_dofs = ann
            psy = PSyFactory(API, distributed_memory=dm).create(info)
            invs = {inv.name.lower(): inv for inv in psy.invokes.invoke_list}
            rejected = {}
            if omp:
                for _, name, _ in chunk:
                    inv = invs["invoke_bi_" + name.lower()]
                    loops = inv.schedule.walk(Loop)
                    if len(loops) != 1:
                        raise TranslateError("code: %s: %d loops before transformation" % (name, len(loops)))
                    try:
                        kw = {"omp_schedule": omp_sched(omp)} if omp_sched(omp) else {}
                        if omp_base(omp) is True:
                            DynamoOMPParallelLoopTrans(**kw).apply(loops[0])
                        else:
                            Dynamo0p3OMPLoopTrans(**kw).apply(loops[0], {"reprod": omp_base(omp) == "reprod"})
                            OMPParallelTrans().apply(loops[0].parent.parent)
                    except TransformationError as err:
                        rejected[name] = str(err.value)[:200]
            try:
                text = str(psy.gen)
            except GenerationError as err:
                raise TranslateError("code: PSy-layer generation failed (%s): %s" % (setting_tag(dm, ann, omp), err))
            subs = split_subroutines(text)
            psy_texts[(dm, ann, omp, chunk[0][0])] = text
            for _, name, args in chunk:
                key = (name, dm, ann, omp)
                if name in rejected:
                    instances[key] = {"rejected": rejected[name]}
                    continue
                sub = subs.get("invoke_bi_" + name.lower())
                if sub is None:
                    raise TranslateError("code: no generated subroutine for %s" % name)
                sk = parse_invoke_text(name, sub, actual[name], args)
                inst, R = build_instance(name, sk, actual[name], args, dm, ann, omp)
                if omp and inst["omp"] is None:
                    raise TranslateError("code: %s: OpenMP transformation applied but no directive generated" % name)
                want = {True: "pardo", "region": "region", "reprod": "reprod"}.get(omp_base(omp))
                inst["mode"] = omp
                if omp and omp_sched(omp) is not None and inst["omp"]["schedule"] != ("" if omp_sched(omp) == "none" else omp_sched(omp)):
                    raise TranslateError("code: %s: schedule %r requested, generated %r" % (name, omp_sched(omp), inst["omp"]["schedule"]))
                if omp and inst["omp"]["form"] != want:
                    raise TranslateError("code: %s: transformation %r gave OpenMP form %r" % (name, omp, inst["omp"]["form"]))
                # route 2: lowered PSyIR must serialise to the same kernel and the same bound variables
                kern2, bvars = lowered_kernel(name, invs["invoke_bi_" + name.lower()].schedule, R, sk)
                if kern2 != inst["kern"]:
                    raise TranslateError("code: %s (%s): lowered PSyIR %r differs from the generated text %r"
                                         % (name, setting_tag(dm, ann, omp), kern2, inst["kern"]))
                if sorted(bvars) != sorted(sk["bounds"]):
                    raise TranslateError("code: %s: lowered loop uses bounds %s, text assigns %s" % (name, bvars, sorted(sk["bounds"])))
                inst["actual"] = actual[name]
                instances[key] = inst
    finally:
        conf._compute_annexed_dofs = saved
    return instances, psy_texts


def make_variant(spec):
    """spec None or ('mixed', shift): real fields of the other supported precisions"""
    if spec is None:
        return None
    shift = spec[1]

    def variant(name, k):
        v = REAL_FIELD_VARIANTS[(sum(ord(c) * (i + 1) for i, c in enumerate(name)) + 3 * k + shift) % len(REAL_FIELD_VARIANTS)]
        return v[0], v[1]
    return variant


def _worker(job):
    try:
        return ("ok", translate_chunk(job))
    except (TranslateError, ParseError) as err:
        return ("err", "%s: %s" % (type(err).__name__, err))


def translate_code(scratch, names=None, settings=SETTINGS, variant=None, log=None, nproc=None):
    """-> (table, instances, psy_texts).  instances: {(name, dm, ann, omp): inst or {'rejected': reason}}.
    The built-ins are distributed over worker processes (PSyclone re-parses lfric_builtins_mod.f90
    for every built-in call of an algorithm file, which dominates the run time)."""
    table = builtin_table()
    todo = [(i, n, a) for i, (n, _, a) in enumerate(table) if names is None or n in names]
    scratch = Path(scratch)
    scratch.mkdir(parents=True, exist_ok=True)
    # sequential chunks in this process: forked worker processes were measured to be several times
    # SLOWER on the shared machine (system time dominated), and smaller invoke files generate faster
    nchunks = nproc or 3
    size = max(1, -(-len(todo) // nchunks))
    jobs = [(todo[i:i + size], str(scratch / ("c20_alg_%d.f90" % (i // size))), list(settings), variant)
            for i in range(0, len(todo), size)]
    if settings is SETTINGS:
        # reproducible OpenMP reductions: only meaningful for the built-ins that write a scalar
        red = [t for t in todo if any(k == "scl" and w for k, _, w in t[2])]
        if red:
            jobs.append((red, str(scratch / "c20_alg_reprod.f90"), list(REPROD_SETTINGS) + list(GRID_SETTINGS), variant))
    results = [_worker(j) for j in jobs]
    instances, psy_texts = {}, {}
    for status, payload in results:
        if status == "err":
            raise TranslateError(payload)
        instances.update(payload[0])
        psy_texts.update(payload[1])
    return table, instances, psy_texts


# ------------------------------------------------------------------------------------------------
# 4. Gallina
# ------------------------------------------------------------------------------------------------
def cid(name):
    return re.sub(r"\W", "_", name)


def coq_bexpr(t):
    k = t[0]
    if k == "fld":
        return "(XFld %d)" % t[1]
    if k == "scl":
        return "(XScl %d)" % t[1]
    if k == "red":
        return "XRed"
    if k == "loc":
        return "XLoc"
    if k == "lit":
        return "(XLit (%d))" % t[1]
    if k == "neg":
        return "(XNeg %s)" % coq_bexpr(t[1])
    if k == "bin":
        return "(XBin %s %s %s)" % (t[1], coq_bexpr(t[2]), coq_bexpr(t[3]))
    if k == "fn2":
        return "(XFn2 %s %s %s)" % (t[1], coq_bexpr(t[2]), coq_bexpr(t[3]))
    if k == "conv":
        kd = "KLhs" if t[2][0] == "klhs" else '(KName "%s")' % t[2][1]
        return "(XConv %s %s %s)" % (t[1], kd, coq_bexpr(t[3]))
    raise TranslateError("emit: bad tree %r" % (t,))


def coq_args(args):
    return "[" + "; ".join("%s %s %s" % ("AFld" if k == "fld" else "AScl", "TReal" if t == "real" else "TInt",
                                         "true" if w else "false") for k, t, w in args) + "]"


def coq_spec(spec):
    if spec[0] == "pointwise":
        return "(DPointwise %d %s)" % (spec[1], coq_bexpr(spec[2]))
    if spec[0] == "sum":
        return "(DSum %s)" % coq_bexpr(spec[1])
    if spec[0] == "random":
        return "(DRandom %d)" % spec[1]
    raise TranslateError("emit: bad spec %r" % (spec,))


def coq_kern(k):
    if k[0] == "assign":
        return "(KAssign %d %s)" % (k[1], coq_bexpr(k[2]))
    if k[0] == "reduce":
        return "(KReduce %s)" % coq_bexpr(k[1])
    if k[0] == "reduce_local":
        return "(KReduceLocal %s)" % coq_bexpr(k[1])
    if k[0] == "random":
        return "(KRandom %d)" % k[1]
    raise TranslateError("emit: bad kernel %r" % (k,))


def coq_bound(b):
    return {"lit": lambda: "(BLit (%d))" % b[1], "undf": lambda: "(BUndf %d)" % b[1],
            "owned": lambda: "(BLastOwned %d)" % b[1], "annexed": lambda: "(BLastAnnexed %d)" % b[1],
            "halo": lambda: "(BLastHalo %d (%d))" % (b[1], b[2])}[b[0]]()


def cb(x):
    return "true" if x else "false"


def coq_form(o):
    if o["form"] == "pardo":
        return "OParDo"
    if o["form"] == "region":
        return "ORegion"
    r = o["reprod"]
    return "(OReprod (mkReprod %s %s %s %s))" % (cb(r["zeroed"]), cb(r["thidx_set"]), cb(r["thidx_private"]), cb(r["final_sum"]))


HEADER = ("(* GENERATED by props/C20/translate.py from the working tree of PSyclone -- do not edit *)\n"
          "From Coq Require Import List ZArith Bool String.\nImport ListNotations.\n"
          "From PV Require Import C20.Model.\nOpen Scope Z_scope.\nOpen Scope string_scope.\n\n")


def emit_doc(doc, meta):
    out = [HEADER, "(* source 1: doc/user_guide/dynamo0p3.rst ; source 2: src/psyclone/parse/lfric_builtins_mod.f90 *)\n"]
    for e in doc:
        out.append("(* dynamo0p3.rst line %d: %s *)" % (e["line"], " | ".join(e["formula_lines"]).replace("*)", "* )")))
        out.append('Definition doc_%s : docentry := mkDoc "%s" %s %s.' % (cid(e["name"]), e["name"], coq_args(e["args"]), coq_spec(e["spec"])))
    out.append("\nDefinition doc_names : list string := [%s]." % "; ".join('"%s"' % e["name"] for e in doc))
    out.append("")
    for e in doc:
        m = meta.get(e["name"])
        if m is None:
            continue
        spec, note = meta_comment_spec(e["name"], m, e)
        out.append("(* lfric_builtins_mod.f90 line %d: !> %s   [%s] *)" % (m["line"], m["comment"].replace("*)", "* )"), note))
        out.append('Definition meta_%s : docentry := mkDoc "%s" %s %s.' % (cid(e["name"]), e["name"], coq_args(m["args"]), coq_spec(spec)))
    out.append("\nDefinition meta_names : list string := [%s]." % "; ".join('"%s"' % n for n in meta))
    return "\n".join(out) + "\n"


def kern_key(name, instances):
    """distinct kernels of a built-in over the settings -> {kernel: coq identifier}"""
    ks = []
    for (n, dm, ann, omp), inst in instances.items():
        if n == name and "rejected" not in inst and inst["kern"] not in ks:
            ks.append(inst["kern"])
    out, n = {}, 0
    plain = [k for k in ks if k[0] != "reduce_local"]
    local = [k for k in ks if k[0] == "reduce_local"]
    for i, k in enumerate(plain):
        out[k] = "kern_%s" % cid(name) if len(plain) == 1 else "kern_%s_v%d" % (cid(name), i)
    for i, k in enumerate(local):
        out[k] = "kern_%s_reprod" % cid(name) if len(local) == 1 else "kern_%s_reprod_v%d" % (cid(name), i)
    return out


def emit_code(table, instances):
    out = [HEADER, "(* source: lfric_builtins.py (lower_to_language_level), lfric_loop.py, the generated PSy layer *)\n"]
    scheds = sorted({cid(i["omp"]["schedule"] or "none") for i in instances.values() if "rejected" not in i and i["omp"]})
    for sc in scheds:
        out.append('Definition sched_%s : string := "%s".' % (sc, sc))
    kerns = {}
    for name, _, args in table:
        kk = kern_key(name, instances)
        kerns[name] = kk
        for k, ident in kk.items():
            out.append("Definition %s : kern := %s." % (ident, coq_kern(k)))
        out.append('Definition nm_%s : string := "%s".' % (cid(name), name))
        out.append("Definition args_%s : list akind := %s." % (cid(name), coq_args(args)))
    out.append("\nDefinition builtin_names : list string := [%s].\n" % "; ".join("nm_%s" % cid(n) for n, _, _ in table))
    for (name, dm, ann, omp), inst in sorted(instances.items(), key=lambda kv: ([n for n, _, _ in table].index(kv[0][0]), kv[0][1], kv[0][2], omp_code(kv[0][3]))):
        if "rejected" in inst:
            out.append("(* %s %s: DynamoOMPParallelLoopTrans refused: %s *)" % (name, setting_tag(dm, ann, omp), inst["rejected"].replace("*)", "* )").replace("(*", "( *")))
            continue
        o = inst["omp"]
        omp_t = "None" if o is None else '(Some (mkOmp %s %s %s %s sched_%s))' % (coq_form(o), cb(o["default_shared"]), cb(o["private_df"]), cb(o["reduction"]), cid(o["schedule"] or "none"))
        out.append("(* %s *)" % inst["body_text"].replace("*)", "* )").replace("(*", "( *"))
        if inst["args"] != dict((n, a) for n, _, a in table)[name]:
            raise TranslateError("emit: argument kinds of %s changed between settings" % name)
        out.append('Definition inst_%s_%s : instance := mkInst nm_%s %s %s args_%s %s %s %s %s %s %s.'
                   % (cid(name), setting_tag(dm, ann, omp), cid(name), cb(dm), cb(ann), cid(name), cb(inst["zero"]), omp_t,
                      coq_bound(inst["lo"]), coq_bound(inst["hi"]), kerns[name][inst["kern"]], cb(inst["gsum"])))
    return "\n".join(out) + "\n", kerns


def emit_obligations(table, instances, doc, meta, kerns):
    docnames = {e["name"] for e in doc}
    out = ["(* GENERATED by props/C20/translate.py -- proof obligations tying the generated code to the documentation *)",
           "From Coq Require Import List ZArith Bool String Lia.", "Import ListNotations.",
           "From PV Require Import C20.Model C20.Proofs C20.Tactics C20.GenDoc C20.GenCode.", "Open Scope Z_scope.", ""]
    index = []     # (lemma name, kind, builtin, setting)

    def lemma(nm, stmt, proof, kind, b, setting=None):
        index.append((nm, kind, b, setting))
        out.append("Lemma %s : %s.\nProof. %s Qed." % (nm, stmt, proof))
    # the guide and the built-in table list the same names
    lemma("doc_lists_exactly_the_builtins",
          "forallb (fun n => existsb (String.eqb n) doc_names) builtin_names = true /\\ "
          "forallb (fun n => existsb (String.eqb n) builtin_names) doc_names = true /\\ "
          "forallb (fun n => existsb (String.eqb n) meta_names) builtin_names = true /\\ "
          "forallb (fun n => existsb (String.eqb n) builtin_names) meta_names = true",
          "vm_compute. repeat split.", "names", None)
    for name, _, args in table:
        c = cid(name)
        if name not in docnames:
            continue          # reported by doc_lists_exactly_the_builtins
        if name in meta:
            lemma("meta_%s_agrees_with_doc" % c, "doc_agree meta_%s doc_%s" % (c, c),
                  "unfold meta_%s, doc_%s. solve_doc_agree." % (c, c), "meta", name)
        for k, ident in kerns[name].items():
            suffix = "" if len(kerns[name]) == 1 else ident[len("kern_" + c):]
            lemma("builtin_%s_matches_doc%s" % (c, suffix), "kern_matches %s (d_spec doc_%s)" % (ident, c),
                  "unfold %s, doc_%s. solve_kern." % (ident, c), "kern", name)
    out.append("")
    rows = []
    for name, _, args in table:
        c = cid(name)
        if name not in docnames:
            continue
        for dm, ann, omp in SETTINGS + REPROD_SETTINGS + GRID_SETTINGS:
            inst = instances.get((name, dm, ann, omp))
            if inst is None or "rejected" in inst:
                continue
            tag = setting_tag(dm, ann, omp)
            ident = kerns[name][inst["kern"]]
            suffix = "" if len(kerns[name]) == 1 else ident[len("kern_" + c):]
            lemma("dof_range_%s_%s" % (c, tag), "range_ok inst_%s_%s doc_%s" % (c, tag, c),
                  "unfold inst_%s_%s, doc_%s. solve_range." % (c, tag, c), "range", name, tag)
            lemma("skeleton_%s_%s" % (c, tag), "skeleton_ok inst_%s_%s doc_%s" % (c, tag, c),
                  "unfold inst_%s_%s, doc_%s. solve_skeleton." % (c, tag, c), "skeleton", name, tag)
            out.append("Definition ok_%s_%s : instance_ok inst_%s_%s doc_%s :=\n  conj eq_refl (conj builtin_%s_matches_doc%s (conj dof_range_%s_%s skeleton_%s_%s))."
                       % (c, tag, c, tag, c, c, suffix, c, tag, c, tag))
            rows.append((c, tag))
    # per built-in sub-tables keep the proof of table_ok linear
    groups = []
    for c, tag in rows:
        if not groups or groups[-1][0] != c:
            groups.append((c, []))
        groups[-1][1].append(tag)
    for c, tags in groups:
        out.append("Definition tbl_%s : list (instance * docentry) := [%s]." % (c, "; ".join("(inst_%s_%s, doc_%s)" % (c, t, c) for t in tags)))
        out.append("Lemma tbl_%s_ok : Forall (fun p => instance_ok (fst p) (snd p)) tbl_%s.\nProof. unfold tbl_%s. %s apply Forall_nil. Qed."
                   % (c, c, c, " ".join("apply Forall_cons; [exact ok_%s_%s|]." % (c, t) for t in tags)))
    out.append("\nDefinition table : list (instance * docentry) := List.concat [\n  %s]." % ";\n  ".join("tbl_%s" % c for c, _ in groups))
    out.append("\nLemma table_ok : Forall (fun p => instance_ok (fst p) (snd p)) table.\nProof.\n  apply Forall_concat_intro.")
    for c, _ in groups:
        out.append("  apply Forall_cons; [exact tbl_%s_ok|]." % c)
    out.append("  apply Forall_nil.\nQed.\n")
    index.append(("table_ok", "table", None, None))
    lemma("serial_coverage", "form_covered table 0 builtin_names = true", "vm_compute. reflexivity.", "coverage", None)

    def accepted(mode, pool):
        return [n for n in pool if all("rejected" not in instances.get((n, dm, ann, mode), {"rejected": 1})
                                       for dm in (False, True) for ann in (False, True))]
    allnames = [n for n, _, _ in table]
    omp_names = accepted(True, allnames)
    region_names = accepted("region", allnames)
    reduction_names = [n for n, _, a in table if any(k == "scl" and w for k, _, w in a)]
    reprod_names = accepted("reprod", reduction_names)
    for ident, names in (("omp_builtin_names", omp_names), ("region_builtin_names", region_names),
                         ("reduction_builtin_names", reduction_names), ("reprod_builtin_names", reprod_names)):
        out.append("Definition %s : list string := [%s]." % (ident, "; ".join('"%s"' % n for n in names)))
    lemma("omp_coverage", "form_covered table 1 omp_builtin_names = true", "vm_compute. reflexivity.", "coverage", None)
    lemma("region_coverage", "form_covered table 2 region_builtin_names = true", "vm_compute. reflexivity.", "coverage", None)
    lemma("reprod_coverage", "form_covered table 3 reprod_builtin_names = true", "vm_compute. reflexivity.", "coverage", None)
    grid_rows = ["(%d%%nat, sched_%s)" % (OMP_CODE[omp_base(m)], cid("none" if omp_sched(m) == "none" else omp_sched(m)))
                 for (dm, ann, m) in GRID_SETTINGS if not dm]
    out.append("Definition schedule_grid : list (nat * string) := [%s]." % "; ".join(grid_rows))
    lemma("schedule_grid_coverage",
          "forallb (fun n => forallb (fun g => existsb (fun p => String.eqb (i_name (fst p)) n && Nat.eqb (omp_code (fst p)) (fst g) && "
          "match i_omp (fst p) with Some o => String.eqb (omp_schedule o) (snd g) | None => false end) table) schedule_grid) "
          "reprod_builtin_names = true", "vm_compute. reflexivity.", "coverage", None)
    # every built-in whose documented definition is a SUM is among the reduction built-ins translated with reprod
    lemma("reductions_are_the_sum_builtins",
          "forallb (fun p => negb (is_reduction_spec (d_spec (snd p))) || existsb (String.eqb (i_name (fst p))) reduction_builtin_names) table = true",
          "vm_compute. reflexivity.", "coverage", None)
    return "\n".join(out) + "\n", index, {"omp": omp_names, "region": region_names, "reprod": reprod_names,
                                          "reductions": reduction_names}


def run_translators(scratch, log=None):
    """Run everything against VERIF_REPO and (re)write coq/C20/Gen*.v.  Returns a dict with the
    parsed tables for the check (Python-side evaluation / evidence)."""
    from vlib import core
    r = repo_path()
    doc = parse_doc((r / "doc/user_guide/dynamo0p3.rst").read_text())
    meta = parse_meta((r / "src/psyclone/parse/lfric_builtins_mod.f90").read_text())
    table, instances, psy_texts = translate_code(scratch, log=log)
    gd = emit_doc(doc, meta)
    gc, kerns = emit_code(table, instances)
    go, index, omp_names = emit_obligations(table, instances, doc, meta, kerns)
    changed = [core.write_if_changed(core.COQ / "C20" / "GenDoc.v", gd),
               core.write_if_changed(core.COQ / "C20" / "GenCode.v", gc),
               core.write_if_changed(core.COQ / "C20" / "GenObl.v", go)]
    return {"doc": doc, "meta": meta, "table": table, "instances": instances, "index": index,
            "omp_names": omp_names, "changed": changed, "psy_texts": psy_texts, "obl_text": go}


if __name__ == "__main__":
    import tempfile
    os.environ.setdefault("PSYCLONE_CONFIG", str(repo_path() / "config/psyclone.cfg"))
    sys.path.insert(0, str(repo_path() / "src"))
    from vlib import core as _core
    d = _core.VERIF / ".scratch" / ("C20-translate-%d" % os.getpid())
    try:
        res = run_translators(d, log=print)
        print("C20 translators: %d doc entries, %d metadata types, %d built-ins, %d instances, %d obligations, changed=%s"
              % (len(res["doc"]), len(res["meta"]), len(res["table"]), len(res["instances"]), len(res["index"]), res["changed"]))
    finally:
        import shutil
        shutil.rmtree(d, ignore_errors=True)
