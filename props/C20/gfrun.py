"""C20 thorough tier -- SUPPORTING EVIDENCE, TESTING ONLY (not part of the proof).

Generates one LFRic algorithm driver that calls every built-in on fields filled with small exactly
representable values, lets PSyclone (tree under test) generate the algorithm + PSy layers (DM on;
once serial, once with DynamoOMPParallelLoopTrans on every DoF loop and -fopenmp), builds them with
gfortran against a scratch copy of the bundled LFRic infrastructure (outside /repo and /verif,
removed afterwards), runs the executable single-process and compares every printed field / scalar
with the user-guide formula evaluated exactly.  On one process owned = annexed = all DoFs, so this
exercises arithmetic, argument order, in-place updates, zeroing and the global sum -- not the
distinction between the DoF ranges (that is what dof_range_<name>_<setting> proves)."""
import os
import re
import shutil
import tempfile
from fractions import Fraction
from pathlib import Path

from vlib import core

MESH_SETUP = """
    global_mesh = global_mesh_base_type()
    global_mesh_ptr => global_mesh
    partitioner_ptr => partitioner_planar
    partition = partition_type(global_mesh_ptr, partitioner_ptr, 1, 1, 0, 0, 1)
    extrusion = uniform_extrusion_type(0.0_r_def, 100.0_r_def, 3)
    extrusion_ptr => extrusion
    mesh = mesh_type(global_mesh_ptr, partition, extrusion_ptr)
    vector_space = function_space_type(mesh, element_order, lfric_fs, ndata_sz)
    vector_space_ptr => vector_space
"""


def val(df, seed):
    """the value the driver stores in element df of the field with this seed (never zero)"""
    v = (df * (seed + 2) + seed) % 7 - 3
    return v if v != 0 else 4


def driver_source(table, T):
    decls, body = [], []
    plan = []                      # per built-in: dict(name, args, seeds, scalars)
    for idx, (name, _, args) in enumerate(table):
        names = ["b%da%d" % (idx, k) for k in range(len(args))]
        seeds, scal = {}, {}
        positive = "pow" in name
        half = name == "real_to_int_X"
        for k, (kind, ty, w) in enumerate(args):
            if kind == "fld":
                decls.append("    type(%s) :: %s" % ("field_type" if ty == "real" else "integer_field_type", names[k]))
                seeds[k] = (idx * 5 + k * 3) % 11
                body.append('    call %s%%initialise(vector_space = vector_space_ptr, name="%s")' % (names[k], names[k]))
                mode = 2 if (half and not w) else (1 if positive else 0)
                body.append("    call fill_%s(%s, %d, %d)" % ("r" if ty == "real" else "i", names[k], seeds[k], mode))
                seeds[k] = (seeds[k], mode)
            else:
                decls.append("    %s :: %s" % ("real(r_def)" if ty == "real" else "integer(i_def)", names[k]))
                if not w:
                    v = [2, -3, 3, -2][(idx + k) % 4]
                    if "pow" in name:
                        v = 3 if ty == "int" else 2
                    if "sign" in name.lower():
                        v = -2                      # SIGN with a negative first argument
                    scal[k] = v
                    body.append("    %s = %s" % (names[k], ("%d.0_r_def" % v) if ty == "real" else ("%d_i_def" % v)))
                else:
                    body.append("    %s = 99.0_r_def" % names[k])
        body.append('    call invoke(name="bi_%s", %s(%s))' % (name.lower(), name, ", ".join(names)))
        for k, (kind, ty, w) in enumerate(args):
            if kind == "fld":
                body.append('    call dump_%s("R %d %d", %s)' % ("r" if ty == "real" else "i", idx, k, names[k]))
            elif w:
                body.append('    write(*, \'(A,1X,ES25.17)\') "S %d %d", %s' % (idx, k, names[k]))
        plan.append({"name": name, "args": args, "seeds": seeds, "scalars": scal})
    src = """program c20_driver
    use global_mesh_base_mod,   only: global_mesh_base_type
    use mesh_mod,               only: mesh_type, PLANE
    use partition_mod,          only: partition_type, partitioner_planar, partitioner_interface
    use extrusion_mod,          only: uniform_extrusion_type
    use function_space_mod,     only: function_space_type
    use fs_continuity_mod,      only: W0
    use field_mod,              only: field_type, field_proxy_type
    use integer_field_mod,      only: integer_field_type, integer_field_proxy_type
    use constants_mod,          only: r_def, i_def
    implicit none
    type(global_mesh_base_type), target        :: global_mesh
    class(global_mesh_base_type), pointer      :: global_mesh_ptr
    type(partition_type)                       :: partition
    type(mesh_type), target                    :: mesh
    type(uniform_extrusion_type), target       :: extrusion
    type(uniform_extrusion_type), pointer      :: extrusion_ptr
    type(function_space_type), target          :: vector_space
    type(function_space_type), pointer         :: vector_space_ptr
    procedure (partitioner_interface), pointer :: partitioner_ptr
    integer(kind=i_def)                        :: lfric_fs = W0
    integer(kind=i_def)                        :: element_order = 1
    integer(kind=i_def)                        :: ndata_sz = 1
%s
%s
%s
contains
    integer function val(df, seed)
      integer, intent(in) :: df, seed
      val = modulo(df * (seed + 2) + seed, 7) - 3
      if (val == 0) val = 4
    end function val
    subroutine fill_r(rf, seed, mode)
      type(field_type), intent(inout) :: rf
      integer, intent(in) :: seed, mode
      type(field_proxy_type) :: rp
      integer :: df
      rp = rf%%get_proxy()
      do df = 1, size(rp%%data)
        rp%%data(df) = real(val(df, seed), r_def)
        if (mode == 1) rp%%data(df) = abs(rp%%data(df))
        if (mode == 2) rp%%data(df) = rp%%data(df) / 2.0_r_def
      end do
    end subroutine fill_r
    subroutine fill_i(jf, seed, mode)
      type(integer_field_type), intent(inout) :: jf
      integer, intent(in) :: seed, mode
      type(integer_field_proxy_type) :: jp
      integer :: df
      jp = jf%%get_proxy()
      do df = 1, size(jp%%data)
        jp%%data(df) = val(df, seed)
        if (mode == 1) jp%%data(df) = abs(jp%%data(df))
      end do
    end subroutine fill_i
    subroutine dump_r(tag, rg)
      character(len=*), intent(in) :: tag
      type(field_type), intent(in) :: rg
      type(field_proxy_type) :: rq
      rq = rg%%get_proxy()
      write(*, '(A,1X,I0,*(1X,ES25.17))') tag, size(rq%%data), rq%%data
    end subroutine dump_r
    subroutine dump_i(tag, jg)
      character(len=*), intent(in) :: tag
      type(integer_field_type), intent(in) :: jg
      type(integer_field_proxy_type) :: jq
      jq = jg%%get_proxy()
      write(*, '(A,1X,I0,*(1X,I0))') tag, size(jq%%data), jq%%data
    end subroutine dump_i
end program c20_driver
""" % ("\n".join(decls), MESH_SETUP, "\n".join(body))
    return src, plan


OMP_SCRIPT = '''
from psyclone.transformations import DynamoOMPParallelLoopTrans
from psyclone.psyir.nodes import Loop


def trans(psy):
    for inv in psy.invokes.invoke_list:
        for loop in inv.schedule.walk(Loop):
            if loop.loop_type == "dof":
                DynamoOMPParallelLoopTrans().apply(loop)
    return psy
'''


REPROD_SCRIPT = '''
from psyclone.transformations import Dynamo0p3OMPLoopTrans, OMPParallelTrans
from psyclone.psyir.nodes import Loop


def trans(psy):
    # OMP DO inside an OMP PARALLEL region, run-reproducible reductions
    for inv in psy.invokes.invoke_list:
        for loop in inv.schedule.walk(Loop):
            if loop.loop_type == "dof":
                Dynamo0p3OMPLoopTrans().apply(loop, {"reprod": True})
                OMPParallelTrans().apply(loop.parent.parent)
    return psy
'''


def field_init(seedmode, undf):
    seed, mode = seedmode
    out = []
    for df in range(1, undf + 1):
        v = Fraction(val(df, seed))
        if mode == 1:
            v = abs(v)
        if mode == 2:
            v = v / 2
        out.append(v)
    return out


def run(ctx, res, doc, T):
    import check as C              # the harness' evaluator of the documented formula
    from psyclone.generator import generate
    root = Path(tempfile.mkdtemp(prefix="C20-gf-", dir="/var/tmp"))
    problems, note = [], {}
    try:
        infra_src = core.REPO / "src/psyclone/tests/test_files/dynamo0p3/infrastructure"
        infra = root / "infrastructure"
        shutil.copytree(infra_src, infra)
        rc, out = core.sh("make F90=gfortran -j4", cwd=infra, timeout=900)
        if rc != 0 or not (infra / "liblfric.a").exists():
            note["status"] = "infrastructure build failed or timed out (rc=%d); gfortran run skipped" % rc
            ctx.notes["gfortran_run"] = note
            return []
        incs = " ".join("-I %s" % d for d, _, _ in os.walk(infra))
        src, plan = driver_source(res["table"], T)
        (root / "omp_script.py").write_text(OMP_SCRIPT)
        (root / "reprod_script.py").write_text(REPROD_SCRIPT)
        nvalues = 0
        for variant, script, flags, env in (("serial", None, "", {}), ("openmp", str(root / "omp_script.py"), "-fopenmp", {"OMP_NUM_THREADS": "3"}),
                                            ("openmp_region_reprod", str(root / "reprod_script.py"), "-fopenmp", {"OMP_NUM_THREADS": "3"})):
            wd = root / variant
            wd.mkdir()
            (wd / "c20_driver.x90").write_text(src)
            try:
                alg, psy = generate(str(wd / "c20_driver.x90"), api="dynamo0.3", distributed_memory=True,
                                    script_name=script, kernel_paths=[])
            except Exception as err:                                   # noqa: BLE001
                problems.append({"property": "C20", "broken": "PSyclone could not process the generated driver (%s)" % variant,
                                 "error": "%s: %s" % (type(err).__name__, str(err)[:500])})
                continue
            (wd / "c20_alg.f90").write_text(str(alg))
            (wd / "c20_psy.f90").write_text(str(psy))
            cmd = ("gfortran -g -fcheck=bounds %s %s -c c20_psy.f90 && gfortran -g -fcheck=bounds %s %s -c c20_alg.f90 && "
                   "gfortran %s c20_psy.o c20_alg.o -o c20_run -L%s -llfric" % (flags, incs, flags, incs, flags, infra))
            rc, out = core.sh(cmd, cwd=wd, timeout=1200)
            if rc == 124:
                note[variant] = "compilation timed out; skipped"
                continue
            if rc != 0:
                problems.append({"property": "C20", "broken": "generated PSy/algorithm layer does not compile with gfortran (%s)" % variant,
                                 "log": out[-1500:]})
                continue
            e = dict(os.environ)
            e.update(env)
            rc, out = core.sh("./c20_run", cwd=wd, timeout=600, env=e)
            if rc == 124:
                note[variant] = "run timed out; skipped"
                continue
            if rc != 0:
                problems.append({"property": "C20", "broken": "generated executable failed at run time (%s)" % variant, "log": out[-1500:]})
                continue
            got = {}
            for line in out.split("\n"):
                m = re.match(r"^\s*R (\d+) (\d+) (\d+)(.*)$", line)
                if m:
                    got[(int(m.group(1)), int(m.group(2)))] = [float(x) for x in m.group(4).split()]
                    if len(got[(int(m.group(1)), int(m.group(2)))]) != int(m.group(3)):
                        problems.append({"property": "C20", "broken": "cannot parse driver output", "line": line[:200]})
                m = re.match(r"^\s*S (\d+) (\d+)\s+(\S+)$", line)
                if m:
                    got[(int(m.group(1)), int(m.group(2)))] = float(m.group(3))
            bad = 0
            for idx, p in enumerate(plan):
                d = doc.get(p["name"])
                if d is None:
                    continue
                fpos = [k for k, a in enumerate(p["args"]) if a[0] == "fld"]
                if not fpos or (idx, fpos[0]) not in got:
                    problems.append({"property": "C20", "broken": "no output for built-in %s (%s)" % (p["name"], variant)})
                    continue
                undf = len(got[(idx, fpos[0])])
                bind = {k: k for k in fpos}
                fields = {k: field_init(p["seeds"][k], undf) for k in fpos}
                scal = {k: Fraction(v) for k, v in p["scalars"].items()}
                lay = {"undf": undf, "owned": undf, "annexed": undf}
                try:
                    ef, ered, rnd = C.run_doc(d, C.ExactOps, True, False, bind, lay, fields, scal, Fraction(99))
                except C.Fault:
                    continue
                for k in fpos:
                    obs = got.get((idx, k))
                    if rnd is not None and k == rnd[0]:
                        ok = all(0.0 <= x < 1.0 for x in obs)
                        exp = "0 <= x < 1"
                    else:
                        exp = [float(x) for x in ef[k]]
                        ok = obs is not None and len(obs) == undf and all(abs(a - b) <= 1e-12 * max(1.0, abs(b)) for a, b in zip(obs, exp))
                    nvalues += undf
                    if not ok and bad < 3:
                        bad += 1
                        problems.append({"property": "C20", "concrete": True, "what": "executed built-in differs from the documented formula (gfortran run, %s)" % variant,
                                         "builtin": p["name"], "argument": k, "inputs": {str(j): [str(x) for x in fields[j][:12]] for j in fpos},
                                         "scalars": {str(j): str(v) for j, v in scal.items()}, "observed_first_12": (obs or [])[:12],
                                         "expected_first_12": exp[:12] if isinstance(exp, list) else exp,
                                         "replay": "thorough tier: props/C20/gfrun.py driver, build against tests/test_files/dynamo0p3/infrastructure"})
                if d["spec"][0] == "sum":
                    w = [k for k, a in enumerate(p["args"]) if a[0] == "scl" and a[2]][0]
                    obs = got.get((idx, w))
                    nvalues += 1
                    if obs is None or abs(obs - float(ered)) > 1e-12 * max(1.0, abs(float(ered))):
                        problems.append({"property": "C20", "concrete": True, "what": "executed reduction differs from the documented SUM (gfortran run, %s)" % variant,
                                         "builtin": p["name"], "observed": obs, "expected": float(ered)})
            note[variant] = "built and run; %d built-ins compared" % len(plan)
        note["values_compared"] = nvalues
        ctx.cov["evaluations"] += nvalues
        note["status"] = "testing only (supporting evidence)"
    finally:
        shutil.rmtree(root, ignore_errors=True)
    ctx.notes["gfortran_run"] = note
    return problems
