"""C19 — PSyAD adjoints are the exact transpose of the tangent-linear code.

Model  : coq/C19/Model.v  (adj = AdjointVisitor + AssignmentTrans on the linear subset of Fort.Syntax,
         reference semantics run/runG, inner product dot).  Theorems: coq/Properties/C19.v.
Tie    : T  props/C19/translate.py reads loop_node's pasted "mod(hi-lo,step)" text and apply()'s
            deferred-increment code from the tree under test -> coq/C19/Gen.v (impl_flags);
         C  generated linear kernels -> FortranReader -> preprocess_trans -> generate_adjoint ->
            serialiser; the adjoint tree must equal the model's `adj impl_flags` (vm_compute).
Search : independently of the model, <A x, y> = <x, A* y> is evaluated exactly (integers,
         vlib.minifort.interp) on random x, y for every accepted kernel; passive data must be treated
         alike.  A concrete failure is classified by the situations that really occurred in that
         execution (reason codes); listed+open -> KNOWN-FINDING, anything else -> VIOLATION."""
import json
import os
import random
import sys
import time

sys.path.insert(0, os.path.dirname(os.path.abspath(__file__)))
import c19lib as L            # noqa: E402
import translate as T         # noqa: E402
from vlib import core         # noqa: E402
from vlib import minifort as mf   # noqa: E402

NAMES = ["a", "b", "c", "w", "s", "t", "n", "kk", "m", "i", "j", "p1"]
PRIORITY = ["assignment_trans/first-self-term-sign-dropped", "loop_node/mod-lower-bound-unparenthesised",
            "loop_node/empty-loop-nonunit-step", "assignment_trans/runtime-aliased-lhs-rhs"]
HEADER = "From Coq Require Import ZArith. From PV Require Import Fort.Syntax C19.Model. Open Scope Z_scope."


def names():
    return mf.Names(NAMES)


def coq_case(flags, acts, pre, ad):
    nm = names()
    b = lambda x: "true" if x else "false"    # noqa: E731
    return "(%s, %s, [%s], %s, %s)" % (b(flags["lo_paren"]), b(flags["sign_kept"]),
                                       "; ".join("%d%%nat" % nm.get(a) for a in acts),
                                       mf.stmts_to_coq(pre, nm), mf.stmts_to_coq(ad, nm))


def stores_for(seed_tag, acts, k, fixed=None):
    rng = random.Random(seed_tag)
    out = []
    for _ in range(k):
        vx = L.make_store(rng, acts)
        if fixed:
            for name, v in fixed.items():
                vx[(name, ())] = v
        out.append((vx, L.second_store(rng, vx, acts)))
    return out


def evaluate(r, acts, stores, flags):
    """-> (n_evaluated, first failure or None) ; failure = dict(result, feats, passive values)"""
    n = 0
    for vx, vy in stores:
        res = L.dot_check(r["tl"], r["ad"], acts, vx, vy)
        if res == "skip":
            continue
        n += 1
        if res is not None:
            feats = sorted(L.features(r["pre"], acts, vx, flags))
            return n, {"result": res, "features": feats,
                       "passive": {k[0]: v for k, v in vx.items() if k[0] in ("n", "kk", "m")},
                       "x": {"%s%s" % k: v for k, v in sorted(vx.items()) if k[0] in acts and (not k[1] or -2 <= k[1][0] <= 12)},
                       "y": {"%s%s" % k: v for k, v in sorted(vy.items()) if k[0] in acts and (not k[1] or -2 <= k[1][0] <= 12)}}
    return n, None


def replay_findings(ctx, flags):
    """Replay the witness of every listed finding on the tree under test."""
    for kf in ctx.known_findings():
        w = kf["witness"]
        try:
            r = L.run_psyad(L.kernel_text(w["lines"]), w["actives"])
        except L.Rejected:
            continue
        stores = stores_for("witness:" + kf["key"], w["actives"], 8, fixed=w["passive"])
        _, fail = evaluate(r, w["actives"], stores, flags)
        if fail is not None:
            ctx.finding(kf["key"], kf["what"],
                        {"property": "C19", "kernel": w["lines"], "actives": w["actives"], "failure": fail,
                         "adjoint": r["ad_text"],
                         "replay": "psyclone.psyad.tl2ad.generate_adjoint_str(kernel, actives); run both on x,y"})


def harness_tier(ctx):
    """Thorough tier, supporting evidence: PSyAD's own generated test harness (create_test=True),
    compiled with gfortran together with kernel and adjoint, and run."""
    from psyclone.psyad.tl2ad import generate_adjoint_str
    kernels = [
        (["a", "b", "c"], ["do i = 1, n", "  a(i) = 2.0*b(i) + 3.0*c(i)", "end do"], None),
        (["a", "b"], ["do i = 2, n - 1", "  a(i) = a(i) + 0.5*b(i + 1) - b(i - 1)", "end do"], None),
        (["a", "b", "c"], ["do i = 1, n, 2", "  a(i) = a(i) + b(i)*c0(i)", "  c(i) = 2.0*a(i)", "end do"], None),
        (["a", "b"], ["do i = n, 2, -1", "  b(i - 1) = b(i - 1) + a(i)", "  a(i) = 0.0", "end do"], None),
        (["a", "b"], ["if (n > 3) then", "  do i = n, 2, -3", "    a(i) = 3.0*a(i) + c0(i)*b(i - 1)", "  end do",
                      "else", "  b(1) = b(1) + a(1)", "end if"], None),
        # the known parenthesisation defect, seen through the compiler: lower bound 2 + 1, step 3, n = 20
        (["a", "b"], ["do i = 2 + 1, n, 3", "  a(i) = a(i) + 2.0*b(i)", "end do"],
         "loop_node/mod-lower-bound-unparenthesised"),
    ]
    res = []
    for idx, (acts, body, key) in enumerate(kernels):
        src = ("module tl_mod\ncontains\nsubroutine kern(a, b, c, c0, n)\n  integer, intent(in) :: n\n"
               "  real, intent(inout) :: a(n), b(n), c(n)\n  real, intent(in) :: c0(n)\n  integer :: i\n"
               + "\n".join("  " + x for x in body) + "\nend subroutine kern\nend module tl_mod\n")
        d = ctx.scratch / ("h%d" % idx)
        d.mkdir(exist_ok=True)
        try:
            ad, test = generate_adjoint_str(src, acts, create_test=True)
        except Exception as e:    # harness generation refusing is not a property failure
            res.append({"kernel": body, "status": "psyad-refused", "why": str(e)[:200]})
            continue
        (d / "tl.f90").write_text(src)
        (d / "ad.f90").write_text(ad)
        (d / "test.f90").write_text(test)
        rc, out = core.sh("gfortran -O0 -fcheck=all tl.f90 ad.f90 test.f90 -o t.x && ./t.x", cwd=d, timeout=300)
        low = out.lower()
        status = "passed" if (rc == 0 and "passed" in low) else "FAILED" if "failed" in low else "not-run"
        res.append({"kernel": body, "status": status, "rc": rc, "out": out[-300:]})
        if status == "FAILED":
            replay = {"property": "C19", "kind": "PSyAD's generated test harness (gfortran) reports failure",
                      "kernel": src, "adjoint": ad, "harness_output": out[-1000:],
                      "replay": "generate_adjoint_str(kernel, %r, create_test=True); gfortran tl ad test; run" % acts}
            if key:
                ctx.finding(key, "", replay)
            else:
                ctx.violation(replay)
    ctx.notes["gfortran_harness"] = res
    ctx.log("gfortran harness: " + ", ".join(x["status"] for x in res))


def run(ctx):
    ctx.cov["rule"] = (
        "linear tangent-linear kernels drawn from a grammar: assignments with 1-4 terms (coefficient products "
        "of literals / passive scalars / passive array elements, unary minus, self references = increments and "
        "scalings, other elements of the same array), active scalars and 1-D arrays, DO loops with steps "
        "{omitted,1,-1,2,-2,3,-3,m} and bounds {literal, n, kk, kk+1, kk-1, 2*kk, 1-kk, n+kk, outer loop variable}, "
        "including empty and single-trip ranges, nesting depth <= 2, IF on passive data, an optional leading passive "
        "statement; plus the targeted shapes of the task and a stream with one non-linear statement (must be refused). "
        "non-trivial = PSyAD accepted the kernel; each accepted kernel is evaluated on several random integer (x, y) "
        "with random n, kk, m")
    ctx.cov["trusted_base"] = core.BASE_TRUST + [
        "coq/C19/Model.v is hand-written; tied to adjoint_visitor.py / assignment_trans.py by the tree correspondence "
        "of this run and by translate.py (static reading of the two patched places)",
        "vlib.minifort.interp mirrors Fort.Sem.exec (validated by ./check _FORT); C19.Exec links run to exec by theorem",
        "SymbolicMaths.equal is modelled as syntactic equality (generator keeps subscripts in the forms v, v+c, v-c)",
        "sympy expansion in preprocess_trans is not modelled: the model is applied to the preprocessed tree, the "
        "property is evaluated on the original tree",
        "real arithmetic is replaced by exact integer arithmetic (+ - * only); rounding is out of scope"]
    ctx.assumptions = [
        "theorems range over executions of the guarded semantics runG: active locations touched lie in the list L the "
        "inner product ranges over, textually different references of the assigned array do not alias at run time, "
        "no non-unit-step DO is entered with 0 < |lo-hi| < |step| on the empty side",
        "static side condition safe: linear terms, passive subscripts/coefficients/bounds, DO variables not read "
        "outside their loop, no passive statements among the active ones (documented PSyAD limitation #1458)"]
    t0 = time.time()
    # ---- translator
    tr_err = None
    try:
        flags = T.flags(core.REPO)
        T.write_gen(flags)
    except Exception as e:      # fail-closed: reported below, after the search
        tr_err = "%s: %s" % (type(e).__name__, e)
        flags = {"lo_paren": False, "sign_kept": False}
        T.write_gen(flags)
    ctx.notes["impl_flags"] = flags
    ok, rep = ctx.prove()
    ctx.log("proof ok=%s discharged=%d/%d flags=%s" % (ok, ctx.cov["discharged"], ctx.cov["obligations"], flags))
    # ---- known findings: replay witnesses
    replay_findings(ctx, flags)
    # ---- generated kernels
    rng = ctx.rng("gen")
    g = L.Gen(rng)
    gdeep = L.Gen(rng, deep=True)
    cases = [(a, l, "targeted") for a, l in L.TARGETED]
    nvalid = ctx.pick(60, 1500)
    for k in range(nvalid):
        a, l = (gdeep if k % 5 == 4 else g).kernel()
        cases.append((a, l, "valid"))
    for _ in range(ctx.pick(10, 150)):
        a, l = g.kernel(invalid=True)
        cases.append((a, l, "invalid"))
    nstores = ctx.pick(5, 8)
    corr, failures, nrej, nacc, nev = [], [], 0, 0, 0
    budget = ctx.pick(20, 600)
    t0 = time.time()
    for idx, (acts, lines, kind) in enumerate(cases):
        if time.time() - t0 > budget and kind != "targeted":
            ctx.notes["stopped_early_at_case"] = idx
            break
        src = L.kernel_text(lines)
        try:
            r = L.run_psyad(src, acts)
        except L.Rejected as e:
            nrej += 1
            ctx.count((acts, lines), False)
            ctx.hist("verdict", "refused:" + kind)
            ctx.hist("refusal", str(e).split(":")[0])
            continue
        nacc += 1
        ctx.count((acts, lines), True)
        ctx.hist("verdict", "accepted:" + kind)
        ctx.hist("n_actives", len(acts))
        for ln in lines:
            w = ln.split()
            if w[0] == "do":
                st = ln.split(",")[2].strip() if ln.count(",") >= 2 else "omitted"
                ctx.hist("do_step", st)
            ctx.hist("stmt", w[0] if w[0] in ("do", "if", "else", "end") else ("passive-assign" if w[0] == "p1" else "assign"))
        stores = stores_for("%d:%d" % (ctx.seed, idx), acts, nstores)
        n, fail = evaluate(r, acts, stores, flags)
        nev += n
        for vx, _ in stores[:2]:
            for f in L.features(r["pre"], acts, vx, flags) or ["none"]:
                ctx.hist("situation", f)
        corr.append((idx, coq_case(flags, acts, r["pre"], r["ad"])))
        if fail is not None:
            failures.append((idx, fail, r))
        if idx in (0, 1, len(L.TARGETED) + 3):
            ctx.sample({"actives": acts, "kernel": lines, "adjoint": r["ad_text"].split("\n\n", 1)[-1][:600],
                        "identity_failed": fail is not None})
    ctx.notes["kernels_accepted"] = nacc
    ctx.notes["kernels_refused"] = nrej
    ctx.notes["inner_product_evaluations"] = nev
    # ---- correspondence with the model
    bad = ctx.coq_eval_failing(HEADER, "corr_case", "corr_check", [c for _, c in corr], shard=60)
    bad_idx = {corr[i][0] for i in bad}
    ctx.cov["disagreements_checked"] = len(bad)
    # evidence only: how many accepted kernels lie in the fully static class of C19_dot_adjoint_static
    # (safe && literal loops && alias_free) and in the alias_free class alone
    hdr2 = HEADER.replace("C19.Model.", "C19.Model C19.Static.")
    nonstatic = ctx.coq_eval_failing(hdr2, "corr_case", "static_check", [c for _, c in corr], shard=60)
    nonaf = ctx.coq_eval_failing(hdr2, "corr_case",
                                 "(fun c => match c with (_, _, ac, tl, _) => alias_free ac tl end)",
                                 [c for _, c in corr], shard=60)
    ctx.notes["accepted_kernels_in_static_class"] = len(corr) - len(nonstatic)
    ctx.notes["accepted_kernels_alias_free"] = len(corr) - len(nonaf)
    ctx.notes["accepted_kernels_total"] = len(corr)
    static_failed = [i for i, _, _ in failures if i in {corr[k][0] for k in range(len(corr))} - {corr[k][0] for k in nonstatic}]
    ctx.notes["identity_failures_inside_static_class"] = len(static_failed)
    ctx.log("kernels=%d accepted=%d refused=%d identity evaluations=%d failures=%d model/impl tree disagreements=%d"
            % (len(cases), nacc, nrej, nev, len(failures), len(bad)))
    # ---- verdict
    open_keys = {k["key"] for k in ctx.known_findings() if k.get("status") == "open"}
    reported = 0
    for idx, fail, r in failures:
        acts, lines, _ = cases[idx]
        replay = {"property": "C19", "kernel": lines, "actives": acts, "failure": fail, "adjoint": r["ad_text"],
                  "model_agrees_with_implementation": idx not in bad_idx,
                  "replay": "generate_adjoint_str(kernel_text, actives); evaluate both with vlib.minifort.interp on x, y"}
        cand = [k for k in PRIORITY if k in fail["features"]]
        if idx not in bad_idx and any(k in open_keys for k in cand):
            ctx.finding([k for k in cand if k in open_keys][0], "", replay)
            ctx.hist("failure", "known:" + "+".join(x.split("/")[1] for x in cand))
        else:
            ctx.hist("failure", "VIOLATION")
            if reported < 3:
                reported += 1
                why = ("model-disagrees/" if idx in bad_idx else "unlisted/") + \
                      ("+".join(x.split("/")[1] for x in cand) if cand else "no-known-situation")
                ctx.violation(dict(replay, key=why, what="adjoint is not the transpose of the tangent-linear kernel"))
    if not reported and (bad or not ok or tr_err):
        i = sorted(bad_idx)[0] if bad_idx else None
        ctx.violation({"property": "C19",
                       "broken": ("translator props/C19/translate.py no longer recognises the code: " + tr_err) if tr_err
                       else "correspondence C19.Model.adj = AdjointVisitor (tree equality)" if bad
                       else "proof obligations of Properties/C19.v",
                       "proof_report": rep if not ok else None,
                       "first_differing_case": None if i is None else
                       {"kernel": cases[i][1], "actives": cases[i][0],
                        "model": ctx.coq_eval_show(HEADER, ["match %s with (lp, sk, ac, tl, _) => adj (mkFlags lp sk) ac tl end"
                                                            % dict(corr)[i]])},
                       "n_differing": len(bad)}, no_input=True)
    if ctx.thorough:
        harness_tier(ctx)
