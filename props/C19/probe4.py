import sys
sys.path.insert(0, "/verif/props/C19")
import c19lib as L
for idx in (0, 5, 7, 10, 12, 15):
    acts, lines = L.TARGETED[idx]
    r = L.run_psyad(L.kernel_text(lines), acts)
    print("\n".join(lines)); print("PRE", r["pre"]); print("AD ", r["ad"]); print()
for acts, lines in [(["a","b"], ["  a(1) = (-m)*b(1) - (-4)*a(1) + b(2)*m*w(1) - m*b(3)*n"]),
                    (["a","b"], ["  do i = -1, n, 2", "  a(i) = b(i)", "  end do"]),
                    (["a","b"], ["  do i = -kk, n, 2", "  a(i) = b(i)", "  end do"]),
                    (["a","b"], ["  do i = kk*2+1, n, 2", "  a(i) = b(i)", "  end do"]),
                    (["a","b"], ["  do i = kk-(n-1), n, 2", "  a(i) = b(i)", "  end do"]),
                    ]:
    try:
        r = L.run_psyad(L.kernel_text(lines), acts)
        print("\n".join(lines)); print("PRE", r["pre"]); print("AD ", r["ad"]); print()
    except Exception as e:
        print("\n".join(lines)); print("EXC", type(e).__name__, e)
