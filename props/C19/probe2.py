from psyclone.psyad.tl2ad import generate_adjoint_str
def k(body, decl=""):
    return f"""subroutine kern(a, b, c, z, n, kk, m)
  integer, intent(in) :: n, kk, m
  real, intent(inout) :: a(20), b(20), c(20), z(20)
  real :: s, t
  integer :: i, j
{decl}
{body}
end subroutine kern
"""
tests = [
 ("z(1) = b(1) - 2*z(1)", ["z","b"]),
 ("z(1) = b(1) - z(1)", ["z","b"]),
 ("z(1) = b(1) - m*z(1)", ["z","b"]),
 ("z(1) = b(1) - z(1)*m + 3*z(1)", ["z","b"]),
 ("c(1) = b(1) - 2*c(1)", ["c","b"]),
 ("a(i) = a(kk) + b(i)", ["a","b"]),
 ("a(i) = 2*a(i+1) - b(i)*m", ["a","b"]),
 ("a(i+1) = a(i+1) + 2*a(i) ", ["a","b"]),
 ("a(i+1) = a(1+i) + 2*a(i) ", ["a","b"]),
 ("a(kk+i) = a(i+kk)*3 + 2*b(i) ", ["a","b"]),
 ("s = s + 2*t\n t = 3*s - t", ["s","t"]),
 ("a(1) = -(b(1) + 2*c(1))", ["a", "b","c"]),
 ("a(1) = m*n*b(1)*2", ["a", "b","c"]),
 ("a(1) = b(1)*m + (-c(1))", ["a", "b","c"]),
 ("a(1) = 0.0", ["a", "b","c"]),
 ("a(1) = b(n-kk)", ["a", "b","c"]),
]
for body, act in tests:
    print("=== TL:", body.replace("\n", " ; "), act)
    try:
        ad, _ = generate_adjoint_str(k(body), act)
        lines = ad.split("\n")
        st = [l for l in lines if l.strip() and not l.strip().startswith(("integer","real","subroutine","end subroutine","!"))]
        print("\n".join(st))
    except Exception as e:
        print("EXC", type(e).__name__, str(e)[:300])
