"""C19 harness library: generator of linear tangent-linear kernels, driver of the real PSyAD
(reader -> preprocess_trans -> generate_adjoint -> serialiser), exact evaluation of the
inner-product identity with vlib.minifort.interp, and the feature classifier (reason codes)."""
import contextlib
import io

from vlib import minifort as mf

ARRS = ["a", "b", "c"]
SCAL = ["s", "t"]
PASSIVE_INT = ["n", "kk", "m"]
LOOPVARS = ["i", "j"]
HEADER = """subroutine kern(a, b, c, w, s, t, n, kk, m)
  integer, intent(in) :: n, kk, m
  real, intent(inout) :: a(20), b(20), c(20)
  real, intent(in) :: w(20)
  real, intent(inout) :: s, t
  integer :: i, j, p1
"""


def kernel_text(body_lines):
    return HEADER + "\n".join(body_lines) + "\nend subroutine kern\n"


# ------------------------------------------------------------------------------- generator
class Gen:
    """Text-level generator.  Mostly valid tangent-linear code; `invalid` asks for one
    non-linear / passive-term statement (PSyAD must refuse; refusal is never an alarm)."""

    def __init__(self, rng, deep=False):
        self.r = rng
        self.deep = deep

    def pick_actives(self):
        r = self.r
        k = r.choice([2, 2, 3, 3, 4, 5])
        pool = ARRS + SCAL
        acts = r.sample(pool, k)
        if not any(a in ARRS for a in acts):
            acts[0] = r.choice(ARRS)
        return sorted(set(acts), key=pool.index)

    def index(self, env):
        r = self.r
        c = []
        for v in env:
            c += [v, v, v + " + 1", v + " - 1", v + " + 2"]
        c += ["kk", "kk + 1", "n", str(r.randint(1, 6)), str(r.randint(1, 6))]
        if len(env) > 0 and r.random() < 0.75:
            return r.choice(c[:5 * len(env)])
        return r.choice(c)

    def ref(self, name, env):
        return "%s(%s)" % (name, self.index(env)) if name in ARRS else name

    def coef(self, env, acts):
        r = self.r
        pas_arr = [a for a in ARRS if a not in acts] + ["w"]
        c = r.random()
        if c < 0.45:
            return str(r.randint(2, 5))
        if c < 0.7:
            return r.choice(["n", "kk", "m", "p1"] if self.p1_ok else ["n", "kk", "m"])
        if c < 0.9:
            return "%s(%s)" % (r.choice(pas_arr), self.index(env))
        return r.choice(list(env)) if env else "m"

    def term(self, act_ref, env, acts):
        r = self.r
        c = r.random()
        if c < 0.25:
            return act_ref
        k = self.coef(env, acts)
        if c < 0.6:
            return "%s*%s" % (k, act_ref)
        if c < 0.75:
            return "%s*%s" % (act_ref, k)
        if c < 0.85:
            return "%s*%s*%s" % (k, self.coef(env, acts), act_ref)
        if c < 0.93:
            return "(-%s)*%s" % (k, act_ref)
        return "%s*%s*%s" % (k, act_ref, self.coef(env, acts))

    def assign(self, env, acts, invalid=False):
        r = self.r
        lhs_name = r.choice(acts)
        lhs = self.ref(lhs_name, env)
        if r.random() < 0.04:
            return ["%s = 0.0" % lhs]
        nterms = r.choice([1, 2, 2, 3, 3, 4])
        terms = []
        for _ in range(nterms):
            c = r.random()
            if c < 0.3:
                ar = lhs                                   # self reference (increment / scaling)
            elif c < 0.42 and lhs_name in ARRS:
                ar = self.ref(lhs_name, env)               # same array, maybe other element
            else:
                ar = self.ref(r.choice(acts), env)
            terms.append(self.term(ar, env, acts))
        if invalid:
            terms[r.randrange(len(terms))] = r.choice(
                ["%s*%s" % (lhs, self.ref(r.choice(acts), env)), self.coef(env, acts), "3"])
        out = terms[0] if r.random() < 0.8 else "-" + terms[0]
        for t in terms[1:]:
            out += r.choice([" + ", " + ", " - "]) + t
        return ["%s = %s" % (lhs, out)]

    def bounds(self, env):
        r = self.r
        outer = list(env)
        los = ["1", "2", "kk", "kk + 1", "kk - 1", "2*kk", "1 - kk", "kk + 2", "3"] + outer
        his = ["n", "n - 1", "n + 1", "5", "4", "7", "n + kk", "6"] + [v + " + 2" for v in outer]
        st = r.choice([None, "1", "1", "-1", "2", "2", "-2", "3", "-3", "m", "2", "3"])
        lo, hi = r.choice(los), r.choice(his)
        neg = st is not None and st.startswith("-")
        if neg and r.random() < 0.85:
            lo, hi = hi, lo
        if r.random() < 0.08:                  # deliberately (nearly) empty literal ranges
            lo, hi = r.choice([("5", "4"), ("6", "4"), ("4", "4"), ("5", "3"), ("3", "5"), ("7", "2")])
            if neg:
                lo, hi = hi, lo
        return lo, hi, st

    def block(self, env, acts, depth, n, ind="  "):
        r = self.r
        out = []
        for _ in range(n):
            c = r.random()
            if c < 0.5 or depth >= 2 or (depth >= 1 and c < 0.75):
                out += [ind + l for l in self.assign(env, acts)]
            elif c < 0.86:
                free = [v for v in LOOPVARS if v not in env]
                if not free:
                    out += [ind + l for l in self.assign(env, acts)]
                    continue
                v = free[0]
                lo, hi, st = self.bounds(env)
                out.append("%sdo %s = %s, %s%s" % (ind, v, lo, hi, "" if st is None else ", " + st))
                out += self.block(env + [v], acts, depth + 1, r.choice([1, 1, 2, 3]), ind + "  ")
                out.append(ind + "end do")
            else:
                cond = r.choice(["n > 2", "kk == 0", "m < n", "w(1) > 0", "n + kk >= 3", "m /= 2"] +
                                ["%s > 2" % v for v in env])
                out.append("%sif (%s) then" % (ind, cond))
                out += self.block(env, acts, depth + 1, r.choice([1, 2]), ind + "  ")
                if r.random() < 0.5:
                    out.append(ind + "else")
                    out += self.block(env, acts, depth + 1, r.choice([1, 2]), ind + "  ")
                out.append(ind + "end if")
        return out

    def kernel(self, invalid=False):
        r = self.r
        acts = self.pick_actives()
        self.p1_ok = False
        lines = []
        if r.random() < 0.2:
            # a passive statement, placed first: it is hoisted first in the adjoint too
            lines.append("  p1 = %s" % r.choice(["kk + 2", "n - 1", "2*m", "n + kk"]))
            self.p1_ok = True
        lines += self.block([], acts, 0, r.choice([1, 2, 2, 3, 4] if not self.deep else [2, 3, 4, 5, 6]))
        if invalid:
            pos = r.randrange(len(lines) + 1)
            lines.insert(pos, "  " + self.assign([], acts, invalid=True)[0])
        return acts, lines


TARGETED = [
    # (actives, body lines) — shapes named in the task, always run first
    (["a", "b", "c"], ["  do i = kk + 1, n, 3", "    a(i) = 2*b(i) + 3*c(i)", "  end do"]),
    (["a", "c"], ["  do i = 5, 4, 2", "    a(i) = a(i) + 3*c(i)", "  end do"]),
    (["a", "c"], ["  do i = 1, n, 2", "    a(i) = a(i) + 3*c(i + 1)", "  end do"]),
    (["a", "c"], ["  do i = n, 1, -2", "    a(i) = a(i) + 3*c(i - 1)", "  end do"]),
    (["a", "c"], ["  do i = kk, n, m", "    a(i) = a(i) + 3*c(i)", "  end do"]),
    (["a", "b"], ["  do i = 1 - kk, n, 2", "    a(i) = 2*a(i) - b(i + 1)", "  end do"]),
    (["a", "b"], ["  do i = 2*kk, n + 1, 3", "    b(i) = a(i) + b(i)", "  end do"]),
    (["a", "b"], ["  do i = n, kk + 1, -3", "    b(i) = a(i) + b(i)", "  end do"]),
    (["a", "b"], ["  do i = 4, 5, -2", "    b(i) = a(i) + b(i)", "  end do"]),
    (["a", "b"], ["  do i = 4, 4, 3", "    b(i) = a(i + 1) + 4*b(i)", "  end do"]),
    (["a", "b"], ["  a(1) = b(1) - 2*a(1)"]),
    (["b", "c"], ["  c(1) = b(1) - c(1)"]),
    (["s", "t", "a"], ["  s = s + 2*t", "  t = 3*s - a(2)", "  a(1) = s*n + t"]),
    (["s", "t", "a"], ["  t = 3*s - t"]),
    (["a", "b"], ["  do i = 1, n", "    a(i) = a(kk + 1) + b(i)", "  end do"]),
    (["a", "b"], ["  do i = 1, n", "    do j = i, 5, 2", "      a(i) = a(i) + w(j)*b(j)", "    end do", "  end do"]),
    (["a", "b", "s"], ["  if (n > 2) then", "    a(1) = 2*b(1)", "  else", "    b(2) = b(2) + a(1)*m", "  end if",
                        "  s = s + a(1)"]),
    (["a", "b"], ["  do i = n, 1, -1", "    a(i + 1) = a(i + 1) + 2*a(i) - b(i)", "  end do"]),
    (["a"], ["  do i = 1, n", "    a(i) = 0.0", "  end do"]),
]


# ------------------------------------------------------------------ driver of the implementation
class Rejected(Exception):
    pass


def _replace_codeblocks(routine):
    """The reversed loop bound is a CodeBlock holding the re-parsed text `MOD(...)`.  Re-read the
    CodeBlock's own text as an expression so the serialiser can see what was parsed."""
    from psyclone.psyir.nodes import CodeBlock
    from psyclone.psyir.frontend.fortran import FortranReader
    for cb in routine.walk(CodeBlock):
        if cb.structure != CodeBlock.Structure.EXPRESSION:
            continue
        txt = " ".join(str(a) for a in cb.get_ast_nodes)
        new = FortranReader().psyir_from_expression(txt, routine.symbol_table)
        cb.replace_with(new)


def run_psyad(src, acts):
    """-> dict(tl=orig stmts, pre=preprocessed stmts, ad=adjoint stmts, ad_text=str) or raises Rejected."""
    from psyclone.psyir.frontend.fortran import FortranReader
    from psyclone.psyir.backend.fortran import FortranWriter
    from psyclone.psyir.nodes import Routine
    from psyclone.psyad.tl2ad import generate_adjoint
    from psyclone.psyad.transformations.preprocess import preprocess_trans
    psy = FortranReader().psyir_from_source(src)
    tl = mf.from_psyir(psy.walk(Routine)[0])
    try:
        with contextlib.redirect_stdout(io.StringIO()):
            preprocess_trans(psy, acts)
            pre = mf.from_psyir(psy.walk(Routine)[0])
            ad = generate_adjoint(psy, acts)
    except Exception as e:                                   # refusal: never an alarm
        raise Rejected("%s: %s" % (type(e).__name__, str(e)[:200]))
    text = FortranWriter()(ad)
    ad2 = ad.copy()
    rt = ad2.walk(Routine)[0]
    _replace_codeblocks(rt)
    return {"tl": tl, "pre": pre, "ad": mf.from_psyir(rt), "ad_text": text}


# ------------------------------------------------------------------ exact property evaluation
def make_store(rng, acts, wide=False):
    vals = {}
    vals[("n", ())] = rng.choice([0, 1, 2, 3, 4, 5, 6, 7])
    vals[("kk", ())] = rng.choice([-1, 0, 0, 1, 2])
    vals[("m", ())] = rng.choice([-3, -2, -1, 1, 2, 3, 4])
    vals[("p1", ())] = rng.randint(-2, 2)
    vals[("i", ())] = rng.randint(-2, 9)
    vals[("j", ())] = rng.randint(-2, 9)
    for a in ARRS + ["w"]:
        for k in range(-10, 34):
            vals[(a, (k,))] = rng.randint(-4, 4)
    for v in SCAL:
        vals[(v, ())] = rng.randint(-4, 4)
    return vals


def second_store(rng, vals, acts):
    """same passive data, fresh active data (the vector y)."""
    out = dict(vals)
    for k in vals:
        if k[0] in acts:
            out[k] = rng.randint(-4, 4)
    return out


def dot_check(tl, ad, acts, vx, vy):
    """-> None if <A x, y> == <x, A* y> and passive data unchanged, else a dict describing the failure;
    'skip' when either program faults / runs out of fuel (outside the property's antecedent)."""
    r1 = mf.interp(tl, vx, {}, fuel=40000)
    r2 = mf.interp(ad, vy, {}, fuel=40000)
    if r1[0] != "ok" or r2[0] != "ok":
        return "skip"
    ax, asy = r1[1].vals, r2[1].vals
    keys = set(k for k in list(ax) + list(asy) + list(vx) + list(vy) if k[0] in acts)
    lhs = sum(ax.get(k, 0) * vy.get(k, 0) for k in keys)
    rhs = sum(vx.get(k, 0) * asy.get(k, 0) for k in keys)
    if lhs != rhs:
        return {"kind": "inner-product", "lhs_Ax_y": lhs, "rhs_x_Aty": rhs}
    # passive data: the adjoint must treat it exactly as the tangent-linear code does (DO variables apart)
    for k in set(list(ax) + list(asy)):
        if k[0] not in acts and k[0] not in LOOPVARS and asy.get(k, 0) != ax.get(k, 0):
            return {"kind": "passive-data-differs", "loc": k, "after_tl": ax.get(k, 0), "after_adjoint": asy.get(k, 0)}
    for k, v in vx.items():
        if k[0] not in acts and k[0] not in LOOPVARS + ["p1"] and ax.get(k, 0) != v:
            return {"kind": "passive-changed-by-tl", "loc": k, "before": v, "after": ax.get(k, 0)}
    return None


# ------------------------------------------------------------------ features (reason codes)
def additive_top(e):
    """the printed text of e has a top-level + or - : pasting `hi-<text>` re-associates."""
    return e[0] == "bin" and e[1] in ("Add", "Sub")


def is_unit_step(e):
    return e[0] == "lit" and e[1] in (1, -1)


def split_terms(e, sign=1):
    if e[0] == "bin" and e[1] in ("Add", "Sub"):
        return split_terms(e[2], sign) + split_terms(e[3], sign if e[1] == "Add" else -sign)
    return [(sign, e)]


def first_active(e, acts):
    k = e[0]
    if k == "var":
        return e if e[1] in acts else None
    if k == "idx":
        if e[1] in acts:
            return e
        for x in e[2]:
            r = first_active(x, acts)
            if r:
                return r
        return None
    if k == "un":
        return first_active(e[2], acts)
    if k == "bin":
        return first_active(e[2], acts) or first_active(e[3], acts)
    if k == "intr":
        for x in e[2]:
            r = first_active(x, acts)
            if r:
                return r
    return None


def features(pre, acts, vals, flags):
    """Walk the (preprocessed) TL program on the passive data `vals` and report which of the
    known-unsafe situations really occur in this execution.  flags: dict(lo_paren, sign_kept)."""
    feats = set()
    st = mf.Store(vals, {})

    def ev(e):
        return mf.ev(st, e, [])

    def walk(ss):
        for s in ss:
            k = s[0]
            if k == "assign":
                lhs = ("idx", s[1], s[2]) if s[2] else ("var", s[1])
                if s[1] not in acts:
                    st.vals[(s[1], tuple(ev(x) for x in s[2]))] = ev(s[3])
                    continue
                l0 = (s[1], tuple(ev(x) for x in s[2]))
                deferred = []
                for sg, t in split_terms(s[3]):
                    ar = first_active(t, acts)
                    if ar is None:
                        continue
                    if ar == lhs:
                        deferred.append((sg, t))
                    else:
                        la = (ar[1], tuple(ev(x) for x in ar[2])) if ar[0] == "idx" else (ar[1], ())
                        if la == l0:
                            feats.add("assignment_trans/runtime-aliased-lhs-rhs")
                if deferred and deferred[0][0] < 0 and not flags.get("sign_kept"):
                    feats.add("assignment_trans/first-self-term-sign-dropped")
            elif k == "if":
                walk(s[2] if ev(s[1]) != 0 else s[3])
            elif k == "do":
                lo, hi, stp = ev(s[2]), ev(s[3]), ev(s[4])
                if stp == 0:
                    raise mf.FaultExc("zerostep")
                n = max(0, mf._quot(hi - lo + stp, stp))
                if not is_unit_step(s[4]):
                    if additive_top(s[2]) and not flags.get("lo_paren"):
                        feats.add("loop_node/mod-lower-bound-unparenthesised")
                    if n == 0 and 0 < abs(lo - hi) < abs(stp):
                        feats.add("loop_node/empty-loop-nonunit-step")
                for kk in range(n):
                    st.vals[(s[1], ())] = lo + kk * stp
                    walk(s[5])
                st.vals[(s[1], ())] = lo + n * stp
    try:
        walk(pre)
    except mf.FaultExc:
        pass
    return feats
