"""C19 translator (static, fail-closed): reads the two places of /repo's working tree where the
unchanged code is known to deviate from the transpose and decides which variant is present.

  lo_paren  : in AdjointVisitor.loop_node the text pasted into
              Fortran2003.Intrinsic_Function_Reference(f"mod({hi_str}-{lo_str},{step_str})")
              has parentheses around the lower bound whenever it is an operation;
  sign_kept : in AssignmentTrans.apply the operator of the first deferred (self) term is honoured.

Writes coq/C19/Gen.v (`impl_flags`).  Any shape other than the recognised ones raises."""
import ast
import sys
from pathlib import Path

sys.path.insert(0, str(Path(__file__).resolve().parents[2]))
from vlib import core  # noqa: E402


class Unrecognised(Exception):
    pass


def _func(tree, cls, name):
    for n in ast.walk(tree):
        if isinstance(n, ast.ClassDef) and n.name == cls:
            for f in n.body:
                if isinstance(f, ast.FunctionDef) and f.name == name:
                    return f
    raise Unrecognised("%s.%s not found" % (cls, name))


def _template(js):
    out = ""
    for v in js.values:
        if isinstance(v, ast.Constant):
            out += v.value
        elif isinstance(v, ast.FormattedValue) and isinstance(v.value, ast.Name) and v.conversion == -1 \
                and v.format_spec is None:
            out += "{%s}" % v.value.id
        else:
            raise Unrecognised("f-string part " + ast.dump(v))
    return out


def loop_flag(repo):
    src = (Path(repo) / "src/psyclone/psyad/adjoint_visitor.py").read_text()
    fn = _func(ast.parse(src), "AdjointVisitor", "loop_node")
    calls = [n for n in ast.walk(fn) if isinstance(n, ast.Call) and isinstance(n.func, ast.Attribute)
             and n.func.attr == "Intrinsic_Function_Reference"]
    if len(calls) != 1 or len(calls[0].args) != 1 or not isinstance(calls[0].args[0], ast.JoinedStr):
        raise Unrecognised("loop_node: expected exactly one Intrinsic_Function_Reference(f\"...\")")
    tmpl = _template(calls[0].args[0])
    # every assignment to the three strings inside loop_node
    assigns = {}
    for n in ast.walk(fn):
        if isinstance(n, ast.Assign) and len(n.targets) == 1 and isinstance(n.targets[0], ast.Name) \
                and n.targets[0].id in ("hi_str", "lo_str", "step_str"):
            assigns.setdefault(n.targets[0].id, []).append(n)
    want = {"hi_str": "fortran_writer(node.stop_expr)", "lo_str": "fortran_writer(node.start_expr)",
            "step_str": "fortran_writer(node.step_expr)"}
    for k, w in want.items():
        if not assigns.get(k) or ast.unparse(assigns[k][0].value) != w:
            raise Unrecognised("loop_node: %s is not %s" % (k, w))
    if len(assigns["hi_str"]) != 1 or len(assigns["step_str"]) != 1:
        raise Unrecognised("loop_node: hi_str/step_str re-assigned")
    extra = assigns["lo_str"][1:]
    if tmpl == "mod({hi_str}-({lo_str}),{step_str})" and not extra:
        return True
    if tmpl != "mod({hi_str}-{lo_str},{step_str})":
        raise Unrecognised("loop_node: pasted text is %r" % tmpl)
    if not extra:
        return False
    # the conditional form:  if isinstance(node.start_expr, Operation...): lo_str = f"({lo_str})"
    if len(extra) == 1 and isinstance(extra[0].value, ast.JoinedStr) and _template(extra[0].value) == "({lo_str})":
        for n in ast.walk(fn):
            if isinstance(n, ast.If) and extra[0] in n.body and len(n.body) == 1 and not n.orelse:
                t = ast.unparse(n.test)
                if t in ("isinstance(node.start_expr, Operation)",
                         "isinstance(node.start_expr, (BinaryOperation, UnaryOperation))",
                         "isinstance(node.start_expr, (UnaryOperation, BinaryOperation))",
                         "not isinstance(node.start_expr, (Reference, Literal))",
                         "not isinstance(node.start_expr, (Literal, Reference))"):
                    return True
                raise Unrecognised("loop_node: parenthesisation guarded by %r" % t)
    raise Unrecognised("loop_node: lo_str re-assigned in an unrecognised way")


OLD_TEST = "len(deferred_inc) == 1 and isinstance(deferred_inc[0][0], Reference)"
NEW_TEST = OLD_TEST + " and (deferred_inc[0][1] == BinaryOperation.Operator.ADD)"
NEW_TEST2 = OLD_TEST + " and deferred_inc[0][1] == BinaryOperation.Operator.ADD"
OLD_ELIF = ["rhs, _ = deferred_inc.pop(0)",
            "for term, operator in deferred_inc:\n    rhs = BinaryOperation.create(operator, rhs, term)"]
NEW_ELIF = ["rhs, operator = deferred_inc.pop(0)",
            "if operator == BinaryOperation.Operator.SUB:\n"
            "    rhs = UnaryOperation.create(UnaryOperation.Operator.MINUS, rhs)",
            "for term, operator in deferred_inc:\n    rhs = BinaryOperation.create(operator, rhs, term)"]


def sign_flag(repo):
    src = (Path(repo) / "src/psyclone/psyad/transformations/assignment_trans.py").read_text()
    fn = _func(ast.parse(src), "AssignmentTrans", "apply")
    ifs = [n for n in ast.walk(fn) if isinstance(n, ast.If) and "len(deferred_inc)" in ast.unparse(n.test)]
    if len(ifs) != 1:
        raise Unrecognised("apply: expected one `if len(deferred_inc) == 1 ...`")
    node = ifs[0]
    test = ast.unparse(node.test)
    if not (len(node.body) == 1 and isinstance(node.body[0], ast.Pass)):
        raise Unrecognised("apply: body of the single-reference case is not `pass`")
    if not (len(node.orelse) == 1 and isinstance(node.orelse[0], ast.If)
            and ast.unparse(node.orelse[0].test) == "deferred_inc"):
        raise Unrecognised("apply: missing `elif deferred_inc:`")
    body = [ast.unparse(s) for s in node.orelse[0].body[:-2]]
    tail = [ast.unparse(s) for s in node.orelse[0].body[-2:]]
    if tail != ["assignment = Assignment.create(node.lhs.copy(), rhs)",
                "node.parent.children.insert(node.position, assignment)"]:
        raise Unrecognised("apply: deferred assignment is built differently")
    if test == OLD_TEST and body == OLD_ELIF:
        return False
    if test in (NEW_TEST, NEW_TEST2) and body == NEW_ELIF:
        return True
    raise Unrecognised("apply: deferred-increment handling not recognised: %r / %r" % (test, body))


def flags(repo=None):
    repo = repo or core.REPO
    return {"lo_paren": loop_flag(repo), "sign_kept": sign_flag(repo)}


def write_gen(fl):
    b = lambda x: "true" if x else "false"   # noqa: E731
    text = ("(* generated by props/C19/translate.py from the tree under test — do not edit *)\n"
            "From PV Require Import C19.Model.\n"
            "Definition impl_flags : flags := mkFlags %s %s.\n" % (b(fl["lo_paren"]), b(fl["sign_kept"])))
    core.write_if_changed(core.COQ / "C19" / "Gen.v", text)


if __name__ == "__main__":
    f = flags()
    write_gen(f)
    print(f)
