from psyclone.psyad.tl2ad import generate_adjoint_str
def k(body, decl=""):
    return f"""subroutine kern(a, b, c, n, kk, m)
  integer, intent(in) :: n, kk, m
  real, intent(inout) :: a(20), b(20), c(20)
  real :: s, t
  integer :: i, j
{decl}
{body}
end subroutine kern
"""
tests = [
 ("do i = kk+1, n, 3\n a(i) = 2*b(i) + 3*c(i)\n end do", ["a","b","c"]),
 ("do i = 5, 4, 2\n a(i) = a(i) + 3*c(i)\n end do", ["a","c"]),
 ("do i = kk, n, m\n a(i) = a(i) + 3*c(i)\n end do", ["a","c"]),
 ("do i = n, kk+1, -2\n a(i) = a(i) + 3*c(i-1)\n end do", ["a","c"]),
 ("a(1) = b(1) - a(1)", ["a","b"]),
 ("a(1) = b(1) - 2*a(1)", ["a","b"]),
 ("a(1) = -a(1) + b(1)", ["a","b"]),
 ("a(1) = a(1) - b(1)", ["a","b"]),
 ("a(1) = 3*a(1)", ["a"]),
 ("a(1) = 3*a(1) - 2*a(1) + b(2)", ["a","b"]),
 ("a(1) = b(1) - (c(1) - a(1))", ["a","b","c"]),
 ("if (n > 2) then\n a(1) = 2*b(1)\n else\n b(2) = b(2) + a(1)\n end if", ["a","b"]),
 ("a(kk) = b(1)\n j = kk + 1\n a(j) = c(1)", ["a","b","c"]),
 ("s = 2*b(1)\n a(1) = a(1) + s*m", ["a","b","s"]),
 ("a(1) = m*(b(1) + c(2))", ["a","b","c"]),
]
for body, act in tests:
    print("=== TL:", body.replace("\n", " ; "), act)
    try:
        ad, _ = generate_adjoint_str(k(body), act)
        lines = ad.split("\n")
        # print only executable part
        st = [l for l in lines if l.strip() and not l.strip().startswith(("integer","real","subroutine","end subroutine","!"))]
        print("\n".join(st))
    except Exception as e:
        print("EXC", type(e).__name__, str(e)[:300])
