import random, sys, time, collections
sys.path.insert(0, "/verif/props/C19")
import c19lib as L
N = int(sys.argv[1]) if len(sys.argv) > 1 else 150
rng = random.Random(int(sys.argv[2]) if len(sys.argv) > 2 else 0)
g = L.Gen(rng)
stats = collections.Counter()
t0 = time.time()
cases = list(L.TARGETED) + [g.kernel() for _ in range(N)]
flags = {"lo_paren": False, "sign_kept": False}
shown = collections.Counter()
for acts, lines in cases:
    src = L.kernel_text(lines)
    try:
        r = L.run_psyad(src, acts)
    except L.Rejected as e:
        stats["rejected"] += 1
        if shown["rej"] < 6:
            shown["rej"] += 1; print("REJ", e, "\n" + "\n".join(lines))
        continue
    except Exception as e:
        stats["EXC " + type(e).__name__] += 1
        if shown["exc"] < 5:
            shown["exc"] += 1; print("EXC", type(e).__name__, e, "\n" + "\n".join(lines))
        continue
    bad = None
    for k in range(6):
        vx = L.make_store(rng, acts); vy = L.second_store(rng, vx, acts)
        res = L.dot_check(r["tl"], r["ad"], acts, vx, vy)
        if res == "skip":
            stats["skip"] += 1; continue
        f = L.features(r["pre"], acts, vx, flags)
        if res is None:
            stats["ok/" + ",".join(sorted(x.split("/")[1][:12] for x in f))] += 1
        else:
            key = "FAIL/" + res["kind"] + "/" + ",".join(sorted(x.split("/")[1][:12] for x in f))
            stats[key] += 1
            if shown[key] < 2:
                shown[key] += 1
                print(key, acts, {k[0]: v for k, v in vx.items() if k[0] in ("n", "kk", "m")}, res)
                print("\n".join(lines)); print(r["ad_text"].split("p1\n")[-1])
print("time %.1fs for %d kernels" % (time.time() - t0, len(cases)))
for k, v in sorted(stats.items()):
    print("%6d %s" % (v, k))
