"""C04 -- "renamed without capturing any other reference", for references that are TEXT: names inside
CodeBlocks (WRITE / PRINT / READ / other unsupported statements) spelled in random letter case.

Two ways a merge renames symbols:
  inline : InlineTrans merges the callee's table into the caller's (callee imports / locals clash with
           caller locals that only CodeBlocks mention);
  scopes : FortranWriter.routine_node merges inner-scope tables into the routine's (inner symbols
           clashing with routine-scope symbols, CodeBlocks at either level).
Oracle (direct, on the implementation's own data): before the operation every name occurrence of every
CodeBlock is resolved (case-insensitively, from the CodeBlock's scope) to a Symbol object; afterwards
that object must still carry that name and the same lookup must return that same object.
"""
import random as _random


POOL = ["tmp", "acc", "val", "loc", "wrk"]
CB_FORMS = [
    "    WRITE(*, '(F8.2)') {v}",
    "    print *, {v}",
    "    write(*, *) {v}, {w}",
    "    WRITE(*, '(2F8.2)') {v} + 1.0, {w}",
]


def spell(rng, name):
    """The name in a random letter case (never all lower case in 2 of 3 draws)."""
    c = rng.random()
    if c < 0.35:
        return name.upper()
    if c < 0.7:
        return "".join(ch.upper() if rng.random() < 0.5 else ch for ch in name)
    return name


def gen_inline_program(rng, idx):
    """(text of data module + work module, text of driver, module name).  Self-contained; prints."""
    dm, wm = "cdat%d" % idx, "cwork%d" % idx
    data = ["module %s" % dm, "  implicit none"]
    for k, nm in enumerate(POOL):
        data.append("  real :: %s = %d.0" % (nm, 100 * (k + 1)))
    data.append("end module %s" % dm)
    caller_locals = rng.sample(POOL, rng.randint(2, 3))
    callee_imports = rng.sample(POOL, rng.randint(0, 2))
    callee_locals = [n for n in rng.sample(POOL, rng.randint(1, 3)) if n not in callee_imports]
    L = ["module %s" % wm, "  implicit none", "contains", "  subroutine caller(x)", "    real, intent(inout) :: x"]
    for nm in caller_locals:
        L.append("    real :: %s" % spell(rng, nm))
    for k, nm in enumerate(caller_locals):
        L.append("    %s = %d.0 * x" % (spell(rng, nm), k + 2))
    body = ["    call sub(x)"]
    for _ in range(rng.randint(1, 3)):
        v, w = rng.choice(caller_locals), rng.choice(caller_locals)
        body.append(rng.choice(CB_FORMS).format(v=spell(rng, v), w=spell(rng, w)))
    if rng.random() < 0.5:
        rng.shuffle(body)
    if rng.random() < 0.3:
        body.append("    x = x + %s" % spell(rng, caller_locals[0]))
    L += body
    L += ["  end subroutine caller", "  subroutine sub(y)"]
    if callee_imports:
        L.append("    use %s, only: %s" % (dm, ", ".join(callee_imports)))
    L.append("    real, intent(inout) :: y")
    for nm in callee_locals:
        L.append("    real :: %s" % spell(rng, nm))
    for k, nm in enumerate(callee_locals):
        L.append("    %s = y + %d.0" % (nm, k + 1))
    terms = callee_imports + callee_locals
    L.append("    y = y + " + " + ".join(terms))
    L += ["  end subroutine sub", "end module %s" % wm]
    driver = "\n".join(["program cdrv%d" % idx, "  use %s, only: caller" % wm, "  implicit none", "  real :: x",
                        "  x = 1.5", "  call caller(x)", "  write(*, '(F10.2)') x", "end program cdrv%d" % idx]) + "\n"
    return "\n".join(data) + "\n", "\n".join(L) + "\n", driver, wm


def gen_scope_program(rng, idx):
    """Source of a routine with CodeBlocks at routine level and inside a loop body.  The inner-scope
    symbols are added afterwards through the API (add_inner_symbols)."""
    names = rng.sample(POOL, 3)
    L = ["module csc%d" % idx, "  implicit none", "contains", "  subroutine sub(a)", "    real, intent(inout) :: a(10)",
         "    integer :: i"]
    for nm in names:
        L.append("    real :: %s" % spell(rng, nm))
    for k, nm in enumerate(names):
        L.append("    %s = %d.0" % (nm, k + 1))
    L += ["    do i = 1, 10", "      a(i) = a(i) + %s" % names[0]]
    if rng.random() < 0.6:
        L.append("      write(*, *) %s" % spell(rng, rng.choice(names)))
    L += ["      if (a(i) > 0.0) then", "        a(i) = a(i) - 1.0"]
    if rng.random() < 0.4:
        L.append("        print *, %s" % spell(rng, rng.choice(names)))
    L += ["      end if", "    end do"]
    for _ in range(rng.randint(1, 2)):
        L.append(rng.choice(CB_FORMS).format(v=spell(rng, rng.choice(names)), w=spell(rng, rng.choice(names))))
    L += ["  end subroutine sub", "end module csc%d" % idx]
    return "\n".join(L) + "\n", names


def add_inner_symbols(rng, tree, names):
    """Give the loop body (and sometimes the if body) its own symbols whose names clash with the
    routine-scope ones; use them in an assignment of that scope.  Returns the number added."""
    from psyclone.psyir.nodes import Loop, IfBlock, Assignment, Reference, Literal
    from psyclone.psyir.symbols import DataSymbol, REAL_TYPE
    n = 0
    scheds = [lp.loop_body for lp in tree.walk(Loop)] + [ib.if_body for ib in tree.walk(IfBlock)]
    for sched in scheds:
        if rng.random() < 0.25:
            continue
        for nm in rng.sample(names, rng.randint(1, 2)):
            new = spell(rng, nm)
            if new.lower() in sched.symbol_table:
                continue
            sym = DataSymbol(new, REAL_TYPE)
            sched.symbol_table.add(sym)
            sched.addchild(Assignment.create(Reference(sym), Literal("0.5", REAL_TYPE)), 0)
            n += 1
    return n


def resolutions(tree):
    """[(codeblock, name as spelled, symbol object or None)] for every name in every CodeBlock."""
    from psyclone.psyir.nodes import CodeBlock
    out = []
    for cb in tree.walk(CodeBlock):
        for nm in cb.get_symbol_names():
            try:
                sym = cb.scope.symbol_table.lookup(nm)
            except KeyError:
                sym = None
            out.append((cb, nm, sym))
    return out


def describe(sym):
    if sym is None:
        return None
    return {"name": sym.name, "class": type(sym).__name__, "interface": str(sym.interface)}


def captured(before):
    """Evaluate the oracle after the operation.  Returns a list of violations (dicts)."""
    bad = []
    for cb, nm, sym in before:
        if sym is None:
            continue
        try:
            now = cb.scope.symbol_table.lookup(nm)
        except Exception:      # pylint: disable=broad-except
            now = None
        if sym.name.lower() != nm.lower() or now is not sym:
            bad.append({"codeblock": "\n".join(str(a) for a in cb.get_ast_nodes), "name_in_codeblock": nm,
                        "resolved_before": describe(sym) | {"name_then": nm}, "entity_now_called": sym.name,
                        "name_now_resolves_to": describe(now)})
    return bad


def scope_case(rout, gen, core):
    """Coq encoding ((outer, routine symbols, [(CodeBlock names, inner symbols)])) of a routine's scopes
    as routine_node's merge sees them (before writing)."""
    from psyclone.psyir.nodes import Schedule, CodeBlock
    from psyclone.psyir.symbols import RoutineSymbol
    scheds = rout.walk(Schedule)
    tables, cbs, allsyms = [], [], []
    for sc in scheds:
        tab = sc.symbol_table
        try:
            own = tab.lookup_with_tag("own_routine_symbol")
        except KeyError:
            own = None
        syms = [s for s in tab.symbols if not (s is own and isinstance(s, RoutineSymbol))]
        tables.append(syms)
        allsyms += syms
        cbs.append(sorted({n.lower() for cb in sc.walk(CodeBlock) for n in cb.get_symbol_names()}))
    idof = {id(s): i for i, s in enumerate(allsyms)}
    outer = []
    node = rout.parent
    while node is not None:
        if hasattr(node, "symbol_table"):
            outer += [s.name.lower() for s in node.symbol_table.symbols]
        node = node.parent
    inners = ["(%s, %s)" % (core.coq_list(core.coq_str(x) for x in cb), gen.coq_table(t, idof))
              for cb, t in zip(cbs[1:], tables[1:])]
    return "(%s, %s, %s)" % (core.coq_list(core.coq_str(x) for x in outer), gen.coq_table(tables[0], idof),
                             core.coq_list(inners))


def merged_names(rout):
    """Names of the routine's (merged) table in order, without the routine's own symbol."""
    from psyclone.psyir.symbols import RoutineSymbol
    tab = rout.symbol_table
    try:
        own = tab.lookup_with_tag("own_routine_symbol")
    except KeyError:
        own = None
    return [s.name for s in tab.symbols if not (s is own and isinstance(s, RoutineSymbol))]


def build_and_run(core, workdir, tag, sources):
    """gfortran -fimplicit-none + run.  Returns (status, stdout)."""
    d = workdir / tag
    d.mkdir(parents=True, exist_ok=True)
    names = []
    for k, src in enumerate(sources):
        (d / ("f%d.f90" % k)).write_text(src)
        names.append("f%d.f90" % k)
    rc, out = core.sh(["gfortran", "-fimplicit-none", "-o", "a.out"] + names, cwd=str(d), timeout=120)
    if rc != 0:
        return "compile-error", out[-400:]
    rc, out = core.sh(["./a.out"], cwd=str(d), timeout=20)
    return ("ok" if rc == 0 else "run-error"), out
