module data_mod
  implicit none
  real :: tmp = 100.0
end module data_mod
module work_mod
  implicit none
contains
  subroutine caller(x)
    real, intent(inout) :: x
    real :: TMP
    TMP = 2.0 * x
    call sub(x)
    WRITE(*, '(F8.2)') TMP
  end subroutine caller
  subroutine sub(y)
    use data_mod, only: tmp
    real, intent(inout) :: y
    y = y + tmp
  end subroutine sub
end module work_mod
