"""C04 -- Generated code declares every entity it uses, in a valid order.

Model: coq/C03/Decls.v (shared with C03) + spec decl_valid; theorems: coq/Properties/C04.v.
Observation point: gfortran -fimplicit-none -fsyntax-only on what FortranWriter writes.
Streams:
  spec   : hand-built declaration orders (valid and scrambled) of generated tables: decl_valid (model)
           must agree with gfortran (validates the spec);
  tables : generated symbol tables in random insertion order -> real gen_decls -> gfortran; the model
           must predict the order and the compiler's verdict; a rejected order = concrete failing input;
  progs  : generated self-contained modules x random accepted transformation histories -> writer ->
           gfortran (baseline: the untransformed text compiles);
  files  : test-suite / example files that compile on their own: read -> write -> must still compile;
  corpus : minimised witnesses of the known findings (props/C04/corpus);
  psy    : (thorough) LFRic PSy-layer generation compiled against the bundled infrastructure.
"""
import os
import re
import shutil
import sys
from pathlib import Path

from vlib import core

HERE = Path(__file__).resolve().parent
sys.path.insert(0, str(HERE))
sys.path.insert(0, str(HERE.parent / "C03"))
import gen      # noqa: E402  pylint: disable=wrong-import-position
import rt       # noqa: E402  pylint: disable=wrong-import-position
import progs    # noqa: E402  pylint: disable=wrong-import-position
import capture  # noqa: E402  pylint: disable=wrong-import-position

HEADER = """From Coq Require Import String.
From PV Require Import C03.Names C03.Decls C04.CodeBlocks.
Open Scope string_scope. Open Scope list_scope.
Inductive case :=
| CV (c : list sym * bool)                                   (* hand-built order, gfortran accepts *)
| CG (c : list sym * option (list nat) * list sym * bool)    (* table, observed order, table with lenient refs, gfortran accepts *)
| CW (c : (list string * list sym * list (list sym)) * option (list string))   (* nested scopes, declared names of the written routine *)
| CB (c : (list string * list sym * list (list string * list sym)) * option (list string)).  (* scopes with CodeBlock names, merged table *)
Definition by_order (t : list sym) (o : list nat) : list sym :=
  flat_map (fun n => filter (fun d => Nat.eqb (s_id d) n) t) o.
Definition agrees (c : case) : bool :=
  match c with
  | CV x => agrees_valid x
  | CG (t, obs, tl, acc) =>
      agrees_decls (t, obs) &&
      match obs with Some o => Bool.eqb (decl_valid (by_order tl o)) acc | None => true end
  | CW ((o, r, i), obs) => match write_decls o r i, obs with
                           | Some l, Some n => list_str_eqb (map s_name l) n
                           | None, None => true
                           | _, _ => false
                           end
  | CB x => agrees_flatten_cb x
  end."""

PRELUDE = "module extmod\n  implicit none\n" + "".join("  integer, parameter :: s%d = 4\n" % i for i in range(12)) + "end module extmod\n"

WHAT = {
    "gen_decls/const-before-var/inquiry": "a parameter whose initial value inquires about a variable (kind(v), size(v)) is declared "
                                  "before the variable (gen_decls writes all parameters first)",
    "gen_decls/const-before-arg/inquiry": "a parameter whose initial value inquires about a dummy argument is declared before it",
    "gen_decls/const-before-const/bound": "_gen_parameter_decls ignores array bounds when ordering parameters: "
                                          "a parameter is declared before the parameter its bound uses",
    "gen_decls/const-before-const/inquiry": "_gen_parameter_decls ignores the argument of inquiry intrinsics when ordering "
                                            "parameters: a parameter is declared before the parameter it inquires about",
    "gen_decls/arg-before-type/type": "a dummy argument of a derived type defined in the same routine is declared before the type "
                                 "(arguments are section 3, derived types section 4)",
    "gen_decls/interface-before-type/import": "an (abstract) interface block whose body imports a derived type of the same scope is "
                                              "written (section 1) before the type definition (section 4)",
    "gen_decls/const-before-type/type": "a parameter of a derived type defined in the same scope is declared before the type",
    "reader/derived-type-bound-becomes-component": "reading 'type t; real :: c(n); end type' with n a parameter of the same scope "
                                                   "adds a bogus component 'integer :: n' to the type (derived types are processed "
                                                   "before the other declarations); the written type does not compile",
}


# ------------------------------------------------------------------ text-level classification
def unit_of(lines, idx):
    """[start, end) of the program unit (subroutine/function/module spec part) containing line idx."""
    a = idx
    while a > 0 and not re.match(r"\s*(subroutine|module(?!\s+procedure)|program|function|\w.*\bfunction)\s+\w+", lines[a], re.I):
        a -= 1
    b = idx
    while b < len(lines) - 1 and not re.match(r"\s*(contains\b|end\s+(subroutine|module|program|function))", lines[b], re.I):
        b += 1
    return a, b


def line_cat(lines, idx):
    ln = lines[idx]
    # inside a derived-type definition?
    k = idx - 1
    while k >= 0:
        s = lines[k].strip().lower()
        if s.startswith("end type"):
            break
        if re.match(r"type\s*(,|::|\s+\w)", s) and not s.startswith("type("):
            return "type"
        if re.match(r"(subroutine|module|contains|program)", s):
            break
        k -= 1
    attrs = ln.split("::")[0].lower()
    if ln.strip().lower().startswith("import"):
        return "interface"
    if re.match(r"\s*type\s*(,[^:()]*)?::", ln, re.I) or re.match(r"\s*type\s+\w+\s*$", ln, re.I):
        return "type"
    if "parameter" in attrs:
        return "const"
    if "intent(" in attrs:
        return "arg"
    return "var"


def text_relation(line, name):
    """How a declaration line uses a name: inquiry / bound / type / kind / literal-kind / value."""
    n = re.escape(name)
    if line.strip().lower().startswith("import"):
        return "import"
    if re.search(r"\b(kind|size|lbound|ubound|shape|bit_size|len|huge|tiny|epsilon|precision|range|digits)\s*\(\s*%s\b" % n, line, re.I):
        return "inquiry"
    if re.search(r"\btype\s*\(\s*%s\s*\)" % n, line, re.I):
        return "type"
    if re.search(r"\bkind\s*=\s*%s\b" % n, line, re.I):
        return "kind"
    if re.search(r"_%s\b" % n, line, re.I) and re.search(r"[0-9.]_%s\b" % n, line, re.I):
        return "literal-kind"
    if re.search(r"dimension\s*\([^)]*\b%s\b" % n, line.split("::")[0], re.I) or re.search(r"::\s*\w+\s*\([^)]*\b%s\b" % n, line, re.I):
        return "bound"
    return "value"


def classify_compile(text, errs, origin):
    """Key of a compile failure of written code: gen_decls/<user>-before-<used>, undeclared/<origin>,
    duplicate/<origin>, or other."""
    lines = text.split("\n")
    keys = []
    for ln, msg in errs:
        cls = progs.classify_error(msg)
        m = re.search(r"['‘]([A-Za-z_]\w*)['’]", msg)
        name = m.group(1).lower() if m else None
        if ln is None or ln - 1 >= len(lines):
            keys.append("compile/" + cls)
            continue
        i = ln - 1
        a, b = unit_of(lines, i)
        if cls in ("undeclared", "misordered") and name:
            tok = re.compile(r"(?<![\w%%])%s\b" % re.escape(name), re.I)
            decl = None
            for k in range(a, b + 1):
                low = lines[k].strip().lower()
                if low.startswith(("public", "private", "use ", "import")):
                    continue
                if re.search(r"::\s*%s\b" % re.escape(name), lines[k], re.I) or \
                        re.match(r"\s*type\s*(,[^:()]*)?::\s*%s\b" % re.escape(name), lines[k], re.I):
                    decl = k
                    break
            wide = False
            if decl is None and tok.search(lines[i]):
                # e.g. an interface body: the entity may be declared later in the enclosing unit
                for k in range(i + 1, len(lines)):
                    if re.match(r"\s*(contains\b|end\s+module)", lines[k], re.I):
                        break
                    if re.search(r"::\s*%s\b" % re.escape(name), lines[k], re.I) and \
                            not lines[k].strip().lower().startswith(("public", "private", "import")):
                        decl, wide = k, True
                        break
            if decl is not None and wide:
                keys.append("gen_decls/%s-before-%s/%s" % (line_cat(lines, i), line_cat(lines, decl), text_relation(lines[i], name)))
                continue
            if decl is not None:
                user = None
                for k in range(a + 1, decl):
                    if "::" in lines[k] and tok.search(lines[k]) and not lines[k].strip().lower().startswith(("public", "private")):
                        user = k
                        break
                if user is not None:
                    keys.append("gen_decls/%s-before-%s/%s" % (line_cat(lines, user), line_cat(lines, decl),
                                                               text_relation(lines[user], name)))
                else:
                    keys.append("compile/undeclared-but-declared-earlier" if decl < i else "compile/" + cls)
                continue
            if cls == "undeclared":
                keys.append("undeclared/" + origin)
                continue
        if cls == "duplicate":
            keys.append("duplicate/" + origin)
            continue
        if line_cat(lines, i) == "type" and name and any(
                re.match(r"\s*integer.*::\s*%s\s*$" % re.escape(name), lines[k], re.I) for k in range(max(a, i - 6), i)):
            keys.append("reader/derived-type-bound-becomes-component")
            continue
        keys.append("compile/" + cls)
    # the first declaration-related key decides; 'compile/other' only when nothing else
    for k in keys:
        if not k.startswith("compile/"):
            return k
    return keys[0] if keys else "compile/unknown"


def is_decl_key(key):
    return key.split("/")[0] in ("gen_decls", "undeclared", "duplicate", "reader") or key in (
        "compile/undeclared", "compile/misordered", "compile/duplicate", "compile/undeclared-but-declared-earlier")


# ------------------------------------------------------------------------------ table streams
def decl_lines(writer, sym):
    from psyclone.psyir.symbols import DataTypeSymbol
    if isinstance(sym, DataTypeSymbol):
        return writer.gen_typedecl(sym, include_visibility=False)
    return writer.gen_vardecl(sym)


def wrap(table, decls, name):
    args = [s.name for s in table.argument_list]
    imports = [s.name for s in table.symbols if s.is_import]
    txt = "subroutine %s(%s)\n" % (name, ", ".join(args))
    if imports:
        txt += "  use extmod, only : %s\n" % ", ".join(imports)
    return txt + decls + "end subroutine %s\n" % name


def topo_order(syms):
    """A valid order (declared symbols only) w.r.t. every mention."""
    decl = [s for s in syms if gen.sym_cat(s) != "CSkip"]
    ids = {id(s) for s in decl}
    done, out = set(), []
    while len(out) < len(decl):
        progress = False
        for s in decl:
            if id(s) in done:
                continue
            _, refs = gen.sym_deps_refs(s)
            if all(id(r) in done or id(r) not in ids or r is s for r in refs):
                out.append(s)
                done.add(id(s))
                progress = True
        if not progress:
            return None
    return out


def first_offence(spec_by_name, order_names, syms_by_name):
    """(user, used, relation) of the first use-before-declaration in a written order (strict)."""
    seen = set()
    declared = set(order_names)
    for nm in order_names:
        e = spec_by_name[nm]
        rel = [("value", e["deps"]), ("kind", [e["kind"]] if e["kind"] else []), ("literal-kind", [e["litkind"]] if e["litkind"] else []),
               ("bound", e["shape"]), ("inquiry", e["inq"]), ("type", [e["typ"]] if e["typ"] else [])]
        for r, targets in rel:
            for t in targets:
                if t in declared and t not in seen and t != nm:
                    if r == "bound" and spec_by_name[t]["cat"] == "arg" and e["cat"] in ("var", "arg"):
                        continue        # tolerated by gfortran
                    return nm, t, r
        seen.add(nm)
    return None


def run(ctx):
    ctx.cov["rule"] = (
        "spec: generated tables (2-9 symbols; parameters, kind parameters, literal kinds, array bounds, inquiry arguments, "
        "derived types, arguments, imports) written in a valid or a scrambled order, decl_valid vs gfortran; tables: the same "
        "tables in random insertion order through the real gen_decls, order vs model and verdict vs gfortran; progs: generated "
        "modules x 1-4 random transformations (chunk, tile, hoist bounds, array assignment to loops, reference to range, inline, "
        "OMP/ACC) accepted by validate, written and compiled; files: test/example files that compile on their own, re-written; "
        "non-trivial = the antecedent held (a valid arrangement exists and gen_decls succeeded / a transformation was accepted "
        "/ the original compiles); distinct = distinct written text")
    ctx.cov["trusted_base"] = core.BASE_TRUST + [
        "gfortran 12 (-fimplicit-none -fsyntax-only) is the acceptance oracle (stated observation point of the property); it "
        "tolerates a dummy argument used as an array bound before its own declaration, which the encoder mirrors",
        "model coq/C03/Decls.v hand-written; tied to FortranWriter.gen_decls by the tables stream; decl_valid tied to gfortran by the spec stream",
        "encoder props/C03/gen.py and the text classifier of compile errors in this file are trusted glue"]
    ctx.assumptions = ["symbols of one scope have pairwise different identities (NoDup (ids t))",
                       "C04_decls_ordered_partial: the table satisfies `safe` (Valid.v)",
                       "gfortran accepts exactly the declaration orders decl_valid accepts (checked on the spec stream)"]
    ok, rep = ctx.prove()
    ctx.log("proof ok=%s discharged=%d/%d" % (ok, ctx.cov["discharged"], ctx.cov["obligations"]))
    rng = ctx.rng("gen")
    from psyclone.psyir.backend.fortran import FortranWriter
    from psyclone.psyir.backend.visitor import VisitorError
    writer = FortranWriter()
    fails = 0

    def report(key, what, replay):
        nonlocal fails
        fails += 1
        ctx.hist("failing", key)
        ctx.finding(key, WHAT.get(key, what), dict(replay, property="C04"))

    # ------------------------------------------------------------------ spec + tables streams
    units, meta, cases = [], [], []
    nt = ctx.pick(100, 2000)
    def ent(name, cat, **kw):
        e = dict(name=name, cat=cat, deps=[], kind=None, litkind=None, shape=[], inq=[], typ=None)
        e.update(kw)
        return e
    # witnesses of the API-only findings, replayed on every run (Coq: C04_decls_ordered_refuted_shape)
    fixed = [[ent("s0", "const", deps=["s2"]), ent("s1", "const", shape=["s0"]), ent("s2", "const")],
             [ent("s0", "const", deps=["s2"]), ent("s1", "const", inq=["s0"]), ent("s2", "const")]]
    for i in range(nt + len(fixed)):
        spec = fixed[i] if i < len(fixed) else gen.gen_table_spec(rng, cyc=0.0, compilable=True)
        table, _ = gen.build_table(spec, compilable=True)
        syms = table.symbols
        by = {e["name"]: e for e in spec}
        byname = {s.name: s for s in syms}
        idof = {id(s): k for k, s in enumerate(syms)}
        valid = topo_order(syms)
        if valid is None:
            ctx.hist("spec", "not-arrangeable")
            continue
        # (a) hand-built order
        order = valid[:]
        scrambled = rng.random() < 0.5
        if scrambled:
            rng.shuffle(order)
        try:
            txt = "".join(decl_lines(writer, s) for s in order)
        except Exception as e:      # pylint: disable=broad-except
            ctx.hist("spec", "unwritable:" + type(e).__name__)
            continue
        units.append(wrap(table, txt, "v%d" % i))
        meta.append(("spec", i, spec, [s.name for s in order], None))
        cases.append(gen.coq_table(order, idof, lenient=True))
        # (b) the real gen_decls
        try:
            gtxt = writer.gen_decls(table)
            names = gen.declared_names(gtxt)
            units.append(wrap(table, gtxt, "g%d" % i))
            meta.append(("table", i, spec, names, gtxt))
            cases.append((gen.coq_table(syms), "Some " + core.coq_list(str(idof[id(byname[n])]) for n in names),
                          gen.coq_table(syms, lenient=True)))
        except VisitorError as e:
            ctx.hist("gen_decls", "VisitorError")
            # a valid arrangement exists, so the writer must not fail
            report("gen_decls/refuses-arrangeable-table", "gen_decls raises although a valid order exists",
                   {"spec": spec, "error": str(e)})
    res, other = progs.compile_units(ctx.scratch, "tables", PRELUDE, units)
    if other:
        ctx.hist("harness", "errors-outside-units:%d" % len(other))
    coq_cases = []
    for (kind, i, spec, names, gtxt), errs, c, unit in zip(meta, res, cases, units):
        acc = not errs
        by = {e["name"]: e for e in spec}
        if kind == "spec":
            coq_cases.append("CV (%s, %s)" % (c, "true" if acc else "false"))
            ctx.hist("spec_order", "accepted" if acc else "rejected")
            ctx.count(("spec", unit), True)
        else:
            coq_cases.append("CG (%s, %s, %s, %s)" % (c[0], c[1], c[2], "true" if acc else "false"))
            ctx.hist("gen_decls_output", "compiles" if acc else "rejected")
            ctx.count(("table", unit), True)
            if not acc:
                off = first_offence(by, names, None)
                key = classify_compile(unit, errs, "gen_decls")
                if off:
                    key = "gen_decls/%s-before-%s/%s" % (by[off[0]]["cat"], by[off[1]]["cat"], off[2])
                report(key, "gen_decls output rejected by gfortran: " + errs[0][1],
                       {"stream": "tables", "spec": spec, "written": unit, "gfortran": errs[:3],
                        "first_use_before_declaration(user, used, how)": off,
                        "replay": "build the table with props/C03/gen.py build_table(spec, compilable=True); FortranWriter().gen_decls(table); gfortran -fimplicit-none -fsyntax-only"})
    ctx.sample({"table_unit": units[1] if len(units) > 1 else None})
    ctx.log("spec/tables streams: %d units compiled, failing=%d" % (len(units), fails))

    # ------------------------------------------------------------------ nested scopes (merge_no_capture)
    nested_cases, nested_info, nunits, nmeta = [], [], [], []
    for i in range(ctx.pick(25, 400)):
        cont, rout = gen.gen_nested(rng)
        enc = gen.nested_case(cont, rout)
        try:
            w = FortranWriter()(cont)
            names = gen.declared_names(gen.routine_decl_block(w, "sub"))
            obs = "Some " + core.coq_list(core.coq_str(x) for x in names)
        except Exception as e:      # pylint: disable=broad-except
            ctx.hist("nested", "writer:" + type(e).__name__)
            # the model never fails on these inputs (no constant cycles): a writer failure while
            # merging scopes is reported through the correspondence below
            w, names, obs = None, None, "None"
        nested_cases.append("CW (%s, %s)" % (enc, obs))
        nested_info.append({"written": w, "declared": names})
        if w is not None:
            nunits.append(re.sub(r"\bmodule gm\b", "module gm%d" % i, w))
            nmeta.append(names)
    nres, _ = progs.compile_units(ctx.scratch, "nested", "", nunits)
    for w, names, errs in zip(nunits, nmeta, nres):
        renamed = any("_" in n and n.rsplit("_", 1)[1].isdigit() for n in names)
        ctx.hist("nested", "compiles" if not errs else "rejected")
        ctx.count(("nested", w), renamed)
        if errs:
            key = classify_compile(w, errs, "scope-merge")
            if is_decl_key(key):
                report(key, "routine with merged inner scopes does not compile: " + errs[0][1],
                       {"stream": "nested", "written": w, "gfortran": errs[:3]})
            else:
                ctx.hist("compile_errors_not_about_declarations", "nested|" + key)
    ctx.log("nested scopes done, failing=%d" % fails)

    # ------------------------------------------------------------------ names inside CodeBlocks (no capture)
    from psyclone.psyir.nodes import Call, Routine, IntrinsicCall
    from psyclone.psyir.transformations import InlineTrans, TransformationError
    cb_cases, cb_info = [], []
    run_budget = ctx.pick(0, 25)
    fixed_cap = sorted((HERE / "corpus_capture").glob("*.f90"))
    for i in range(-len(fixed_cap), ctx.pick(60, 400)):
        if i < 0:       # fixed scenarios (seeded change C04-rename-codeblock-guard-case-sensitive), always replayed
            data, work, drv = "", fixed_cap[i].read_text(), None
        else:
            data, work, drv, _wm = capture.gen_inline_program(rng, i)
        try:
            tree = rt.read_text(data + work)
            caller = [r for r in tree.walk(Routine) if r.name == "caller"][0]
            before = capture.resolutions(caller)
            call = [k for k in caller.walk(Call) if not isinstance(k, IntrinsicCall)][0]
        except Exception as e:      # pylint: disable=broad-except
            ctx.hist("capture_inline", "reader:" + type(e).__name__)
            continue
        try:
            InlineTrans().apply(call)
        except TransformationError:
            ctx.hist("capture_inline", "refused")
            ctx.count(("cap-inline", work), False)
            continue
        except Exception as e:      # pylint: disable=broad-except
            ctx.hist("capture_inline", "crashed:" + type(e).__name__)
            continue
        bad = capture.captured(before)
        ctx.hist("capture_inline", "captured" if bad else "accepted-no-capture")
        ctx.count(("cap-inline", work), True)
        written = None
        try:
            written = rt.write(tree)
        except Exception as e:      # pylint: disable=broad-except
            ctx.hist("capture_inline", "writer:" + type(e).__name__)
        if bad:
            report("capture/InlineTrans/codeblock-name", "after inlining, a name inside a CodeBlock no longer denotes the entity it denoted before",
                   {"stream": "capture-inline", "source": data + work, "violations": bad[:3], "written": written,
                    "replay": "read the source, InlineTrans().apply(the call in 'caller'), compare CodeBlock name resolution before/after"})
        elif written and run_budget > 0 and drv:
            # thorough: compile and run original and transformed program, same output required
            run_budget -= 1
            st0, out0 = capture.build_and_run(core, ctx.scratch, "cap%d_o" % i, [data, work, drv])
            st1, out1 = capture.build_and_run(core, ctx.scratch, "cap%d_t" % i, [written, drv])
            ctx.hist("capture_inline_run", "%s/%s/%s" % (st0, st1, "same" if out0 == out1 else "different"))
            if st0 == "ok" and (st1 != "ok" or out0 != out1):
                report("capture/InlineTrans/output-differs", "inlined program compiles/prints differently from the original",
                       {"stream": "capture-inline", "source": data + work, "written": written, "original_output": out0,
                        "transformed": [st1, out1]})
    for i in range(ctx.pick(60, 400)):
        src, names = capture.gen_scope_program(rng, i)
        try:
            tree = rt.read_text(src)
            capture.add_inner_symbols(rng, tree, names)
            cp = tree.copy()
            rout = cp.walk(Routine)[0]
            before = capture.resolutions(cp)
            enc = capture.scope_case(rout, gen, core)
        except Exception as e:      # pylint: disable=broad-except
            ctx.hist("capture_scopes", "setup:" + type(e).__name__)
            continue
        try:
            w = FortranWriter()._visit(cp)      # pylint: disable=protected-access
            obs = "Some " + core.coq_list(core.coq_str(x) for x in capture.merged_names(cp.walk(Routine)[0]))
        except Exception as e:      # pylint: disable=broad-except
            ctx.hist("capture_scopes", "merge-refused:" + type(e).__name__)
            cb_cases.append("CB (%s, None)" % enc)
            cb_info.append({"source": src, "written": None})
            ctx.count(("cap-scope", src, enc), False)
            continue
        cb_cases.append("CB (%s, %s)" % (enc, obs))
        cb_info.append({"source": src, "written": w})
        bad = capture.captured(before)
        renamed = "_1" in obs
        ctx.hist("capture_scopes", "captured" if bad else ("renamed-no-capture" if renamed else "no-clash"))
        ctx.count(("cap-scope", src, enc), renamed)
        if bad:
            report("capture/scope-merge/codeblock-name", "after merging the inner scopes, a name inside a CodeBlock no longer denotes the entity it denoted before",
                   {"stream": "capture-scopes", "source_before_inner_symbols": src, "scopes": enc, "violations": bad[:3], "written": w})
    ctx.log("codeblock capture streams done, failing=%d" % fails)

    # ------------------------------------------------------------------ corpus of witnesses
    for f in sorted((HERE / "corpus").glob("*.f90")):
        src = f.read_text()
        ok0, e0 = progs.gfortran(ctx.scratch, "orig_" + f.stem, src)
        try:
            w1 = rt.write(rt.read_text(src))
        except Exception as e:      # pylint: disable=broad-except
            ctx.hist("corpus", "not-written:" + type(e).__name__)
            continue
        ok1, e1 = progs.gfortran(ctx.scratch, "w1_" + f.stem, w1)
        ctx.count(("corpus", f.name), ok0)
        if ok0 and not ok1:
            key = classify_compile(w1, e1, "reader+writer")
            report(key, "re-written file does not compile: " + e1[0][1], {"stream": "corpus", "file": str(f), "written": w1, "gfortran": e1[:3]})

    # ------------------------------------------------------------------ transformed programs
    npg = ctx.pick(14, 250)
    punits, pmeta, originals = [], [], []
    for i in range(npg):
        src, _mod = progs.gen_program(rng, i)
        try:
            tree = rt.read_text(src)
        except Exception as e:      # pylint: disable=broad-except
            ctx.hist("progs", "reader:" + type(e).__name__)
            continue
        if i < 3 or i % 25 == 0:
            originals.append(src.replace("gp%d" % i, "go%d" % i))
        acc = progs.apply_history(rng, tree, lambda a, b: ctx.hist("trans_" + a, b))
        try:
            w = rt.write(tree)
        except Exception as e:      # pylint: disable=broad-except
            ctx.hist("progs", "writer:" + type(e).__name__ + ":" + str(e)[:40])
            continue
        punits.append(w)
        pmeta.append((src, acc))
        ctx.count(("prog", w), bool(acc))
        ctx.hist("history_len", len(acc))
        if i == 0:
            ctx.sample({"history": acc, "written": w})
    ores, _ = progs.compile_units(ctx.scratch, "progs_orig", "", originals)
    for src, errs in zip(originals, ores):
        if errs:
            ctx.violation({"property": "C04", "what": "harness: generated program does not compile", "src": src,
                           "gfortran": errs[:3]}, no_input=True)
    pres, _ = progs.compile_units(ctx.scratch, "progs", "", punits)
    for w, (src, acc), errs in zip(punits, pmeta, pres):
        ctx.hist("prog_written", "compiles" if not errs else "rejected")
        if errs:
            key = classify_compile(w, errs, "after-" + (acc[-1] if acc else "read"))
            if is_decl_key(key):
                report(key, "transformed program does not compile: " + errs[0][1],
                       {"stream": "progs", "source": src, "history": acc, "written": w, "gfortran": errs[:3]})
            else:
                ctx.hist("compile_errors_not_about_declarations", "%s|%s" % ("+".join(acc), key))
    ctx.log("programs done, failing=%d" % fails)

    # ------------------------------------------------------------------ files
    infra = None
    try:
        files = rt.corpus_files(core.REPO)
        inc = []
        if ctx.thorough:
            infra = build_infra(ctx)
            avail = set()
            if infra:
                inc = infra[1]
                avail = {m.stem.lower() for d in inc for m in Path(d).glob("*.mod")}
            files = [f for f in files if standalone_candidate(f, avail)]
            ctx.notes["files_candidates"] = len(files)
            files = ctx.rng("files").sample(files, min(120, len(files)))
        else:
            files = [f for f in files if standalone_candidate(f)]
            files = ctx.rng("files").sample(files, min(10, len(files)))
        nfile_ok = 0
        for f in files:
            try:
                src = Path(f).read_text(errors="replace")
            except OSError:
                continue
            if len(src) > 60000:
                continue
            ok0, _ = progs.gfortran(ctx.scratch, "f_orig", src, incdirs=inc)
            ctx.hist("file_original", "compiles" if ok0 else "needs-other-modules-or-implicit-typing")
            if not ok0:
                continue
            r = rt.roundtrip(path=str(f), limit=ctx.pick(20, 60))
            if "w1" not in r:
                ctx.hist("file_written", r["status"])
                continue
            nfile_ok += 1
            ok1, e1 = progs.gfortran(ctx.scratch, "f_w1", r["w1"], incdirs=inc)
            ctx.count(("file", str(f)), True)
            ctx.hist("file_written", "compiles" if ok1 else "rejected")
            if not ok1:
                key = classify_compile(r["w1"], e1, "reader+writer")
                rel = str(f).replace(str(core.REPO) + "/", "")
                if is_decl_key(key):
                    report(key, "re-written file does not compile: " + e1[0][1],
                           {"stream": "files", "file": rel, "gfortran": e1[:3], "written_head": r["w1"][:3000]})
                else:
                    ctx.hist("compile_errors_not_about_declarations", "%s|%s" % (rel, key))
        ctx.notes["files_compiled_before_and_rewritten"] = nfile_ok
        ctx.log("files done, failing=%d" % fails)

        # -------------------------------------------------------------- PSy-layer generation (thorough)
        if ctx.thorough and infra:
            try:
                psy_layer(ctx, report, infra)
            except Exception as e:      # pylint: disable=broad-except
                ctx.notes["psy_layer"] = "skipped: %s: %s" % (type(e).__name__, str(e)[:200])
    finally:
        if infra:
            shutil.rmtree(infra[0], ignore_errors=True)

    # ------------------------------------------------------------------ model evaluation
    n_tab = len(coq_cases)
    coq_cases += nested_cases
    n_nest = len(coq_cases)
    coq_cases += cb_cases
    bad = ctx.coq_eval_failing(HEADER, "case", "agrees", coq_cases, shard=ctx.pick(4000, 2500))
    ctx.cov["disagreements_checked"] = len(bad)
    ctx.log("model cases=%d disagreements=%d failing inputs=%d" % (len(coq_cases), len(bad), fails))
    if not ok or bad:
        first = None
        if bad:
            i = bad[0]
            if i < n_tab:
                first = {"relation": "decl_valid = gfortran verdict (CV) / gen_decls order and verdict (CG)",
                         "kind": meta[i][0], "spec": meta[i][2], "order": meta[i][3], "unit": units[i], "gfortran_errors": res[i][:3]}
            elif i < n_nest:
                first = {"relation": "write_decls (scope merge + order) = declared names of the routine written by routine_node",
                         "case": coq_cases[i], "impl": nested_info[i - n_tab]}
            else:
                first = {"relation": "flatten_cb (scope merge guarded by CodeBlock names) = merged table / refusal of routine_node",
                         "case": coq_cases[i], "impl": cb_info[i - n_nest]}
        ctx.violation({"property": "C04", "broken": "proof obligations of Properties/C04.v" if not ok else "model correspondence",
                       "proof_report": rep if not ok else None, "first_differing_case": first, "n_differing": len(bad)},
                      no_input=True)


INTRINSIC_MODULES = {"iso_c_binding", "iso_fortran_env", "omp_lib", "openacc", "ieee_arithmetic"}


def standalone_candidate(path, available=()):
    """Cheap text filter: every module the file uses is defined in the file itself, intrinsic, or
    among the available pre-built modules."""
    try:
        s = Path(path).read_text(errors="replace").lower()
    except OSError:
        return False
    used = set(re.findall(r"^\s*use\s*(?:,\s*intrinsic\s*)?(?:::)?\s*(\w+)", s, re.M))
    defined = set(re.findall(r"^\s*module\s+(\w+)", s, re.M)) - {"procedure"}
    return not (used - defined - INTRINSIC_MODULES - set(available))


def build_infra(ctx):
    """Build the bundled LFRic infrastructure in a scratch directory outside /repo and /verif.
    Returns (workdir, include dirs) or None."""
    base = core.REPO / "src/psyclone/tests/test_files/dynamo0p3"
    work = Path("/var/tmp/C04-infra-%d" % os.getpid())
    shutil.rmtree(work, ignore_errors=True)
    shutil.copytree(base / "infrastructure", work / "infrastructure")
    rc, out = core.sh("make F90=gfortran", cwd=str(work / "infrastructure"), timeout=900)
    if rc != 0:
        ctx.notes["infrastructure"] = "build failed: " + out[-300:]
        shutil.rmtree(work, ignore_errors=True)
        return None
    inc = sorted({str(p.parent) for p in (work / "infrastructure").rglob("*.mod")})
    ctx.notes["infrastructure"] = "built, %d module directories" % len(inc)
    return work, inc


def psy_layer(ctx, report, infra):
    """LFRic PSy layers for a few test invokes, compiled against the bundled infrastructure."""
    from psyclone.parse.algorithm import parse
    from psyclone.psyGen import PSyFactory
    base = core.REPO / "src/psyclone/tests/test_files/dynamo0p3"
    work, inc = infra
    algs = ["1_single_invoke.f90", "1.2_multi_invoke.f90", "4_multikernel_invokes.f90", "15.1.1_X_plus_Y_builtin.f90",
            "19.1_single_stencil.f90", "10_operator.f90", "1.5.1_single_invoke_write_multi_fs.f90", "3_multi_invokes.f90",
            "1.0.1_single_named_invoke.f90", "15.7.2_setval_X_builtin.f90", "16.2_integer_scalar_sum.f90"]
    n = 0
    for alg in algs:
        if not (base / alg).exists():
            continue
        for dm in (False, True):
            try:
                _, info = parse(str(base / alg), api="dynamo0.3")
                psy = PSyFactory("dynamo0.3", distributed_memory=dm).create(info)
                code = str(psy.gen)
            except Exception as e:      # pylint: disable=broad-except
                ctx.hist("psy_layer", "generation:" + type(e).__name__)
                continue
            for km in sorted(set(re.findall(r"use\s+(\w+_mod)\b", code, re.I))):
                for ext in (".F90", ".f90"):
                    kf = base / (km + ext)
                    if kf.exists() and not (work / (km.lower() + ".mod")).exists():
                        core.sh(["gfortran", "-c", "-J", str(work), "-o", str(work / (km + ".o"))] +
                                [x for d in inc for x in ("-I", d)] + [str(kf)], cwd=str(work), timeout=120)
            okc, errs = progs.gfortran(work, "psy_%d" % n, code, incdirs=inc + [str(work)])
            n += 1
            ctx.count(("psy", alg, dm), True)
            ctx.hist("psy_layer", "compiles" if okc else "rejected")
            if not okc:
                key = classify_compile(code, errs, "psy-layer")
                if is_decl_key(key):
                    report(key, "generated PSy layer does not compile: " + errs[0][1],
                           {"stream": "psy", "algorithm": alg, "dm": dm, "gfortran": errs[:3]})
                else:
                    ctx.hist("compile_errors_not_about_declarations", "%s|%s" % (alg, key))
    ctx.notes["psy_layer"] = "%d PSy layers compiled" % n
