subroutine const_before_arg(n, x)
  implicit none
  integer, intent(in) :: n
  real, intent(inout) :: x
  integer, parameter :: kn = kind(n)
  x = x + kn
end subroutine const_before_arg
