module const_before_var
  implicit none
  integer :: aa
  integer :: bb
  integer, parameter :: kb = kind(bb)
end module const_before_var
