module type_bound_component
  implicit none
  integer, parameter :: n = 3
  type :: tt
    real :: c(n)
  end type tt
  type(tt) :: v
end module type_bound_component
