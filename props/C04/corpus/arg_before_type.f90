subroutine arg_before_type(x)
  implicit none
  type :: tt
    sequence
    integer :: f
  end type tt
  type(tt), intent(inout) :: x
  x%f = 1
end subroutine arg_before_type
