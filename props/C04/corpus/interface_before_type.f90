module interface_before_type
  implicit none
  type, abstract :: shape_type
    integer :: n
  contains
    procedure(area_if), deferred :: area
  end type shape_type
  abstract interface
    function area_if(self) result(a)
      import :: shape_type
      class(shape_type), intent(in) :: self
      real :: a
    end function area_if
  end interface
end module interface_before_type
