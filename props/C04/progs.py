"""C04 -- generated programs and random accepted transformation histories (symbols get added:
loop variables, chunk/tile bounds, hoisted bounds, inlined locals), and the gfortran oracle."""
import re
import subprocess

from vlib import core

GF = ["gfortran", "-fimplicit-none", "-fsyntax-only", "-fmax-errors=0", "-fopenmp", "-fopenacc", "-ffree-line-length-none"]


def gen_program(rng, idx):
    """A self-contained module (compiles on its own).  Returns (text, module name)."""
    mod = "gp%d" % idx
    L = ["module %s" % mod, "  implicit none", "  integer, parameter :: wp = kind(1.0d0)",
         "  integer, parameter :: nmax = 8", "  real(kind=wp) :: modacc",
         "  interface fgen", "    module procedure f_real, f_int", "  end interface fgen"]
    for nm in rng.sample(["i_1", "tmp_1", "t_1", "idx", "loop_stop", "i_out_var", "ji_el_inner", "n_1"], rng.randint(0, 3)):
        L.append("  integer :: %s" % nm)        # module names that look like the names PSyclone would invent
    L += ["contains",
          "  subroutine helper(x, n, s)",
          "    integer, intent(in) :: n",
          "    real(kind=wp), intent(inout) :: x(n)",
          "    real(kind=wp), intent(in) :: s",
          "    integer :: i, tmp",
          "    real(kind=wp) :: t",
          "    integer, parameter :: two = 2",
          "    t = s * two",
          "    tmp = n / two",
          "    do i = 1, n",
          "      x(i) = x(i) + t + tmp",
          "    end do",
          "  end subroutine helper",
          "  function f_real(x) result(r)",
          "    real(kind=wp), intent(in) :: x",
          "    real(kind=wp) :: r",
          "    r = x + 1.0_wp",
          "  end function f_real",
          "  function f_int(k) result(r)",
          "    integer, intent(in) :: k",
          "    real(kind=wp) :: r",
          "    r = k * 2.0_wp",
          "  end function f_int",
          "  subroutine work(a, b, c, n, m)",
          "    integer, intent(in) :: n, m",
          "    real(kind=wp), intent(inout) :: a(n), b(n), c(n, m)",
          "    integer :: i, j, tmp"]
    for nm in rng.sample(["i_1", "idx", "idx_1", "loop_start", "loop_stop", "i_out_var", "j_out_var", "tmp_1", "t_1"], rng.randint(0, 3)):
        L.append("    integer :: %s" % nm)
    L += ["    real(kind=wp) :: t", "    t = 1.0_wp", "    tmp = n / 2", "    t = fgen(t) + fgen(tmp)"]
    stmts = [
        ["    do i = 1, n", "      a(i) = b(i) + t", "    end do"],
        ["    do j = 1, m", "      do i = 1, n", "        c(i, j) = c(i, j) * 2.0_wp + a(i)", "      end do", "    end do"],
        ["    a(:) = b(:) + 1.0_wp"],
        ["    c(:, :) = 0.0_wp"],
        ["    a = b"],
        ["    do i = 1, n + m - tmp", "      t = t + 1.0_wp", "    end do"],
        ["    do i = lbound(a, 1), ubound(a, 1)", "      a(i) = a(i) * t", "    end do"],
        ["    call helper(a, n, t)"],
        ["    call helper(b, n, 2.0_wp)"],
        ["    do i = 1, n, 2", "      b(i) = a(i) - t", "    end do"],
        ["    if (tmp > 1) then", "      do i = 1, tmp", "        b(i) = 0.0_wp", "      end do", "    end if"],
        ["    c(:, 1) = a(:) + b(:)"],
    ]
    for st in rng.sample(stmts, rng.randint(3, 7)):
        L += st
    L += ["  end subroutine work", "end module %s" % mod]
    return "\n".join(L) + "\n", mod


def transformations():
    from psyclone.psyir import transformations as T
    from psyclone import transformations as T2
    out = {}
    for name in ["ChunkLoopTrans", "LoopTiling2DTrans", "HoistLoopBoundExprTrans", "ArrayAssignment2LoopsTrans",
                 "Reference2ArrayRangeTrans", "InlineTrans", "LoopSwapTrans", "HoistLocalArraysTrans",
                 "OMPLoopTrans", "OMPTargetTrans", "ACCKernelsTrans"]:
        if hasattr(T, name):
            out[name] = getattr(T, name)
    for name in ["OMPParallelLoopTrans", "OMPParallelTrans", "ACCLoopTrans", "ACCParallelTrans", "OMPLoopTrans",
                 "ACCKernelsTrans", "ACCEnterDataTrans"]:
        if name not in out and hasattr(T2, name):
            out[name] = getattr(T2, name)
    return out


def apply_history(rng, tree, hist_cb):
    """Apply 1-4 random transformations to random applicable nodes of routine 'work'.  Returns the
    list of accepted (name, target description)."""
    from psyclone.psyir.nodes import Loop, Assignment, Call, Reference, Routine, IntrinsicCall, ArrayReference
    from psyclone.psyir.transformations import TransformationError
    from psyclone.psyir.symbols import ArrayType
    tr = transformations()
    work = [r for r in tree.walk(Routine) if r.name == "work"][0]
    accepted = []
    for _ in range(rng.randint(1, 4)):
        adders = [n for n in ("ChunkLoopTrans", "LoopTiling2DTrans", "HoistLoopBoundExprTrans", "ArrayAssignment2LoopsTrans",
                              "Reference2ArrayRangeTrans", "InlineTrans") if n in tr]
        name = rng.choice(adders) if rng.random() < 0.7 else rng.choice(sorted(tr))
        loops = work.walk(Loop)
        target = None
        opts = {}
        if name in ("ChunkLoopTrans", "HoistLoopBoundExprTrans", "LoopSwapTrans", "OMPLoopTrans", "OMPParallelLoopTrans",
                    "ACCLoopTrans", "OMPTargetTrans", "LoopTiling2DTrans"):
            if not loops:
                continue
            target = rng.choice(loops)
            if name in ("LoopTiling2DTrans", "LoopSwapTrans"):
                outer = [lp for lp in loops if lp.loop_body.children and isinstance(lp.loop_body.children[0], Loop)]
                if outer:
                    target = rng.choice(outer)
            if name == "ChunkLoopTrans":
                opts = {"chunksize": rng.choice([2, 4, 8])}
            if name == "LoopTiling2DTrans":
                opts = {"tilesize": rng.choice([2, 4])}
        elif name in ("ArrayAssignment2LoopsTrans",):
            c = [a for a in work.walk(Assignment)]
            if not c:
                continue
            target = rng.choice(c)
        elif name == "Reference2ArrayRangeTrans":
            c = [r for r in work.walk(Reference) if type(r) is Reference and isinstance(r.symbol.datatype, ArrayType)]
            if not c:
                continue
            target = rng.choice(c)
        elif name == "InlineTrans":
            c = [k for k in work.walk(Call) if not isinstance(k, IntrinsicCall)]
            if not c:
                continue
            target = rng.choice(c)
        elif name in ("OMPParallelTrans", "ACCParallelTrans", "ACCKernelsTrans"):
            if not loops:
                continue
            lp = rng.choice(loops)
            target = [lp]
        elif name == "HoistLocalArraysTrans":
            target = work
        elif name == "ACCEnterDataTrans":
            target = work
        else:
            continue
        try:
            tr[name]().apply(target, opts) if opts else tr[name]().apply(target)
            accepted.append(name)
            hist_cb("accepted", name)
        except TransformationError:
            hist_cb("refused", name)
        except Exception as e:      # pylint: disable=broad-except
            hist_cb("crashed", "%s:%s" % (name, type(e).__name__))
    return accepted


ERR_RE = re.compile(r"^(?P<file>[^:\n]+):(?P<line>\d+):(?P<col>\d+):\s*$")


def classify_error(msg):
    m = msg
    if "has no IMPLICIT type" in m:
        return "undeclared"
    if "already has basic type" in m or "Duplicate" in m or "already declared" in m:
        return "duplicate"
    if "used before it is defined" in m or "used before it is typed" in m or "VARIABLE attribute conflicts with PARAMETER" in m \
            or "Missing kind-parameter" in m or "Cannot IMPORT" in m:
        return "misordered"
    m = re.sub(r"'[^']*'|‘[^’]*’", "'_'", m)
    m = re.sub(r"\(\d+\)", "(N)", m)
    return "other:" + m[:60]


def gfortran(scratch, name, text, incdirs=()):
    """Compile one file.  Returns (ok, [(line, message)])."""
    f = scratch / (name + ".f90")
    f.write_text(text)
    cmd = GF + ["-J", str(scratch)] + [x for d in incdirs for x in ("-I", str(d))] + [str(f)]
    rc, out = core.sh(cmd, timeout=120, cwd=str(scratch))
    errs = []
    lines = out.split("\n")
    cur = None
    for ln in lines:
        m = ERR_RE.match(ln)
        if m:
            cur = int(m.group("line"))
        elif ln.startswith("Error:") or ln.startswith("Fatal Error:"):
            errs.append((cur, ln.split(":", 1)[1].strip()))
    if rc != 0 and not errs:
        errs.append((None, out.strip().split("\n")[-1][:200]))
    return rc == 0, errs


def compile_units(scratch, name, prelude, units):
    """Compile many independent program units in one gfortran run.  units = list of texts; returns a
    list (one per unit) of lists of (line within the unit, error message).  prelude is compiled first (shared modules)."""
    text = prelude
    spans = []
    line = text.count("\n") + 1
    for u in units:
        n = u.count("\n") + (0 if u.endswith("\n") else 1)
        spans.append((line, line + n - 1))
        text += u if u.endswith("\n") else u + "\n"
        line += n
    ok, errs = gfortran(scratch, name, text)
    res = [[] for _ in units]
    other = []
    for ln, msg in errs:
        for k, (a, b) in enumerate(spans):
            if ln is not None and a <= ln <= b:
                res[k].append((ln - a + 1, msg))      # line number relative to the unit
                break
        else:
            other.append((ln, msg))
    return res, other
