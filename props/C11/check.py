"""C11 — Variable access information covers every actual read and write.

Model: coq/C11/Access.v (core statements), coq/C11/Ext.v (calls, IntrinsicCall statements, WHILE).
Theorems: coq/Properties/C11.v.  Tie: correspondence (hand-written model).

The harness generates MiniFortran programs (vlib.fortgen) enriched with routine calls (callees with
declared intents, pure and impure), intrinsic subroutines (as parsed: Call nodes; and rebuilt through
IntrinsicCall.create), ALLOCATE/DEALLOCATE (with STAT=), DO WHILE and PRINT (a CodeBlock); feeds the
Fortran text to PSyclone's reader; for EVERY statement node of every program
  (a) compares VariablesAccessInfo(node) (per signature: list of (access type, location); final
      location) with the Coq model by vm_compute  (correspondence), and
  (b) independently evaluates the property itself: the dynamic trace of an interpreter (mirror of
      Fort.Sem / C11.Ext, itself cross-checked against Coq on every run) over several stores must be
      covered by the implementation's report for that node (every read variable reported
      READ/READWRITE, every written one WRITE/READWRITE), and for an assignment the per-variable
      sequence of dynamic accesses must equal the reported sequence (RHS reads before the LHS write).
A concrete failure with a listed reason code is a KNOWN-FINDING, any other one a VIOLATION.
"""
import json

from vlib import core, minifort as mf, fortgen

HEADER = """From Coq Require Import List ZArith Bool. Import ListNotations.
From PV Require Import Fort.Syntax Fort.Sem Base.Harness C11.Access C11.Proofs C11.Ext C11.Struct C11.StructX.
Definition c11_case := (list xstmt * obs * nat * bool)%type.
(* (program, observed per-signature accesses, observed final location, lenient?) *)
Definition c11_check (c : c11_case) : bool :=
  match c with (xs, o, n, _) => xobs_agrees xs o n end.
Definition ev_eqb (a b : event) : bool :=
  match a, b with
  | Rd x, Rd y | Wr x, Wr y => loc_eqb x y
  | Out x, Out y => list_beq Z.eqb x y
  | Enter x, Enter y | Leave x, Leave y => Nat.eqb x y
  | _, _ => false end.
Definition c11_xv := (list xstmt * store * option (list event))%type.
Definition c11_xv_check (c : c11_xv) : bool :=
  match c with
  | (p, s, exp) =>
    match xexec 4000 (fun k => Z.of_nat k) p s, exp with
    | Ok _ tr _, Some tr0 => list_beq ev_eqb tr tr0
    | Fault, None => true
    | _, _ => false
    end
  end.
(* one case type so that all evaluations share the coqc runs *)
Inductive c11_any := AObs (c : c11_case) | AXv (c : c11_xv) | AOk (ss : list stmt) (expect : bool)
  | ASt (tbl : list (list name * name)) (x : sstmt) (o : obs) (n : nat)
  | AFs (tbl : list (list name * name)) (x : fstmt) (o : obs) (n : nat).
Definition c11_any_check (a : c11_any) : bool :=
  match a with
  | AFs tbl x o n => fobs_agrees tbl x o n
  | ASt tbl x o n => sobs_agrees tbl x o n
  | AObs c => c11_check c
  | AXv c => c11_xv_check c
  | AOk ss b => Bool.eqb (accesses_ok ss) b
  end.
"""

# callee table: name -> (pure, [intent per dummy], [is dummy an array])
CALLEES = {
    "sub_io": (False, ["in", "out"]),
    "sub_x": (False, ["inout"]),
    "sub3": (False, ["in", "inout", "out"]),
    "sub_r": (False, ["in", "in"]),
    "psub_in": (True, ["in", "in"]),
    "psub_out": (True, ["in", "out"]),
    # not defined anywhere (external, unresolved RoutineSymbol, is_pure unknown): may do anything with its arguments
    "ext_sub": (False, ["inout", "inout"]),
}
CALLEE_TEXT = """
  subroutine sub_io(x, y)
    integer, intent(in) :: x
    integer, intent(out) :: y
    y = x + 1
  end subroutine sub_io
  subroutine sub_x(x)
    integer, intent(inout) :: x
    x = x * 2
  end subroutine sub_x
  subroutine sub3(x, y, z)
    integer, intent(in) :: x
    integer, intent(inout) :: y
    integer, intent(out) :: z
    z = x + y
    y = y + 1
  end subroutine sub3
  subroutine sub_r(x, y)
    integer, intent(in) :: x, y
    if (x > y) then
      return
    end if
  end subroutine sub_r
  pure subroutine psub_in(x, y)
    integer, intent(in) :: x, y
  end subroutine psub_in
  pure subroutine psub_out(x, y)
    integer, intent(in) :: x
    integer, intent(out) :: y
    y = x
  end subroutine psub_out
"""
# intrinsic subroutines: name -> list of (keyword or None, intent, kind of actual: 'real'|'int')
INTRINSICS = {
    "RANDOM_NUMBER": [(None, "out", "real")],
    "CPU_TIME": [(None, "out", "real")],
    "SYSTEM_CLOCK": [("count", "out", "int")],
    "MVBITS": [(None, "in", "int"), (None, "in", "int"), (None, "in", "int"), (None, "inout", "int"), (None, "in", "int")],
}
INTENT_COQ = {"in": "IIn", "out": "IOut", "inout": "IInOut"}
EXTRA_DECLS = [("w", "integer", []), ("rr", "real", []), ("ra", "real", [(1, 6)])]


# ------------------------------------------------------------------------------------ structure accesses
# ("sref", [(component, [subscript expr..]), ..])   e.g. grid(ii)%cells(jj)%vals(j); signature "grid%cells%vals".
# Harness only (not in the Coq syntax): the interpreter flattens the access to the location
# (signature, all evaluated subscripts) after evaluating (= reading) every subscript of every component.
TYPE_TEXT = """  type :: cell_t
    integer :: vals(6)
    integer :: f
  end type cell_t
  type :: blk_t
    type(cell_t) :: cells(4)
    integer :: x(6)
    integer :: g
  end type blk_t
"""
STRUCT_DECLS = "    type(blk_t) :: grid(3), sg\n    integer :: ii, jj\n"
# shapes: list of (component, number of subscripts)
SREF_SHAPES = [[("grid", 1), ("g", 0)], [("grid", 1), ("x", 1)], [("grid", 1), ("cells", 1), ("vals", 1)],
               [("grid", 1), ("cells", 1), ("f", 0)], [("sg", 0), ("x", 1)], [("sg", 0), ("g", 0)],
               [("sg", 0), ("cells", 1), ("vals", 1)], [("sg", 0), ("cells", 1), ("f", 0)]]


def sref_sig(e):
    return "%".join(c for c, _ in e[1])


def has_sref_e(e):
    k = e[0]
    if k == "sref":
        return True
    if k == "idx" or k == "intr":
        return any(has_sref_e(x) for x in e[2])
    if k == "un":
        return has_sref_e(e[2])
    if k == "bin":
        return has_sref_e(e[2]) or has_sref_e(e[3])
    return False


def has_sref(s):
    k = s[0]
    if k == "sassign":
        return True
    if k == "assign":
        return any(has_sref_e(x) for x in s[2]) or has_sref_e(s[3])
    if k == "if":
        return has_sref_e(s[1]) or any(has_sref(x) for x in s[2] + s[3])
    if k == "do":
        return any(has_sref_e(x) for x in s[2:5]) or any(has_sref(x) for x in s[5])
    if k == "while":
        return has_sref_e(s[1]) or any(has_sref(x) for x in s[2])
    if k == "call":
        return any(has_sref_e(x) for x in s[4])
    if k == "print":
        return any(has_sref_e(x) for x in s[1])
    return False


# the shared helpers recurse through their module-level names, so wrapping them (in this process only; vlib is
# not edited) makes structure accesses work at any depth of an expression
_ev0, _f0, _n0 = mf.ev, mf.expr_to_fortran, mf.expr_names


def _ev(s, e, reads):
    if e[0] == "sref":
        subs = []
        for _, ix in e[1]:
            subs += [mf.ev(s, x, reads) for x in ix]
        loc = (sref_sig(e), tuple(subs))
        reads.append(loc)
        return s.get(loc)
    return _ev0(s, e, reads)


def _f(e):
    if e[0] == "sref":
        return "%".join(c + ("(%s)" % ", ".join(mf.expr_to_fortran(x) for x in ix) if ix else "") for c, ix in e[1])
    return _f0(e)


def _n(e, acc):
    if e[0] == "sref":
        acc.add(sref_sig(e))
        for _, ix in e[1]:
            for x in ix:
                mf.expr_names(x, acc)
        return acc
    return _n0(e, acc)


mf.ev, mf.expr_to_fortran, mf.expr_names = _ev, _f, _n


# ------------------------------------------------------------------------------------ generation
class XGen(fortgen.Gen):
    """fortgen.Gen + extended statements
       ("call", form, name, [intent..], [arg expr..], [keyword|None..])   form: user|pure|intrinsic|iparsed|alloc|dealloc
       ("while", cond, body)   ("print", [e..])"""
    p_ext = 0.0
    p_struct = 0.0

    def sref(self, env):
        r = self.r
        shape = r.choice(SREF_SHAPES)
        comps = []
        for c, nsub in shape:
            ix = []
            for _ in range(nsub):
                c2 = r.random()
                cands = ["ii", "jj"] + list(env)
                if c2 < 0.75:
                    ix.append(("var", r.choice(cands)))
                elif c2 < 0.9:
                    ix.append(("bin", "Add", ("var", r.choice(cands)), ("lit", 1)))
                else:
                    ix.append(("lit", r.randint(1, 3)))
            comps.append((c, ix))
        return ("sref", comps)

    def int_ref(self, env):
        r = self.r
        if r.random() < self.p_struct * 2:
            return self.sref(env)
        if r.random() < 0.55:
            return self.ref(env)
        return ("var", r.choice(["s", "t", "m", "n"]))

    def expr(self, env, depth=0):
        if self.p_struct and self.r.random() < self.p_struct:
            return self.sref(env)
        return fortgen.Gen.expr(self, env, depth)

    def assign(self, env):
        if self.p_struct and self.r.random() < self.p_struct * 1.5:
            return ("sassign", self.sref(env), self.expr(env))
        return fortgen.Gen.assign(self, env)

    def loop(self, env, depth, in_loop):
        lp = fortgen.Gen.loop(self, env, depth, in_loop)
        if self.p_struct and self.r.random() < self.p_struct:
            # a structure element as upper bound (positive step only so that the subscripts stay as generated)
            if lp[4] == ("lit", 1):
                lp = (lp[0], lp[1], ("lit", 1), ("intr", "IMin", [self.sref(env), ("lit", 3)]), lp[4], lp[5])
        return lp

    def call(self, env):
        r = self.r
        c = r.random()
        if c < 0.6:
            name = r.choice(sorted(CALLEES))
            pure, its = CALLEES[name]
            args = []
            for it in its:
                if it == "in" and r.random() < 0.5:
                    args.append(self.expr(env, 1))
                else:
                    args.append(self.int_ref(env))
            return ("call", "pure" if pure else "user", name, list(its), args, [None] * len(its))
        if c < 0.8:
            name = r.choice(sorted(INTRINSICS))
            spec = INTRINSICS[name]
            args = []
            for kw, it, kind in spec:
                if kind == "real":
                    args.append(r.choice([("var", "rr"), ("idx", "ra", [self.subscript(env, 1, 6)])]))
                elif it == "in" and r.random() < 0.4:
                    args.append(("lit", r.randint(0, 3)))
                else:
                    args.append(self.int_ref(env))
            return ("call", r.choice(["intrinsic", "iparsed"]), name, [s[1] for s in spec], args, [s[0] for s in spec])
        arr = r.choice(["al", "al2"])
        if c < 0.92:
            size = self.expr(env, 1) if r.random() < 0.5 else ("var", "n")
            if r.random() < 0.6:
                return ("call", "alloc", "ALLOCATE", ["out", "out"], [("idx", arr, [size]), ("var", r.choice(["s", "t"]))],
                        [None, "stat"])
            return ("call", "alloc", "ALLOCATE", ["out"], [("idx", arr, [size])], [None])
        if r.random() < 0.5:
            return ("call", "dealloc", "DEALLOCATE", ["inout", "out"], [("var", arr), ("var", r.choice(["s", "t"]))], [None, "stat"])
        return ("call", "dealloc", "DEALLOCATE", ["inout"], [("var", arr)], [None])

    def while_(self, env, depth):
        r = self.r
        k = r.choice([("lit", 0), ("lit", 1), ("lit", 2), ("lit", 3), ("var", "n"), ("var", "n")])
        if self.p_struct and r.random() < self.p_struct * 2:
            k = ("intr", "IMin", [self.sref(env), ("lit", 2)])
        body = self.block(env, depth + 1, False, r.randint(1, 2))
        body.append(("assign", "w", [], ("bin", "Add", ("var", "w"), ("lit", 1))))
        return ("while", ("bin", "Lt", ("var", "w"), k), body)

    def stmt(self, env, depth, in_loop):
        r = self.r
        c = r.random()
        if c < self.p_ext:
            c2 = r.random()
            if c2 < 0.7:
                return self.call(env)
            if c2 < 0.85 and depth < self.max_depth:
                return self.while_(env, depth)
            if c2 < 0.95:
                return ("print", [self.expr(env, 1) for _ in range(r.randint(1, 2))])
            return self.call(env)
        return fortgen.Gen.stmt(self, env, depth, in_loop)


CB = ("print", "exit", "cycle")


def fix_adjacent(ss):
    """adjacent unsupported statements are merged into ONE CodeBlock by the reader: drop a PRINT that is
    next to another CodeBlock statement so that tuples and nodes stay paired by position"""
    out = []
    for s in ss:
        k = s[0]
        if k == "if":
            s = ("if", s[1], fix_adjacent(s[2]), fix_adjacent(s[3]))
        elif k == "do":
            s = ("do", s[1], s[2], s[3], s[4], fix_adjacent(s[5]))
        elif k == "while":
            s = ("while", s[1], fix_adjacent(s[2]))
        if out and out[-1][0] in CB and s[0] in CB:
            if s[0] == "print":
                continue
            out.pop()
        out.append(s)
    return out


def struct_vals(rng, vals):
    """initial values of the structure locations (so that bounds/conditions reading them vary) and of ii, jj"""
    import itertools
    for shape in SREF_SHAPES:
        n = sum(k for _, k in shape)
        sig = "%".join(c for c, _ in shape)
        for subs in itertools.product(range(1, 5), repeat=n):
            vals[(sig, subs)] = rng.randint(0, 4)
    vals[("ii", ())] = rng.randint(1, 3)
    vals[("jj", ())] = rng.randint(1, 3)


def is_core(s):
    k = s[0]
    if k in ("call", "while", "print"):
        return k == "print"      # PRINT is core syntax (SPrint)
    if k == "if":
        return all(is_core(x) for x in s[2] + s[3])
    if k == "do":
        return all(is_core(x) for x in s[5])
    if k in ("region", "dir"):
        return all(is_core(x) for x in s[2])
    return True


def expressible(s):
    """can this statement be written as a C11.Ext.xstmt (one level of extension)?"""
    if has_sref(s):
        return False
    if s[0] == "call":
        return True
    if s[0] == "while":
        return all(is_core(x) for x in s[2])
    return is_core(s)


def contains_gap_form(s):
    """does the statement contain a form for which the faithful model is known NOT to cover (Ext.xsafe false)?"""
    k = s[0]
    if k == "print":
        return True
    if k == "call":
        return s[1] == "pure" and any(i != "in" for i in s[3])   # IntrinsicCall statements: fixed in /repo (78e51fb)
    if k == "if":
        return any(contains_gap_form(x) for x in s[2] + s[3])
    if k == "do":
        return any(contains_gap_form(x) for x in s[5])
    if k == "while":
        return any(contains_gap_form(x) for x in s[2])
    if k in ("region", "dir"):
        return any(contains_gap_form(x) for x in s[2])
    return False


# ------------------------------------------------------------------------------------ text / Coq
def xstmts_to_fortran(ss, ind="    "):
    out = []
    for s in ss:
        k = s[0]
        if k == "call":
            _, form, name, its, args, kws = s
            a = [("%s=%s" % (kw, mf.expr_to_fortran(e)) if kw else mf.expr_to_fortran(e)) for e, kw in zip(args, kws)]
            if form == "alloc":
                tgt = "%s(%s)" % (args[0][1], mf.expr_to_fortran(args[0][2][0]))
                out.append("%sallocate(%s)" % (ind, ", ".join([tgt] + a[1:])))
            elif form == "dealloc":
                out.append("%sdeallocate(%s)" % (ind, ", ".join(a)))
            else:
                out.append("%scall %s(%s)" % (ind, name.lower(), ", ".join(a)))
        elif k == "sassign":
            out.append("%s%s = %s" % (ind, mf.expr_to_fortran(s[1]), mf.expr_to_fortran(s[2])))
        elif k == "while":
            out.append("%sdo while (%s)" % (ind, mf.expr_to_fortran(s[1])))
            out += xstmts_to_fortran(s[2], ind + "  ")
            out.append(ind + "end do")
        elif k == "if":
            out.append("%sif (%s) then" % (ind, mf.expr_to_fortran(s[1])))
            out += xstmts_to_fortran(s[2], ind + "  ")
            if s[3]:
                out.append(ind + "else")
                out += xstmts_to_fortran(s[3], ind + "  ")
            out.append(ind + "end if")
        elif k == "do":
            out.append("%sdo %s = %s, %s, %s" % (ind, s[1], mf.expr_to_fortran(s[2]), mf.expr_to_fortran(s[3]),
                                                mf.expr_to_fortran(s[4])))
            out += xstmts_to_fortran(s[5], ind + "  ")
            out.append(ind + "end do")
        else:
            out += mf.stmts_to_fortran([s], ind)
    return out


def routine_text(stmts, decls, name="t"):
    lines = ["  subroutine %s()" % name]
    for v, ty, bs in decls:
        if bs:
            lines.append("    %s, dimension(%s) :: %s" % (ty, ", ".join("%d:%d" % b for b in bs), v))
        else:
            lines.append("    %s :: %s" % (ty, v))
    lines.append("    integer, allocatable :: al(:), al2(:)")
    lines.append(STRUCT_DECLS.rstrip("\n"))
    lines += xstmts_to_fortran(stmts)
    lines += ["  end subroutine %s" % name]
    return "\n".join(lines) + "\n"


def module_text(routines):
    return "module c11m\n" + TYPE_TEXT + "contains\n" + CALLEE_TEXT + "\n".join(routines) + "end module c11m\n"


def program_text(stmts, decls):
    return module_text([routine_text(stmts, decls)])


def parse_batch(reader, progs, size=16):
    """parse the programs `size` routines per module (one reader call per batch); yields the Routine nodes"""
    from psyclone.psyir.nodes import Routine
    out = []
    for k in range(0, len(progs), size):
        chunk = progs[k:k + size]
        txt = module_text([routine_text(p[0], p[1], "t%d" % i) for i, p in enumerate(chunk)])
        rts = {r.name: r for r in reader.psyir_from_source(txt).walk(Routine)}
        out += [rts["t%d" % i] for i in range(len(chunk))]
    return out


def xnames(ss, acc):
    for s in ss:
        k = s[0]
        if k == "call":
            for e in s[4]:
                mf.expr_names(e, acc)
        elif k == "sassign":
            mf.expr_names(s[1], acc)
            mf.expr_names(s[2], acc)
        elif k == "while":
            mf.expr_names(s[1], acc)
            xnames(s[2], acc)
        elif k == "if":
            mf.expr_names(s[1], acc)
            xnames(s[2], acc)
            xnames(s[3], acc)
        elif k == "do":
            acc.add(s[1])
            for x in s[2:5]:
                mf.expr_names(x, acc)
            xnames(s[5], acc)
        else:
            mf.all_names([s], acc)
    return acc


def xstmt_to_coq(s, nm):
    k = s[0]
    if k == "call":
        _, form, name, its, args, kws = s
        cf = {"user": "(CUser false)", "iparsed": "(CUser false)", "pure": "(CUser true)"}.get(form, "CIntrinsic")
        return "(XCall %s [%s] [%s])" % (cf, "; ".join(INTENT_COQ[i] for i in its),
                                         "; ".join(mf.expr_to_coq(e, nm) for e in args))
    if k == "while":
        return "(XWhile %s %s)" % (mf.expr_to_coq(s[1], nm), mf.stmts_to_coq(s[2], nm))
    return "(XCore %s)" % mf.stmt_to_coq(s, nm)


# ------------------------------------------------------------------------------------ structure statements -> C11.Struct.sstmt
def sexpr_to_coq(e, nm, tbl):
    """-> Coq term of type sexpr, or None when the expression is outside the Coq form (a structure access inside an
    array subscript or an intrinsic argument, or with a structure access in its own subscripts)"""
    k = e[0]
    if not has_sref_e(e):
        return "(SCore %s)" % mf.expr_to_coq(e, nm)
    if k == "sref":
        comps = []
        for c, ix in e[1]:
            if any(has_sref_e(x) for x in ix):
                return None
            comps.append("(%d%%nat, [%s])" % (nm.get("#" + c), "; ".join(mf.expr_to_coq(x, nm) for x in ix)))
        tbl["[" + "; ".join("%d%%nat" % nm.get("#" + c) for c, _ in e[1]) + "]"] = nm.get(sref_sig(e))
        return "(SRef [%s])" % "; ".join(comps)
    if k == "un":
        a = sexpr_to_coq(e[2], nm, tbl)
        return None if a is None else "(SUn %s %s)" % (e[1], a)
    if k == "bin":
        a, b = sexpr_to_coq(e[2], nm, tbl), sexpr_to_coq(e[3], nm, tbl)
        return None if a is None or b is None else "(SBin %s %s %s)" % (e[1], a, b)
    return None


def sstmt_to_coq(s, nm):
    """-> (table term, sstmt term) or None"""
    tbl = {}
    k = s[0]
    term = None
    if k == "sassign":
        t = sexpr_to_coq(s[1], nm, tbl)
        e = sexpr_to_coq(s[2], nm, tbl)
        if t and e:
            term = "(SAsg (TRef %s) %s)" % (t[len("(SRef "):-1], e)
    elif k == "assign" and not any(has_sref_e(x) for x in s[2]):
        e = sexpr_to_coq(s[3], nm, tbl)
        if e:
            term = "(SAsg (TVar %d%%nat [%s]) %s)" % (nm.get(s[1]), "; ".join(mf.expr_to_coq(x, nm) for x in s[2]), e)
    elif k == "call":
        args = [sexpr_to_coq(e, nm, tbl) for e in s[4]]
        if all(args):
            cf = {"user": "(CUser false)", "iparsed": "(CUser false)", "pure": "(CUser true)"}.get(s[1], "CIntrinsic")
            term = "(SCallS %s [%s] [%s])" % (cf, "; ".join(INTENT_COQ[i] for i in s[3]), "; ".join(args))
    elif k == "if" and not any(has_sref(x) or not is_core(x) for x in s[2] + s[3]):
        c = sexpr_to_coq(s[1], nm, tbl)
        if c:
            term = "(SIfS %s %s %s)" % (c, mf.stmts_to_coq(s[2], nm), mf.stmts_to_coq(s[3], nm))
    elif k == "while" and not any(has_sref(x) or not is_core(x) for x in s[2]):
        c = sexpr_to_coq(s[1], nm, tbl)
        if c:
            term = "(SWhileS %s %s)" % (c, mf.stmts_to_coq(s[2], nm))
    if term is None:
        return None
    return "[" + "; ".join("(%s, %d%%nat)" % (kk, v) for kk, v in sorted(tbl.items())) + "]", term


# ---- C11.StructX: structure accesses as a first-class expression form, nested statements
def fexprs_to_coq(es, nm, tbl):
    out = "ENil"
    for e in reversed(es):
        out = "(ECons %s %s)" % (fexpr_to_coq(e, nm, tbl), out)
    return out


def fexpr_to_coq(e, nm, tbl):
    k = e[0]
    if k == "lit":
        return "(FLit (%d))" % e[1]
    if k == "var":
        return "(FVar %d%%nat)" % nm.get(e[1])
    if k == "idx":
        return "(FIdx %d%%nat %s)" % (nm.get(e[1]), fexprs_to_coq(e[2], nm, tbl))
    if k == "un":
        return "(FUn %s %s)" % (e[1], fexpr_to_coq(e[2], nm, tbl))
    if k == "bin":
        return "(FBin %s %s %s)" % (e[1], fexpr_to_coq(e[2], nm, tbl), fexpr_to_coq(e[3], nm, tbl))
    if k == "intr":
        return "(FIntr %s %s)" % (e[1], fexprs_to_coq(e[2], nm, tbl))
    if k == "sref":
        return "(FRef %s)" % fpath_to_coq(e, nm, tbl)
    raise ValueError(e)


def fpath_to_coq(e, nm, tbl):
    tbl["[" + "; ".join("%d%%nat" % nm.get("#" + c) for c, _ in e[1]) + "]"] = nm.get(sref_sig(e))
    out = "PNil"
    for c, ix in reversed(e[1]):
        out = "(PCons %d%%nat %s %s)" % (nm.get("#" + c), fexprs_to_coq(ix, nm, tbl), out)
    return out


def fblock_to_coq(ss, nm, tbl):
    terms = [fstmt_term(s, nm, tbl) for s in ss]
    if any(t is None for t in terms):
        return None
    out = "BNil"
    for t in reversed(terms):
        out = "(BCons %s %s)" % (t, out)
    return out


def fstmt_term(s, nm, tbl):
    k = s[0]
    if k == "sassign":
        return "(FAssign (FTRef %s) %s)" % (fpath_to_coq(s[1], nm, tbl), fexpr_to_coq(s[2], nm, tbl))
    if k == "assign":
        return "(FAssign (FTVar %d%%nat %s) %s)" % (nm.get(s[1]), fexprs_to_coq(s[2], nm, tbl), fexpr_to_coq(s[3], nm, tbl))
    if k == "call":
        cf = {"user": "(CUser false)", "iparsed": "(CUser false)", "pure": "(CUser true)"}.get(s[1], "CIntrinsic")
        return "(FCall %s [%s] %s)" % (cf, "; ".join(INTENT_COQ[i] for i in s[3]), fexprs_to_coq(s[4], nm, tbl))
    if k == "if":
        th, el = fblock_to_coq(s[2], nm, tbl), fblock_to_coq(s[3], nm, tbl)
        return None if th is None or el is None else "(FIf %s %s %s)" % (fexpr_to_coq(s[1], nm, tbl), th, el)
    if k == "do":
        body = fblock_to_coq(s[5], nm, tbl)
        return None if body is None else "(FDo %d%%nat %s %s %s %s)" % (
            nm.get(s[1]), fexpr_to_coq(s[2], nm, tbl), fexpr_to_coq(s[3], nm, tbl), fexpr_to_coq(s[4], nm, tbl), body)
    return None          # WHILE, PRINT, EXIT, CYCLE, RETURN are not in C11.StructX.fstmt


def fstmt_to_coq(s, nm):
    tbl = {}
    t = fstmt_term(s, nm, tbl)
    if t is None:
        return None
    return "[" + "; ".join("(%s, %d%%nat)" % (kk, v) for kk, v in sorted(tbl.items())) + "]", t


# ------------------------------------------------------------------------------------ interpreter
class Rec:
    """per statement path: union of variables read / written, and per execution of an assignment the
    per-variable access sequences"""

    def __init__(self):
        self.reads, self.writes, self.seqs, self.execs = {}, {}, {}, {}


def xrun(stmts, s, tr, fuel, rec, path):
    """mirror of Fort.Sem.exec / C11.Ext.xexec on tuples (nested extension statements allowed);
    records the trace segment of every statement execution under its path."""
    for idx, st in enumerate(stmts):
        fuel[0] -= 1
        if fuel[0] <= 0:
            raise mf.OutOfFuel()
        p = path + (idx,)
        start = len(tr)
        ctl = "N"
        done = False
        try:
            ctl = xrun1(st, s, tr, fuel, rec, p)
            done = True
        finally:
            if rec is not None:
                seg = tr[start:]
                rec.execs[p] = rec.execs.get(p, 0) + 1
                rec.reads.setdefault(p, set()).update(l[0] for kk, l in seg if kk == "R")
                rec.writes.setdefault(p, set()).update(l[0] for kk, l in seg if kk == "W")
                if st[0] in ("assign", "sassign") and done:
                    sq = {}
                    for kk, l in seg:
                        sq.setdefault(l[0], []).append("READ" if kk == "R" else "WRITE")
                    rec.seqs.setdefault(p, set()).add(tuple(sorted((v, tuple(x)) for v, x in sq.items())))
        if ctl != "N":
            return ctl
    return "N"


def xrun1(st, s, tr, fuel, rec, p):
    k = st[0]
    if k == "call":
        _, form, name, its, args, kws = st
        pre, R, W = [], [], []
        for it, e in zip(its, args):
            if e[0] == "var":
                loc = (e[1], ())
            elif e[0] == "idx":
                loc = (e[1], tuple(mf.ev(s, x, pre) for x in e[2]))
            elif e[0] == "sref":
                loc = (sref_sig(e), tuple(mf.ev(s, x, pre) for _, ix in e[1] for x in ix))
            else:
                mf.ev(s, e, pre)
                loc = None
                if it != "in":
                    raise mf.FaultExc("value passed to intent(out)")
            if loc is not None:
                if it in ("in", "inout"):
                    R.append(loc)
                if it in ("out", "inout"):
                    W.append(loc)
        tr += [("R", l) for l in pre + R]
        for kk, l in enumerate(W):
            s.vals[l] = kk
            tr.append(("W", l))
        return "N"
    if k == "sassign":
        r_ix, r_e = [], []
        loc = (sref_sig(st[1]), tuple(mf.ev(s, x, r_ix) for _, ix in st[1][1] for x in ix))
        v = mf.ev(s, st[2], r_e)
        tr += [("R", l) for l in r_e + r_ix]
        s.vals[loc] = v
        tr.append(("W", loc))
        return "N"
    if k == "while":
        while True:
            fuel[0] -= 1
            if fuel[0] <= 0:
                raise mf.OutOfFuel()
            r = []
            c = mf.ev(s, st[1], r)
            tr += [("R", l) for l in r]
            if c == 0:
                return "N"
            ctl = xrun(st[2], s, tr, fuel, rec, p + ("b",))
            if ctl == "X":
                return "N"
            if ctl == "R":
                return "R"
    if k == "if":
        r = []
        c = mf.ev(s, st[1], r)
        tr += [("R", l) for l in r]
        return xrun(st[2] if c != 0 else st[3], s, tr, fuel, rec, p + ("t" if c != 0 else "e",))
    if k == "do":
        r = []
        lo = mf.ev(s, st[2], r)
        hi = mf.ev(s, st[3], r)
        stp = mf.ev(s, st[4], r)
        if stp == 0:
            raise mf.FaultExc("zerostep")
        tr += [("R", l) for l in r]
        n = max(0, mf._quot(hi - lo + stp, stp))
        x = (st[1], ())
        for kk in range(n):
            s.vals[x] = lo + kk * stp
            tr.append(("W", x))
            ctl = xrun(st[5], s, tr, fuel, rec, p + ("b",))
            if ctl == "X":
                return "N"
            if ctl == "R":
                return "R"
        s.vals[x] = lo + n * stp
        tr.append(("W", x))
        return "N"
    # leaves of the core language: delegate to the shared interpreter
    return mf.run([st], s, tr, fuel)


def xinterp(stmts, vals, bnds, rec=None, fuel=20000):
    s = mf.Store(vals, bnds)
    tr = []
    try:
        ctl = xrun(stmts, s, tr, [fuel], rec, ())
    except mf.FaultExc as e:
        return ("fault", str(e), tr)
    except mf.OutOfFuel:
        return ("fuel", None, tr)
    return ("ok", ctl, tr)


# ------------------------------------------------------------------------------------ implementation side
def pair_nodes(stmts, nodes, path, out):
    """pair tuples with PSyIR statement nodes by position, checking node kinds (fail closed)."""
    from psyclone.psyir import nodes as N
    if len(stmts) != len(nodes):
        raise RuntimeError("statement count mismatch at %s: %d tuples, %d nodes" % (path, len(stmts), len(nodes)))
    for idx, (s, n) in enumerate(zip(stmts, nodes)):
        p = path + (idx,)
        k = s[0]
        exp = {"assign": N.Assignment, "sassign": N.Assignment, "if": N.IfBlock, "do": N.Loop, "while": N.WhileLoop, "call": N.Call,
               "print": N.CodeBlock, "exit": N.CodeBlock, "cycle": N.CodeBlock, "return": N.Return}[k]
        if not isinstance(n, exp):
            raise RuntimeError("node kind mismatch at %s: %s vs %s" % (p, k, type(n).__name__))
        if k == "call":
            isintr = isinstance(n, N.IntrinsicCall)
            if isintr != (s[1] in ("intrinsic", "alloc", "dealloc")):
                raise RuntimeError("call form mismatch at %s: %s vs %s" % (p, s[1], type(n).__name__))
        out.append((p, s, n))
        if k == "if":
            pair_nodes(s[2], n.if_body.children, p + ("t",), out)
            pair_nodes(s[3], n.else_body.children if n.else_body else [], p + ("e",), out)
        elif k == "do":
            pair_nodes(s[5], n.loop_body.children, p + ("b",), out)
        elif k == "while":
            pair_nodes(s[2], n.loop_body.children, p + ("b",), out)
    return out


def rebuild_intrinsics(stmts, nodes):
    """replace the parsed Call nodes of form 'intrinsic' by IntrinsicCall.create(...) (what PSyclone's own
    transformations/builtins build, e.g. lfric_builtins.py RANDOM_NUMBER)."""
    from psyclone.psyir.nodes import IntrinsicCall
    for s, n in zip(stmts, list(nodes)):
        k = s[0]
        if k == "call" and s[1] == "intrinsic":
            args = [a.detach() for a in list(n.arguments)]
            call = IntrinsicCall.create(getattr(IntrinsicCall.Intrinsic, s[2]),
                                        [(kw, a) if kw else a for kw, a in zip(s[5], args)])
            n.replace_with(call)
        elif k == "if":
            rebuild_intrinsics(s[2], n.if_body.children)
            if s[3]:
                rebuild_intrinsics(s[3], n.else_body.children)
        elif k == "do":
            rebuild_intrinsics(s[5], n.loop_body.children)
        elif k == "while":
            rebuild_intrinsics(s[2], n.loop_body.children)


def impl_report(nodes):
    """-> ("ok", {sig: [(TYPE, loc)..]}, final_location) | ("refused", msg) | ("error", msg)"""
    from psyclone.core import VariablesAccessInfo
    try:
        v = VariablesAccessInfo(nodes)
    except NotImplementedError as e:
        return ("refused", str(e))
    except Exception as e:  # pylint: disable=broad-except
        return ("error", "%s: %s" % (type(e).__name__, e))
    rep = {}
    for sig in v:
        rep[str(sig).lower()] = [(str(a.access_type), int(a.location)) for a in v[sig].all_accesses]
    return ("ok", rep, int(v.location))


READS = ("READ", "READWRITE")
WRITES = ("WRITE", "READWRITE")


def missing(rep, rd, wr):
    """the property on one node: variables dynamically read / written that the report does not list so."""
    m = set()
    for v in rd:
        if not any(t in READS for t, _ in rep.get(v, [])):
            m.add((v, "read"))
    for v in wr:
        if not any(t in WRITES for t, _ in rep.get(v, [])):
            m.add((v, "written"))
    return m


def classify(s, n, own=()):
    """reason code of a leaf statement whose report does not cover its execution"""
    from psyclone.psyir import nodes as N
    if isinstance(n, N.Call) and own and all(kind == "read" for _, kind in own):
        return "call/argument-or-subscript-not-read"
    if isinstance(n, N.CodeBlock):
        txt = " ".join(str(a) for a in n.get_ast_nodes).strip().upper()
        return "codeblock/accesses-not-reported:" + (txt.split()[0].split("(")[0] if txt else "?")
    if isinstance(n, N.IntrinsicCall):
        return "intrinsic_call/modified-arg-read-only:" + n.intrinsic.name
    if isinstance(n, N.Call):
        if n.is_pure:
            return "call/pure-subroutine-out-arg-read-only"
        return "call/impure-arg-not-readwrite"
    return "%s/not-covered" % type(n).__name__.lower()


def obs_to_coq(rep, nm):
    ent = []
    for sig in sorted(rep):
        ent.append("(%d%%nat, [%s])" % (nm.get(sig), "; ".join("(%s, %d%%nat)" % (t, l) for t, l in rep[sig])))
    return "[" + "; ".join(ent) + "]"


# ------------------------------------------------------------------------------------ fixed shapes
def targeted():
    """hand-written programs: every statement form at least once, the witnesses of the findings, and
    shapes behind the mutations a harness should catch"""
    V = lambda x: ("var", x)
    L = lambda z: ("lit", z)
    I = lambda a, *ix: ("idx", a, list(ix))
    B = lambda o, l, r: ("bin", o, l, r)
    out = []
    out.append([("assign", "s", [], B("Add", V("s"), L(1)))])                                     # a = a + 1
    out.append([("assign", "a", [V("i")], L(2))])                                                 # index only on the LHS
    out.append([("assign", "d", [V("i"), B("Add", V("j"), L(1))], I("b", V("k")))])
    out.append([("assign", "a", [I("b", V("i"))], I("c", I("b", V("j"))))])                      # indirect addressing
    out.append([("assign", "s", [], ("intr", "ISize", [V("a"), L(1)])),
                ("assign", "t", [], B("Add", ("intr", "ILbound", [V("b"), B("Sub", V("k"), L(2))]), ("intr", "IUbound", [V("c"), L(1)])))])
    out.append([("do", "i", L(1), V("n"), L(1), [("assign", "a", [V("i")], L(0))])])             # loop var only in the header
    out.append([("do", "i", V("m"), V("n"), V("s"), [])])                                         # empty body, variable bounds
    out.append([("do", "i", L(3), L(1), L(1), [("assign", "t", [], L(7))])])                      # zero-trip
    out.append([("if", B("Gt", V("n"), L(5)), [("assign", "s", [], L(1))], [("assign", "t", [], V("m"))]),   # else taken (n<=4)
                ("if", B("Lt", V("n"), L(9)), [("assign", "m", [], V("t"))], [("assign", "a", [L(1)], V("s"))])])
    out.append([("if", B("Gt", V("n"), L(5)), [], [("assign", "t", [], I("b", V("m")))])])        # only an else body
    out.append([("do", "i", L(1), L(3), L(1), [("if", B("Eq", V("i"), L(2)), [("exit",)], []), ("assign", "a", [V("i")], V("i"))]),
                ("do", "j", L(1), L(3), L(1), [("if", B("Eq", V("j"), L(2)), [("cycle",)], []), ("assign", "b", [V("j")], V("j"))])])
    out.append([("while", B("Lt", V("w"), L(2)), [("assign", "c", [B("Add", V("w"), L(1))], V("t")),
                                                 ("assign", "w", [], B("Add", V("w"), L(1)))])])
    out.append([("while", B("Lt", V("w"), V("n")), [("assign", "w", [], B("Add", V("w"), L(1)))])])        # n only in the condition
    out.append([("call", "user", "sub_io", ["in", "out"], [I("a", V("i")), I("b", B("Add", V("j"), L(1)))], [None, None])])
    out.append([("call", "user", "sub_io", ["in", "out"], [B("Add", V("n"), L(1)), V("s")], [None, None])])
    out.append([("call", "user", "sub3", ["in", "inout", "out"], [L(2), I("d", V("i"), V("j")), V("t")], [None] * 3)])
    out.append([("call", "user", "sub_x", ["inout"], [V("m")], [None])])
    out.append([("call", "user", "ext_sub", ["inout", "inout"], [I("c", V("k")), V("t")], [None, None])])   # purity unknown
    out.append([("do", "i", L(1), L(2), L(1), [("call", "user", "sub_io", ["in", "out"], [V("i"), I("a", V("i"))], [None, None])])])
    out.append([("call", "pure", "psub_in", ["in", "in"], [V("s"), I("a", V("n"))], [None, None])])
    out.append([("call", "pure", "psub_out", ["in", "out"], [I("a", V("i")), I("b", B("Add", V("j"), L(1)))], [None, None])])   # finding
    out.append([("call", "iparsed", "RANDOM_NUMBER", ["out"], [V("rr")], [None])])
    out.append([("call", "iparsed", "SYSTEM_CLOCK", ["out"], [V("s")], ["count"])])
    out.append([("call", "iparsed", "MVBITS", ["in", "in", "in", "inout", "in"], [V("s"), L(0), L(2), V("t"), L(1)], [None] * 5)])
    out.append([("call", "intrinsic", "RANDOM_NUMBER", ["out"], [V("rr")], [None])])                                           # finding
    out.append([("call", "intrinsic", "RANDOM_NUMBER", ["out"], [I("ra", V("i"))], [None])])
    out.append([("call", "intrinsic", "CPU_TIME", ["out"], [V("rr")], [None])])                                                # finding
    out.append([("call", "intrinsic", "SYSTEM_CLOCK", ["out"], [V("s")], ["count"])])                                          # finding
    out.append([("call", "intrinsic", "MVBITS", ["in", "in", "in", "inout", "in"], [V("s"), L(0), L(2), V("t"), L(1)], [None] * 5)])  # finding
    out.append([("call", "alloc", "ALLOCATE", ["out", "out"], [I("al", V("n")), V("s")], [None, "stat"])])                     # finding
    out.append([("call", "alloc", "ALLOCATE", ["out"], [I("al2", B("Add", V("n"), L(1)))], [None])])
    out.append([("call", "dealloc", "DEALLOCATE", ["inout", "out"], [V("al"), V("t")], [None, "stat"])])                       # finding
    out.append([("print", [V("s"), I("a", V("j"))])])                                                                          # finding
    out.append([("do", "i", L(1), L(2), L(1), [("print", [I("a", V("i"))]),
                                               ("call", "alloc", "ALLOCATE", ["out", "out"], [I("al", V("i")), V("t")], [None, "stat"])])])
    # ---- derived types: subscripts on inner components, in every position
    S = lambda *comps: ("sref", [(c, list(ix)) for c, ix in comps])
    gcv = S(("grid", [V("ii")]), ("cells", [V("jj")]), ("vals", [V("j")]))
    out.append([("sassign", gcv, B("Add", S(("sg", []), ("x", [V("i")])), S(("grid", [V("jj")]), ("g", []))))])
    out.append([("sassign", S(("grid", [V("ii")]), ("g", [])), L(1))])                          # ii only on the LHS
    out.append([("assign", "a", [S(("sg", []), ("x", [V("ii")]))], ("intr", "IMax", [S(("grid", [V("ii")]), ("g", [])),
                                                                                     S(("sg", []), ("cells", [V("jj")]), ("vals", [V("k")]))]))])
    out.append([("call", "user", "sub_x", ["inout"], [gcv], [None])])                           # seeded: inner subscripts of a call argument
    out.append([("call", "user", "sub_io", ["in", "out"], [S(("grid", [V("ii")]), ("g", [])), S(("sg", []), ("cells", [V("jj")]), ("f", []))],
                 [None, None])])
    out.append([("call", "user", "ext_sub", ["inout", "inout"], [S(("grid", [B("Add", V("ii"), L(1))]), ("x", [V("k")])), V("t")], [None, None])])
    out.append([("call", "pure", "psub_in", ["in", "in"], [S(("grid", [V("jj")]), ("cells", [V("ii")]), ("f", [])), L(1)], [None, None])])
    out.append([("call", "intrinsic", "MVBITS", ["in", "in", "in", "inout", "in"],
                 [S(("grid", [V("ii")]), ("g", [])), L(0), L(2), S(("sg", []), ("cells", [V("jj")]), ("vals", [V("j")])), L(1)], [None] * 5)])
    out.append([("call", "iparsed", "SYSTEM_CLOCK", ["out"], [S(("grid", [V("jj")]), ("cells", [V("ii")]), ("f", []))], ["count"])])
    out.append([("call", "alloc", "ALLOCATE", ["out", "out"], [I("al", S(("grid", [V("ii")]), ("g", []))), S(("sg", []), ("g", []))], [None, "stat"])])
    out.append([("do", "i", S(("sg", []), ("x", [V("ii")])), S(("grid", [V("jj")]), ("g", [])), L(1), [("assign", "t", [], V("i"))])])
    out.append([("if", B("Gt", S(("grid", [V("ii")]), ("cells", [V("jj")]), ("f", [])), L(1)), [("assign", "s", [], L(1))], [])])
    out.append([("while", B("Lt", V("w"), ("intr", "IMin", [S(("grid", [V("ii")]), ("x", [V("jj")])), L(2)])),
                 [("assign", "w", [], B("Add", V("w"), L(1)))])])
    out.append([("do", "j", L(1), L(2), L(1), [("call", "user", "sub_x", ["inout"], [gcv], [None])])])
    # do i = 1, grid(k)%g ; a(sg%x(i)) = max(grid(i)%cells(j)%f, 0) ; end do     (the StructX non-vacuity shape)
    out.append([("do", "i", L(1), S(("grid", [V("k")]), ("g", [])), L(1),
                 [("assign", "a", [S(("sg", []), ("x", [V("i")]))], ("intr", "IMax", [S(("grid", [V("i")]), ("cells", [V("j")]), ("f", [])), L(0)]))])])
    out.append([("sassign", S(("grid", [S(("sg", []), ("x", [V("ii")]))]), ("cells", [V("jj")]), ("vals", [I("a", S(("sg", []), ("g", [])))])), V("s"))])
    out.append([("return",)])
    return out


# statements of language-level PSyIR outside MiniFortran: (Fortran statement, variables/components it reads,
# those it modifies) written by hand from the Fortran semantics; only the property itself is evaluated on them
WIDER_DECLS = """    integer :: i, j, n, s, t
    real :: rr, rq
    integer, dimension(6) :: a, b, c
    integer, dimension(4, 4) :: d
    type(tt) :: q, r
    type(tt), dimension(3) :: qs
"""
WIDER = [
    ("s = sum(a)", {"a"}, {"s"}),
    ("s = dot_product(a, b) + maxval(c)", {"a", "b", "c"}, {"s"}),
    ("s = product(a(1:n)) + size(b, 1)", {"a", "n"}, {"s"}),
    ("t = minval(b, 1) + count(c > i)", {"b", "c", "i"}, {"t"}),
    ("a(:) = b(:) + n", {"b", "n"}, {"a"}),
    ("a(2:n) = 0", {"n"}, {"a"}),
    ("d(i, :) = a(1:4) * c(j)", {"i", "a", "c", "j"}, {"d"}),
    ("d(:, j) = matmul(d, b(1:4))", {"d", "b", "j"}, {"d"}),
    ("q%f = r%arr(i) + 1", {"r%arr", "i"}, {"q%f"}),
    ("q%arr(j) = q%f * n", {"q%f", "j", "n"}, {"q%arr"}),
    ("qs(i)%f = qs(j)%arr(n)", {"qs%arr", "i", "j", "n"}, {"qs%f"}),
    ("r%arr(q%f) = s", {"q%f", "s"}, {"r%arr"}),
    ("s = abs(t) + max(a(i), b(j), n) + mod(c(1), 2) + sign(i, j)", {"t", "a", "i", "b", "j", "n", "c"}, {"s"}),
    ("if (s > sum(c)) t = a(n)", {"s", "c", "a", "n"}, {"t"}),
    # the first argument of NON-inquiry intrinsics is read (a mis-set is_inquiry flag drops exactly this READ)
    ("d = reshape(a(1:4) + c(j), (/2, 2/))", {"a", "c", "j"}, {"d"}),
    ("s = exponent(rr) + int(fraction(rq))", {"rr", "rq"}, {"s"}),
    ("d = transpose(d)", {"d"}, {"d"}),
    ("a = pack(b, c > i)", {"b", "c", "i"}, {"a"}),
    ("d = spread(a(1:4), 1, n)", {"a", "n"}, {"d"}),
    ("a = cshift(b, n) + eoshift(c, j)", {"b", "n", "c", "j"}, {"a"}),
    ("s = maxloc(a, 1) + minloc(b, 1) + ishft(t, i) + nint(rq)", {"a", "b", "t", "i", "rq"}, {"s"}),
    ("t = merge(a(i), b(j), s > n) + iand(s, n) + floor(rr)", {"a", "i", "b", "j", "s", "n", "rr"}, {"t"}),
    ("do i = lbound(a, 1), ubound(b, n), j\n      c(i) = i\n    end do", {"n", "j", "i"}, {"i", "c"}),
]


def wider_shapes(reader):
    """-> list of (statement text, report or status, missing set)"""
    from psyclone.psyir.nodes import Routine
    txt = ("module c11w\n  type :: tt\n    integer :: f\n    integer, dimension(5) :: arr\n  end type tt\ncontains\n"
           "  subroutine t()\n" + WIDER_DECLS + "".join("    %s\n" % w[0] for w in WIDER) + "  end subroutine t\nend module c11w\n")
    rt = [r for r in reader.psyir_from_source(txt).walk(Routine) if r.name == "t"][0]
    if len(rt.children) != len(WIDER):
        raise RuntimeError("wider shapes: %d statements, %d nodes" % (len(WIDER), len(rt.children)))
    out = []
    from psyclone.psyir.nodes import CodeBlock
    for (st, rd, wr), n in zip(WIDER, rt.children):
        r = impl_report(n)
        m = missing(r[1], rd, wr) if r[0] == "ok" else set()
        key = None
        if m:
            # every unreported variable occurs inside an expression-level CodeBlock of the statement?
            cbtxt = " ".join(str(a) for cb in n.walk(CodeBlock) for a in cb.get_ast_nodes).lower()
            import re
            if cbtxt and all(re.search(r"\b%s\b" % re.escape(v.split("%")[0]), cbtxt) and kind == "read" for v, kind in m):
                key = "codeblock/accesses-not-reported:EXPRESSION"
        out.append((st, r, m, txt, key))
    return out


REFUSED_SHAPES = [  # the implementation raises NotImplementedError; the model's accesses_ok is false
    [("assign", "a", [("idx", "a", [("lit", 1)])], ("lit", 2))],
    [("assign", "a", [("bin", "Add", ("idx", "a", [("var", "i")]), ("lit", 1))], ("var", "s"))],
    [("do", "i", ("lit", 1), ("lit", 2), ("lit", 1), [("assign", "b", [("idx", "b", [("var", "i")])], ("lit", 0))])],
]


# ------------------------------------------------------------------------------------ run
def run(ctx):
    from psyclone.psyir.frontend.fortran import FortranReader
    from psyclone.psyir.nodes import Routine
    ctx.cov["rule"] = ("programs = vlib.fortgen programs (assign/IF/DO/EXIT/CYCLE, affine and indirect subscripts, zero-trip and "
                       "negative-step loops) enriched with calls to generated callees with declared intents (pure and impure), "
                       "intrinsic subroutines (parsed Call nodes and IntrinsicCall.create), ALLOCATE/DEALLOCATE(+STAT=), DO WHILE, "
                       "PRINT, derived-type accesses with subscripts on any component (grid(ii)%%cells(jj)%%vals(j), sg%%x(i); harness oracle only), "
                       "plus %d fixed shapes; a case = one statement node of one program (VariablesAccessInfo(node)); "
                       "non-trivial = the node was executed by the interpreter on some store and read or wrote a variable; "
                       "distinct = canonical (statement, report)") % len(targeted())
    ctx.cov["trusted_base"] = core.BASE_TRUST + [
        "models coq/C11/Access.v, coq/C11/Ext.v are hand-written; tied to reference_accesses/VariablesAccessInfo by this correspondence run",
        "MiniFortran semantics coq/Fort/Sem.v (validated against gfortran by ./check _FORT) and the by-reference call semantics of "
        "coq/C11/Ext.v (callee = any function; intents as declared) are the specification of 'what a statement may read/write'",
        "the Python interpreter of this check is cross-checked against Coq exec/xexec by vm_compute on every run; for programs with "
        "extension statements nested in loops/IFs it is trusted beyond that",
        "pairing of generated statements with PSyIR nodes is by position with a node-kind check (fail closed)"]
    ctx.assumptions = ["coverage is per variable (signature), not per array element, as VariablesAccessInfo reports it",
                       "a callee reads its intent(in/inout) dummies and writes its intent(out/inout) dummies; ALLOCATE/DEALLOCATE "
                       "modify the allocated object and the STAT= variable"]
    # regenerate the per-intrinsic inquiry flags of the tree under test (shared translator, fail-closed)
    try:
        import importlib.util
        spec = importlib.util.spec_from_file_location("props_C12_translate_for_C11", core.VERIF / "props" / "C12" / "translate.py")
        tmod = importlib.util.module_from_spec(spec)
        spec.loader.exec_module(tmod)
        flags = tmod.generate()
        ctx.notes["intrinsics_translated"] = len(flags)
        ctx.notes["intrinsics_flagged_inquiry"] = sorted(n for n, f in flags if f)
    except Exception as e:  # pylint: disable=broad-except
        ctx.violation({"property": "C11", "broken": "translator props/C12/translate.py (IntrinsicCall.Intrinsic table) failed: %s: %s"
                       % (type(e).__name__, e)}, no_input=True)
    ok, rep = ctx.prove()
    ctx.log("proof ok=%s discharged=%d/%d" % (ok, ctx.cov["discharged"], ctx.cov["obligations"]))

    rng = ctx.rng("gen")
    reader = FortranReader()
    progs = []          # (stmts, decls, stores)
    for t in targeted():
        g = XGen(ctx.rng("tg"), two_d=True)
        g.arrays = {"a": [(1, 6)], "b": [(1, 6)], "c": [(0, 6)], "d": [(1, 4), (1, 4)]}
        stores = []
        for k in range(3):
            vals, bnds = g.store()
            vals[("i", ())], vals[("j", ())], vals[("k", ())] = 1 + k % 2, 2, 3
            vals[("w", ())] = 0
            struct_vals(ctx.rng("tgs%d" % k), vals)
            stores.append((vals, bnds))
        progs.append((t, g.decls() + EXTRA_DECLS, stores, "targeted"))
    for _ in range(ctx.pick(80, 700)):
        g = XGen(rng, max_depth=rng.choice([1, 2, 2, 3]))
        g.p_ext = rng.choice([0.0, 0.15, 0.3, 0.45])
        g.p_struct = rng.choice([0.0, 0.0, 0.1, 0.2])
        p = fix_adjacent(g.program(rng.randint(1, 5)))
        stores = []
        for k in range(ctx.pick(2, 3)):
            vals, bnds = g.store()
            vals[("w", ())] = rng.choice([0, 0, 1, 3])
            for lv in fortgen.LOOPVARS:
                vals[(lv, ())] = rng.randint(1, 3)
            struct_vals(rng, vals)
            stores.append((vals, bnds))
        progs.append((p, g.decls() + EXTRA_DECLS, stores, "random"))

    coq_cases, case_info = [], []      # correspondence cases
    xv_cases, xv_info = [], []         # interpreter vs Coq
    prop_fail = []                     # (key or None, detail)
    n_refused = n_nodes = n_exec_nodes = 0
    gap_seen = {}
    samples = 0
    routines = parse_batch(reader, progs)
    ctx.log("parsed %d programs" % len(progs))
    for pi, (stmts, decls, stores, origin) in enumerate(progs):
        txt = program_text(stmts, decls)
        rt = routines[pi]
        rebuild_intrinsics(stmts, rt.children)
        pairs = pair_nodes(stmts, rt.children, (), [])
        # ---- dynamic side
        rec = Rec()
        results = []
        for vals, bnds in stores:
            r = xinterp(stmts, vals, bnds, rec)
            results.append(r[0])
            ctx.hist("interp_outcome", r[0])
            if r[0] in ("ok", "fault") and all(expressible(s) for s in stmts) and len(xv_cases) < ctx.pick(120, 900):
                nm = mf.Names().collect([])
                for x in sorted(xnames(stmts, set())):
                    nm.get(x)
                for kk in vals:
                    nm.get(kk[0])
                exp = "None" if r[0] == "fault" else "(Some %s)" % mf.trace_to_coq(r[2], nm)
                xv_cases.append("(%s, %s, %s)" % ("[" + "; ".join(xstmt_to_coq(s, nm) for s in stmts) + "]",
                                                   mf.store_to_coq(vals, bnds, nm), exp))
                xv_info.append((pi, stmts))
        # ---- every statement node
        reports = {}
        for p, s, n in pairs:
            reports[p] = impl_report(n)
        whole = impl_report(rt.children)
        miss = {}
        for p, s, n in pairs:
            n_nodes += 1
            r = reports[p]
            ctx.hist("stmt_kind", s[0] if s[0] != "call" else "call:" + s[1])
            if r[0] == "refused":
                n_refused += 1
                ctx.hist("impl", "refused")
                continue
            if r[0] == "error":
                prop_fail.append((None, {"program": txt, "statement_path": list(p), "implementation_raised": r[1]}))
                continue
            rd, wr = rec.reads.get(p, set()), rec.writes.get(p, set())
            executed = rec.execs.get(p, 0) > 0
            nontriv = executed and bool(rd or wr)
            n_exec_nodes += int(nontriv)
            ctx.count((s, sorted(r[1].items())), nontriv)
            miss[p] = missing(r[1], rd, wr)
            # order: per-variable dynamic access sequence of an assignment = reported sequence
            if s[0] in ("assign", "sassign"):
                for sq in rec.seqs.get(p, ()):
                    got = tuple(sorted((v, tuple(t for t, _ in acc)) for v, acc in r[1].items()))
                    if sq != got:
                        prop_fail.append((None, {"program": txt, "statement_path": list(p), "why": "order: dynamic access "
                                                 "sequence of the assignment differs from the reported one",
                                                 "dynamic": sq, "reported": got}))
                        break
                lhs = r[1].get(s[1] if s[0] == "assign" else sref_sig(s[1]), [])
                if not lhs or lhs[-1][0] != "WRITE" or any(t != "READ" for t, _ in lhs[:-1]) or \
                        len({l for acc in r[1].values() for _, l in acc}) != 1:
                    prop_fail.append((None, {"program": txt, "statement_path": list(p), "why": "order: the write of the "
                                             "assignment target is not the last access / not at the statement's location",
                                             "reported": r[1]}))
            # correspondence case
            if expressible(s):
                nm = mf.Names()
                for x in sorted(xnames([s], set())):
                    nm.get(x)
                lenient = contains_gap_form(s)
                coq_cases.append("(AObs (%s, %s, %d%%nat, %s))" % ("[" + xstmt_to_coq(s, nm) + "]", obs_to_coq(r[1], nm), r[2],
                                                            "true" if lenient else "false"))
                case_info.append((pi, p, s, r, lenient, txt))
            elif has_sref(s):
                nm = mf.Names()
                for x in sorted(xnames([s], set())):
                    nm.get(x)
                fs = fstmt_to_coq(s, nm)
                st = None if fs else sstmt_to_coq(s, nm)
                ctx.hist("struct_stmt_coq_form", "StructX" if fs else "Struct" if st else "none (property only)")
                if fs:
                    coq_cases.append("(AFs %s %s %s %d%%nat)" % (fs[0], fs[1], obs_to_coq(r[1], nm), r[2]))
                    case_info.append((pi, p, s, r, contains_gap_form(s), txt))
                elif st:
                    coq_cases.append("(ASt %s %s %s %d%%nat)" % (st[0], st[1], obs_to_coq(r[1], nm), r[2]))
                    case_info.append((pi, p, s, r, contains_gap_form(s), txt))
        # whole routine body (list of nodes)
        if whole[0] == "ok":
            rd = set().union(*[rec.reads.get((i,), set()) for i in range(len(stmts))]) if stmts else set()
            wr = set().union(*[rec.writes.get((i,), set()) for i in range(len(stmts))]) if stmts else set()
            miss[()] = missing(whole[1], rd, wr)
            if all(expressible(s) for s in stmts):
                nm = mf.Names()
                for x in sorted(xnames(stmts, set())):
                    nm.get(x)
                lenient = any(contains_gap_form(s) for s in stmts)
                coq_cases.append("(AObs (%s, %s, %d%%nat, %s))" % ("[" + "; ".join(xstmt_to_coq(s, nm) for s in stmts) + "]",
                                                            obs_to_coq(whole[1], nm), whole[2], "true" if lenient else "false"))
                case_info.append((pi, (), stmts, whole, lenient, txt))
        elif whole[0] == "error":
            prop_fail.append((None, {"program": txt, "statement_path": [], "implementation_raised": whole[1]}))
        # ---- attribute each uncovered access to the innermost statement that fails to report it
        by_path = {p: (s, n) for p, s, n in pairs}
        for p in sorted(miss, key=lambda q: -len(q)):
            own = set(miss[p])
            for q in miss:
                if q != p and len(q) > len(p) and q[:len(p)] == p:
                    own -= miss[q]
            if not own:
                continue
            if p == () or by_path[p][0][0] in ("if", "do", "while"):
                prop_fail.append((None, {"program": txt, "statement_path": list(p), "why": "compound statement does not report "
                                         "accesses that its parts perform", "not_reported": sorted(own),
                                         "reported": reports[p][1] if p else whole[1]}))
                continue
            s, n = by_path[p]
            key = classify(s, n, own)
            gap_seen[key] = gap_seen.get(key, 0) + 1
            prop_fail.append((key, {"program": txt, "statement": xstmts_to_fortran([s], "")[0], "statement_path": list(p),
                                    "not_reported": sorted(own), "reported": reports[p][1],
                                    "replay": "FortranReader().psyir_from_source(program); VariablesAccessInfo(<statement node>)"
                                              + ("; the Call is rebuilt with IntrinsicCall.create" if s[0] == "call" and s[1] == "intrinsic" else "")}))
        if samples < 4 and origin == "random" and len(stmts) > 1:
            samples += 1
            ctx.sample({"program": "\n".join(xstmts_to_fortran(stmts, "")), "report_whole": whole[1] if whole[0] == "ok" else whole,
                        "interp": results})

    ctx.log("implementation reports + interpreter done")
    # ---- wider PSyIR shapes (reductions, array sections, structure members): the property only
    for st, r, m, wtxt, wkey in wider_shapes(reader):
        ctx.hist("wider_shapes", r[0])
        ctx.count(("wider", st, sorted(r[1].items()) if r[0] == "ok" else r[1]), r[0] == "ok")
        if r[0] == "error":
            prop_fail.append((None, {"program": wtxt, "statement": st, "implementation_raised": r[1]}))
        elif m:
            if wkey:
                gap_seen[wkey] = gap_seen.get(wkey, 0) + 1
            prop_fail.append((wkey, {"program": wtxt, "statement": st, "not_reported": sorted(m), "reported": r[1],
                                     "why": "hand-specified read/write set of the statement is not covered by the report"}))
    # ---- refused shapes
    for t in REFUSED_SHAPES:
        g = XGen(ctx.rng("tg"))
        g.arrays = {"a": [(1, 6)], "b": [(1, 6)], "c": [(0, 6)], "d": [(1, 4), (1, 4)]}
        txt = program_text(t, g.decls() + EXTRA_DECLS)
        rt = [r for r in reader.psyir_from_source(txt).walk(Routine) if r.name == "t"][0]
        r = impl_report(rt.children)
        ctx.hist("refused_shapes", r[0])
        if r[0] == "ok":
            # the implementation now answers: the property must hold of the answer
            rec = Rec()
            vals, bnds = g.store()
            xinterp(t, vals, bnds, rec)
            rd = set().union(*[rec.reads.get((i,), set()) for i in range(len(t))])
            wr = set().union(*[rec.writes.get((i,), set()) for i in range(len(t))])
            m = missing(r[1], rd, wr)
            if m:
                prop_fail.append((None, {"program": txt, "not_reported": sorted(m), "reported": r[1]}))
    nm = mf.Names().collect([])
    for x in "abcdijkmnst":
        nm.get(x)
    okshape = ["(AOk %s false)" % mf.stmts_to_coq(t, nm) for t in REFUSED_SHAPES] + \
              ["(AOk %s true)" % mf.stmts_to_coq(t, nm) for t in targeted()
               if all(is_core(s) and not has_sref(s) for s in t)]

    # ---- model vs implementation, interpreter vs Coq, refusal table: one sharded evaluation
    allc = list(coq_cases) + ["(AXv %s)" % c for c in xv_cases] + okshape
    uniq = {}                                          # identical terms (EXIT, RETURN, repeated shapes) are evaluated once
    for i, c in enumerate(allc):
        uniq.setdefault(c, []).append(i)
    terms = sorted(uniq)
    ctx.rng("shuffle").shuffle(terms)                  # spread the expensive (AXv) cases over the shards
    bad = set()
    for j in ctx.coq_eval_failing(HEADER, "c11_any", "c11_any_check", terms, shard=400):
        bad.update(uniq[terms[j]])
    ctx.notes["distinct_coq_terms"] = len(terms)
    n1, n2 = len(coq_cases), len(coq_cases) + len(xv_cases)
    failing = sorted(i for i in bad if i < n1)
    xv_bad = sorted(i - n1 for i in bad if n1 <= i < n2)
    bad_ok = sorted(i - n2 for i in bad if i >= n2)
    strict_fail = [i for i in failing if not case_info[i][4]]
    lenient_fail = [i for i in failing if case_info[i][4]]
    ctx.log("Coq evaluation done (%d cases)" % len(allc))
    ctx.cov["disagreements_checked"] = len(failing)
    ctx.notes["statement_nodes"] = n_nodes
    ctx.notes["nodes_executed_with_accesses"] = n_exec_nodes
    ctx.notes["refused_by_implementation"] = n_refused
    ctx.notes["model_cases"] = len(coq_cases)
    ctx.notes["lenient_cases_differing"] = len(lenient_fail)
    ctx.notes["interpreter_vs_coq_cases"] = len(xv_cases)
    ctx.notes["gap_reason_codes_seen"] = gap_seen
    ctx.log("programs=%d nodes=%d (executed with accesses %d) model cases=%d differing strict=%d lenient=%d; "
            "interp-vs-Coq cases=%d differing=%d; property failures=%d %s"
            % (len(progs), n_nodes, n_exec_nodes, len(coq_cases), len(strict_fail), len(lenient_fail), len(xv_cases),
               len(xv_bad), len(prop_fail), gap_seen))

    # ---- verdicts
    for i in xv_bad[:2]:
        ctx.violation({"glue": "check interpreter != Coq xexec", "program": xv_info[i][1]}, no_input=True)
    for i in bad_ok[:2]:
        ctx.violation({"glue": "accesses_ok differs from the expected refusal table", "index": i}, no_input=True)
    reported = set()
    unknown = 0
    for key, det in prop_fail:
        if key is None:
            unknown += 1
            if unknown <= 3:
                ctx.violation(dict(det, property="C11"))
            continue
        if key in reported:
            continue
        reported.add(key)
        ctx.finding(key, "variable modified/read by the statement is not reported so (%s)" % key, det)
    if not unknown and not ctx.violations and (strict_fail or not ok):
        i = strict_fail[0] if strict_fail else None
        first = None
        if i is not None:
            pi, p, s, r, _, txt = case_info[i]
            nm = mf.Names()
            for x in sorted(xnames(s if p == () else [s], set())):
                nm.get(x)
            if p != () and has_sref(s):
                fs = fstmt_to_coq(s, nm)
                shown = ctx.coq_eval_show(HEADER, ["facc_stmt (enc_tbl2 %s) %s 0" % fs if fs else
                                                   "sacc_stmt (enc_tbl %s) %s 0" % sstmt_to_coq(s, nm)])
            else:
                term = "[" + "; ".join(xstmt_to_coq(x, nm) for x in (s if p == () else [s])) + "]"
                shown = ctx.coq_eval_show(HEADER, ["(xaccesses %s, snd (xacc_block %s 0))" % (term, term)])
            first = {"program": txt, "statement_path": list(p), "names": nm.ids, "implementation": r[1:], "model": shown}
        ctx.violation({"property": "C11",
                       "broken": "correspondence C11.Access/Ext (xaccesses) = VariablesAccessInfo" if strict_fail
                       else "proof obligations of Properties/C11.v", "proof_report": rep if not ok else None,
                       "first_differing_case": first, "n_differing": len(strict_fail)}, no_input=True)
