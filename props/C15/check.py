"""C15 — Copies of PSyIR subtrees are independent and equal.

Model: coq/C15/Model.v (Node.copy / ScopingNode._refine_copy / SymbolTable.deep_copy / <Symbol>.copy on
heaps of object identities).  Theorems: coq/Properties/C15.v.  Tie: correspondence.

For every generated program the harness reads it with the real frontend, optionally decorates it
(shadowing symbols in inner scopes), then for a selection of subtrees (every Routine / Container /
FileContainer, sampled Loops, IfBlocks, Schedules, Assignments, expressions):
  1. serialises subtree + reachable symbols/datatype objects/interface objects into the model's world,
  2. runs the real `copy()` and serialises what it produced (identity facts: which node / symbol /
     object is new, which is shared),
  3. lets Coq (vm_compute) check `refines` (implementation at least as independent as the model) and
     `agrees` (exactly the model),
  4. evaluates the property itself on the implementation: `==`, no shared node, references to symbols of
     copied scopes resolve to the copy's own tables, and — after random edit sequences on one side —
     the FortranWriter text of the other side is unchanged.
Every concrete failure is classified (site/reason); reasons listed open in known_findings.json print
KNOWN-FINDING, anything else is a VIOLATION."""
import difflib
import hashlib

from vlib import core, fortgen
from vlib import minifort as mf

# (small numbers on purpose: coqc spends ~5 ms elaborating every 7-digit decimal numeral)
OFF = 3000             # ids of new node objects   = id of the original + OFF
SOFF = 3000            # ids of new symbol objects = id of the original + SOFF
OOFF = 3000            # ids of new datatype / interface objects
ALIEN = 9000           # objects the harness cannot relate to anything


class OutOfSubset(Exception):
    pass


class CopyBroken(Exception):
    """the copy is structurally not a copy (cannot even be put in correspondence)"""


# ------------------------------------------------------------------ psyclone imports (lazy)
def P():
    import psyclone.psyir.nodes as N
    import psyclone.psyir.symbols as S
    return N, S


_WRITER = []


def write_tree(node):
    """FortranWriter text of a (sub)tree; a bare Schedule is written child by child; errors are part
    of the observable result."""
    from psyclone.psyir.backend.fortran import FortranWriter
    N, _ = P()
    if not _WRITER:
        _WRITER.append(FortranWriter())
    w = _WRITER[0]
    try:
        if type(node) is N.Schedule:
            return "".join(w(c) for c in node.children)
        return w(node)
    except Exception as e:                                   # noqa
        return "WRITER-ERROR %s: %s" % (type(e).__name__, str(e).split("\n")[0][:160])


# ------------------------------------------------------------------ program generator
FEATURES = ["bound_param", "kind_param", "init_ref", "dtype", "import", "args", "module", "function",
            "modkind", "save_init", "call", "section", "iface", "iface_imp", "modloop", "saveloop", "argloop"]


def gen_source(rng, k):
    """Fortran source exercising symbols inside datatypes / kinds / initial values, nested scopes, calls."""
    # (the reader turns any negative lower bound into an UnsupportedFortranType: keep bounds >= 0)
    arrays = {}
    for a in ["a", "b", "c"]:
        lb = rng.choice([1, 1, 0, 2, 3])
        arrays[a] = [(lb, lb + rng.choice([5, 6, 8]))]
    if rng.random() < 0.3:
        lb1, lb2 = rng.choice([1, 0]), rng.choice([1, 2])
        arrays["d"] = [(lb1, lb1 + 4), (lb2, lb2 + 4)]
    g = fortgen.Gen(rng, arrays=arrays, max_depth=2, allow_exit=False)
    stmts = g.program(rng.randint(2, 4))
    feats = set(f for f in FEATURES if rng.random() < 0.45)
    if "save_init" in feats:
        feats.add("init_ref")
    if feats & {"modkind", "function", "call", "iface", "iface_imp", "modloop"}:
        feats.add("module")
    decl, body, pre = [], [], []
    args = []
    nbval = None
    if "bound_param" in feats:
        nbval = g.arrays["a"][0][1]
        decl.append("integer, parameter :: nb = %d" % nbval)
    if "kind_param" in feats:
        decl.append("integer, parameter :: ik = 4")
        decl.append("integer(kind=ik) :: q")
        body.append("q = 2_ik + s")
    if "init_ref" in feats:
        decl.append("integer, parameter :: k0 = 2")
        decl.append("integer, parameter :: k1 = k0 + 1")
        body.append("t = k1 + k0")
    if "save_init" in feats:
        decl.append("integer :: sv = k0")
        body.append("sv = sv + 1")
    if "dtype" in feats:
        decl += ["type :: tt", "  integer :: f", "  integer :: arr(4)", "end type tt", "type(tt) :: tv"]
        body += ["tv%f = s", "tv%arr(2) = tv%f + 1"]
    if "section" in feats:                                  # array sections: Range nodes with Literal children
        lo = max(arrays["a"][0][0], arrays["b"][0][0])
        hi = min(arrays["a"][0][1], arrays["b"][0][1])
        body.append("a(%d:%d) = b(%d:%d) + 1" % (lo, hi, lo, hi))
        body.append("c(%d:%d:2) = s" % (arrays["c"][0][0], arrays["c"][0][1]))
    if "import" in feats:
        pre.append("use ext%d, only: ev" % k)
        body.append("s = s + ev")
    scal = list(fortgen.LOOPVARS + fortgen.SCALARS)
    if "args" in feats:
        args = ["n", "x"]
        decl.append("integer, intent(in) :: n")
        decl.append("integer, intent(inout) :: x(n)")
        body.append("x(1) = n")
        scal.remove("n")
    for v in scal:
        decl.append("integer :: %s" % v)
    for a, bs in sorted(g.arrays.items()):
        dims = []
        for lb, ub in bs:
            # (a negative lower bound next to a symbolic upper bound is read as UnsupportedFortranType)
            dims.append("%d:%s" % (lb, "nb" if (nbval is not None and ub == nbval and lb >= 0) else str(ub)))
        decl.append("integer, dimension(%s) :: %s" % (", ".join(dims), a))
    if "modkind" in feats:
        body.append("g = 1_wp + s")
    if "call" in feats:
        body.append("call sub2(s)")
    if "function" in feats:
        body.append("t = f2(s)")
    if "iface" in feats:
        body.append("call gen(s)")
    # loop variables / references of every interface kind declared in a copied scope
    if "modloop" in feats:                                  # module variable (DefaultModuleInterface)
        body += ["do gi = 1, 3", "  gacc = gacc + gi", "end do"]
    if "saveloop" in feats:                                 # saved local (StaticInterface)
        decl.append("integer, save :: si")
        decl.append("integer, save :: sacc")
        body += ["do si = 1, 2", "  sacc = sacc + si + s", "end do"]
    if "argloop" in feats:                                  # dummy argument (ArgumentInterface)
        args = args + ["ia"]
        decl.append("integer, intent(inout) :: ia")
        body += ["do ia = 1, 2", "  s = s + ia", "end do"]
    body_lines = mf.stmts_to_fortran(stmts) + ["  " + b for b in body]
    rng.shuffle(body)
    head = "subroutine s%d(%s)" % (k, ", ".join(args))
    rt = [head] + ["  " + x for x in pre] + ["  " + x for x in decl] + body_lines + ["end subroutine s%d" % k]
    if "module" not in feats:
        return "\n".join(rt) + "\n", sorted(feats)
    mod = ["module mod%d" % k]
    if "import" in feats and rng.random() < 0.5:
        mod.append("  use gext%d, only: gv" % k)
    if "iface_imp" in feats:
        mod.append("  use iext%d, only: ext_a, ext_b" % k)
    if "modkind" in feats:
        mod += ["  integer, parameter :: wp = 4", "  integer(kind=wp) :: g"]
    if "modloop" in feats:
        mod += ["  integer :: gi", "  integer :: gacc"]
    if "iface" in feats:                                    # generic interface over module procedures
        mod += ["  interface gen", "    module procedure :: sub2, sub3", "  end interface gen"]
    if "iface_imp" in feats:                                # ... and over imported procedures
        mod += ["  interface gen2", "    procedure ext_a, ext_b", "  end interface gen2"]
    mod.append("contains")
    mod += ["  " + x for x in rt]
    if "iface" in feats:
        mod += ["  subroutine sub3(z)", "    real, intent(inout) :: z", "    z = z + 1.0", "  end subroutine sub3"]
    if "call" in feats or "iface" in feats:
        mod += ["  subroutine sub2(y)", "    integer, intent(inout) :: y", "    integer :: loc",
                "    loc = y", "    y = loc + 1", "  end subroutine sub2"]
    if "function" in feats:
        mod += ["  integer function f2(a)", "    integer, intent(in) :: a", "    integer :: tmp",
                "    tmp = a", "    f2 = tmp + 1", "  end function f2"]
    mod.append("end module mod%d" % k)
    return "\n".join(mod) + "\n", sorted(feats)


def decorate(rng, tree):
    """shadowing: declare, in inner scopes (loop / if bodies), symbols whose names clash with symbols of
    the enclosing routine, and use them there."""
    N, S = P()
    n_done = 0
    for sched in tree.walk(N.Schedule):
        if isinstance(sched, N.Routine) or rng.random() > 0.3:
            continue
        rt = sched.ancestor(N.Routine)
        if rt is None:
            continue
        names = [s.name for s in rt.symbol_table.symbols if isinstance(s, S.DataSymbol) and s.is_automatic
                 and not s.is_array]
        if not names:
            continue
        nm = rng.choice(names)
        if nm in sched.symbol_table._symbols:
            continue
        inner = S.DataSymbol(nm, S.INTEGER_TYPE)
        sched.symbol_table.add(inner)
        sched.addchild(N.Assignment.create(N.Reference(inner), N.Literal(str(rng.randint(1, 9)), S.INTEGER_TYPE)))
        n_done += 1
    return n_done


# ------------------------------------------------------------------ trees built through the PSyIR API
# (the frontend lower-cases every identifier; transformations and PSy-layer generation create symbols
#  through the API with mixed-case names: stored name <> normalised table key)
MIXED = ["tmpVal", "jIdx", "NLayers", "UPPER", "Work_Array", "iDx", "df_Loop", "cellCount", "ZZ", "Tmp_2"]


def _lit(v):
    N, S = P()
    return N.Literal(str(v), S.INTEGER_TYPE)


def _add(a, b):
    N, _ = P()
    return N.BinaryOperation.create(N.BinaryOperation.Operator.ADD, a, b)


def build_api_program(rng, k):
    """a module built entirely through the API: mixed/upper-case data symbols, loop variable, routine and
    container symbols, a tag, a module-level kind parameter, a sibling call, and — in the loop body's
    own scope — a name that differs from an outer one only in case"""
    N, S = P()
    cont = N.Container("MixedMod%d" % k)
    ct = cont.symbol_table
    gcount = ct.new_symbol("GlobalCount", symbol_type=S.DataSymbol, datatype=S.INTEGER_TYPE)
    use_kind = rng.random() < 0.4
    if use_kind:
        rdef = ct.new_symbol("I_Def", symbol_type=S.DataSymbol, datatype=S.INTEGER_TYPE, is_constant=True,
                             initial_value=_lit(4))
    helper = N.Routine.create("HelperSub", S.SymbolTable(), [])
    ht = helper.symbol_table
    y = S.DataSymbol("yArg", S.INTEGER_TYPE, interface=S.ArgumentInterface(S.ArgumentInterface.Access.READWRITE))
    ht.add(y)
    ht.specify_argument_list([y])
    loc = ht.new_symbol("LocTmp", symbol_type=S.DataSymbol, datatype=S.INTEGER_TYPE)
    helper.addchild(N.Assignment.create(N.Reference(loc), N.Reference(y)))
    helper.addchild(N.Assignment.create(N.Reference(y), _add(N.Reference(loc), _lit(1))))
    if rng.random() < 0.6:                                  # a dummy argument used as loop variable
        helper.addchild(N.Loop.create(y, _lit(1), _lit(2), _lit(1),
                                      [N.Assignment.create(N.Reference(loc), _add(N.Reference(loc), N.Reference(y)))]))
    hsym = ct.new_symbol("HelperSub", symbol_type=S.RoutineSymbol)
    helper2 = N.Routine.create("Helper_Two", S.SymbolTable(), [])
    z = S.DataSymbol("zArg", S.REAL_TYPE, interface=S.ArgumentInterface(S.ArgumentInterface.Access.READWRITE))
    helper2.symbol_table.add(z)
    helper2.symbol_table.specify_argument_list([z])
    helper2.addchild(N.Assignment.create(N.Reference(z), N.Literal("1.0", S.REAL_TYPE)))
    h2sym = S.RoutineSymbol("Helper_Two")
    if rng.random() < 0.5:
        ct.add(h2sym)                                       # member declared before the interface (frontend order)
    ct.add(S.GenericInterfaceSymbol("GenIface", [(hsym, True), (h2sym, True)]))
    if h2sym.name.lower() not in ct._symbols:
        ct.add(h2sym)                                       # ... or after it (the order rename_symbol leaves)
    main = N.Routine.create(rng.choice(["DoWork", "COMPUTE_All", "invoke_0_Kern"]), S.SymbolTable(), [])
    mt = main.symbol_table
    names = rng.sample(MIXED, 4)
    npts = mt.new_symbol("nPoints", symbol_type=S.DataSymbol, datatype=S.INTEGER_TYPE, is_constant=True,
                         initial_value=_lit(8))
    bound = N.Reference(npts) if rng.random() < 0.35 else _lit(8)
    arr = mt.new_symbol("Field_A", symbol_type=S.DataSymbol, datatype=S.ArrayType(S.INTEGER_TYPE, [bound]))
    idx = mt.new_symbol(names[0], symbol_type=S.DataSymbol, datatype=S.INTEGER_TYPE)
    tmp = mt.new_symbol(names[1], symbol_type=S.DataSymbol, datatype=S.INTEGER_TYPE, tag="Tag_" + names[1])
    q = mt.new_symbol(names[2], symbol_type=S.DataSymbol,
                      datatype=S.ScalarType(S.ScalarType.Intrinsic.INTEGER, rdef) if use_kind else S.INTEGER_TYPE)
    main.addchild(N.Assignment.create(N.Reference(tmp), _add(N.Reference(gcount), _lit(1))))
    body = N.Assignment.create(N.ArrayReference.create(arr, [N.Reference(idx)]),
                               _add(N.ArrayReference.create(arr, [N.Reference(idx)]), N.Reference(tmp)))
    loop = N.Loop.create(idx, _lit(1), N.Reference(npts), _lit(1), [body])
    main.addchild(loop)
    inner = S.DataSymbol(tmp.name.swapcase(), S.INTEGER_TYPE)
    loop.loop_body.symbol_table.add(inner)
    loop.loop_body.addchild(N.Assignment.create(N.Reference(inner), _add(N.Reference(idx), N.Reference(tmp))))
    main.addchild(N.IfBlock.create(
        N.BinaryOperation.create(N.BinaryOperation.Operator.GT, N.Reference(tmp), _lit(2)),
        [N.Assignment.create(N.Reference(q), N.Reference(tmp))], [N.Assignment.create(N.Reference(q), _lit(0))]))
    if rng.random() < 0.6:                                  # a module variable used as loop variable
        gidx = ct.new_symbol("gIdx", symbol_type=S.DataSymbol, datatype=S.INTEGER_TYPE)
        main.addchild(N.Loop.create(gidx, _lit(1), _lit(3), _lit(1),
                                    [N.Assignment.create(N.Reference(gcount), _add(N.Reference(gcount), N.Reference(gidx)))]))
    if rng.random() < 0.5:                                  # a saved (static) local used as loop variable
        sidx = mt.new_symbol("sIdx", symbol_type=S.DataSymbol, datatype=S.INTEGER_TYPE, interface=S.StaticInterface())
        main.addchild(N.Loop.create(sidx, _lit(1), _lit(2), _lit(1),
                                    [N.Assignment.create(N.Reference(tmp), _add(N.Reference(tmp), N.Reference(sidx)))]))
    main.addchild(N.Call.create(hsym, [N.Reference(tmp)]))
    main.addchild(N.Assignment.create(N.Reference(gcount), N.Reference(q)))
    cont.addchild(main)
    cont.addchild(helper)
    cont.addchild(helper2)
    if rng.random() < 0.5:
        fc = N.FileContainer("file%d" % k)
        fc.addchild(cont)
        return fc
    return cont


def api_decorate(rng, tree):
    """what a transformation script does to a tree read from Fortran: new mixed-case temporaries and loop
    counters (new_symbol / DataSymbol), a tag, statements using them, and a case-only clash in a nested scope"""
    N, S = P()
    done = 0
    for rt in tree.walk(N.Routine):
        if rng.random() > 0.6:
            continue
        table = rt.symbol_table
        names = rng.sample(MIXED, 3)
        tmp = table.new_symbol(names[0], symbol_type=S.DataSymbol, datatype=S.INTEGER_TYPE, tag="Tag_" + names[0])
        jdx = table.new_symbol(names[1], symbol_type=S.DataSymbol, datatype=S.INTEGER_TYPE)
        rt.addchild(N.Assignment.create(N.Reference(tmp), _lit(rng.randint(1, 9))))
        body = N.Assignment.create(N.Reference(tmp), _add(N.Reference(tmp), N.Reference(jdx)))
        loop = N.Loop.create(jdx, _lit(1), _lit(3), _lit(1), [body])
        rt.addchild(loop)
        if rng.random() < 0.6:
            inner = S.DataSymbol(tmp.name.upper() if tmp.name.upper() != tmp.name else tmp.name.lower(), S.INTEGER_TYPE)
            loop.loop_body.symbol_table.add(inner)
            loop.loop_body.addchild(N.Assignment.create(N.Reference(inner), N.Reference(jdx)))
        done += 1
    return done


# ------------------------------------------------------------------ serialiser (fail-closed)
NODE_CLASSES = {"FileContainer", "Container", "Routine", "Schedule", "Loop", "IfBlock", "Assignment",
                "Reference", "ArrayReference", "StructureReference", "ArrayOfStructuresReference",
                "Member", "ArrayMember", "StructureMember", "ArrayOfStructuresMember", "Literal",
                "BinaryOperation", "UnaryOperation", "Call", "IntrinsicCall", "Range", "Return"}
TYPED = {"DataSymbol", "DataTypeSymbol", "RoutineSymbol", "IntrinsicSymbol", "GenericInterfaceSymbol"}
UNTYPED = {"Symbol", "ContainerSymbol"}


def intf_pay(itf):
    txt = str(itf)
    return "intf:%s:%s" % (type(itf).__name__, "" if " object at 0x" in txt else txt)


class Ser:
    """Python objects -> model identities, for one program."""

    def __init__(self):
        self.keep = []
        self.nid, self.sid, self.oid = {}, {}, {}
        self.syms = {}                      # sid -> (name, typed, sdt, init, intf)
        self.objs = {0: ([], [], 0)}        # oid -> (bounds, osyms, pay)
        self.names = {}
        self.bases = {}
        self.todo = []

    def intern(self, s):
        if s not in self.names:
            self.names[s] = len(self.names) + 1
        return self.names[s]

    def name_code(self, name):
        """a Fortran name as the model sees it: 16 * <id of the lower-cased spelling> + <case variant>;
        variant 0 is the lower-case spelling (= the normalised table key), so `norm` in the model is
        SymbolTable._normalize"""
        low = name.lower()
        if low not in self.bases:
            self.bases[low] = (len(self.bases) + 1, [low])
        base, variants = self.bases[low]
        if name not in variants:
            if len(variants) >= 16:
                raise OutOfSubset("more than 16 case variants of a name")
            variants.append(name)
        return 16 * base + variants.index(name)

    # --- identities
    def node_id(self, n):
        if id(n) not in self.nid:
            self.keep.append(n)
            self.nid[id(n)] = len(self.nid) + 1
        return self.nid[id(n)]

    def sym_id(self, s):
        if id(s) not in self.sid:
            self.keep.append(s)
            self.sid[id(s)] = len(self.sid) + 1
            self.todo.append(s)
        return self.sid[id(s)]

    def obj_id(self, key, o):
        if key not in self.oid:
            self.keep.append(o)
            self.oid[key] = len(self.oid) + 1
        return self.oid[key]

    # --- nodes
    def tag(self, n):
        N, S = P()
        k = type(n).__name__
        if k not in NODE_CLASSES:
            raise OutOfSubset("node class " + k)
        extra = ""
        if isinstance(n, N.Literal):
            prec = n.datatype.precision
            extra = "%s|%s|%s" % (n.value, n.datatype.intrinsic.name,
                                  "sym" if isinstance(prec, S.DataSymbol) else str(prec))
        elif isinstance(n, (N.BinaryOperation, N.UnaryOperation)):
            extra = n.operator.name
        elif isinstance(n, N.IntrinsicCall):
            extra = n.intrinsic.name + "|" + repr(n.argument_names)
        elif isinstance(n, N.Call):
            extra = repr(n.argument_names)
        elif isinstance(n, N.Routine):
            extra = "%s|%s|%s" % (n.name, n.is_program, n.return_symbol.name if n.return_symbol else "")
        elif isinstance(n, N.Container):
            extra = n.name
        elif isinstance(n, N.Member):
            extra = n.name
        return self.intern(k + ":" + extra)

    def slot(self, n, symf):
        N, S = P()
        if isinstance(n, N.Reference):
            return ("R", symf(n.symbol))
        if isinstance(n, N.Loop):
            return ("R", symf(n._variable)) if n._variable is not None else None
        if isinstance(n, N.Literal) and isinstance(n.datatype.precision, S.DataSymbol):
            return ("P", symf(n.datatype.precision))
        return None

    def node(self, n):
        N, _ = P()
        tab = None
        if isinstance(n, N.ScopingNode):
            tab = [(self.name_code(k), self.sym_id(s)) for k, s in n.symbol_table._symbols.items()]
        return (self.node_id(n), self.tag(n), self.slot(n, self.sym_id), tab, [self.node(c) for c in n.children])

    # --- datatypes
    def collect(self, dt, symf, nodef, where=""):
        """-> (bounds nodes, mentioned symbols, payload string, path kinds [(kind, object)])"""
        _, S = P()
        bounds, osy, kinds = [], [], []
        if isinstance(dt, S.DataTypeSymbol):
            return [], [symf(dt)], "typesym", [(where + "type-symbol", dt)]
        kinds.append(("datatype-object", dt))
        k = type(dt).__name__
        if k == "ScalarType":
            if isinstance(dt.precision, S.DataSymbol):
                osy.append(symf(dt.precision))
                kinds.append((where + "precision", dt.precision))
                pay = "Scalar:%s:sym" % dt.intrinsic.name
            else:
                pay = "Scalar:%s:%s" % (dt.intrinsic.name, dt.precision)
        elif k == "ArrayType":
            pay = "Array("
            for d in dt._shape:            # (.shape re-validates and may raise after an edit)
                if isinstance(d, S.ArrayType.ArrayBounds):
                    for e in (d.lower, d.upper):
                        if isinstance(e, S.ArrayType.Extent):
                            pay += e.name + ","
                        else:
                            bounds.append(nodef(e))
                            kinds.append((where + "array-bound", e))
                    pay += ";"
                else:
                    pay += d.name + ";"
            b2, o2, p2, k2 = self.collect(dt._datatype, symf, nodef, where)
            bounds += b2
            osy += o2
            kinds += k2
            pay += ")" + p2
        elif k == "StructureType":
            pay = "Struct{"
            for c in dt.components.values():
                b2, o2, p2, k2 = self.collect(c.datatype, symf, nodef, "structure-component:")
                bounds += b2
                osy += o2
                kinds += k2
                pay += "%s:%s:%s;" % (c.name, c.visibility.name, p2)
                if c.initial_value is not None:
                    bounds.append(nodef(c.initial_value))
                    kinds.append(("structure-component:initial-value", c.initial_value))
            pay += "}"
        elif k in ("NoType", "UnresolvedType"):
            pay = k
        else:
            raise OutOfSubset("datatype " + k)
        return bounds, osy, pay, kinds

    def dt_obj(self, dt):
        _, S = P()
        key = ("astype", id(dt)) if isinstance(dt, S.DataTypeSymbol) else id(dt)
        new = key not in self.oid
        o = self.obj_id(key, dt)
        if new:
            b, sy, pay, _ = self.collect(dt, self.sym_id, self.node)
            self.objs[o] = (b, sy, self.intern(pay))
        return o

    def intf_obj(self, itf):
        new = id(itf) not in self.oid
        o = self.obj_id(id(itf), itf)
        if new:
            self.objs[o] = ([], [], self.intern(intf_pay(itf)))
        return o

    def flush(self):
        _, S = P()
        while self.todo:
            s = self.todo.pop()
            k = type(s).__name__
            if k in TYPED:
                typed = True
            elif k in UNTYPED:
                typed = False
            else:
                raise OutOfSubset("symbol class " + k)
            sdt = self.dt_obj(s.datatype) if typed else 0
            init = None
            if isinstance(s, S.DataSymbol) and s.initial_value is not None:
                init = self.node(s.initial_value)
            if isinstance(s.interface, S.ImportInterface):
                intf = ("I", self.sym_id(s.interface.container_symbol))
            else:
                intf = ("L", self.intf_obj(s.interface))
            mem = [self.sym_id(r.symbol) for r in s.routines] if isinstance(s, S.GenericInterfaceSymbol) else []
            self.syms[self.sid[id(s)]] = (self.name_code(s.name), typed, sdt, init, intf, mem)


# model-side helpers on serialised structures
def t_slots(t, kind=None):
    out = []
    if t[2] is not None and (kind is None or t[2][0] == kind):
        out.append(t[2][1])
    for c in t[4]:
        out += t_slots(c, kind)
    return out


def t_owned(t):
    out = [s for _, s in (t[3] or [])]
    for c in t[4]:
        out += t_owned(c)
    return out


def obj_syms(ser, o):
    b, sy, _ = ser.objs[o]
    out = list(sy)
    for e in b:
        out += t_slots(e)
    return out


def attr_syms(ser, s):
    _, _, sdt, init, intf, _ = ser.syms[s]
    out = obj_syms(ser, sdt)
    if init is not None:
        out += t_slots(init)
    if intf[0] == "L":
        out += obj_syms(ser, intf[1])
    return out


def closure(ser, t):
    """symbols and objects reachable from subtree t (what the case's world must contain)"""
    ss, oo, todo = set(), {0}, list(t_slots(t) + t_owned(t))
    while todo:
        s = todo.pop()
        if s in ss:
            continue
        ss.add(s)
        _, _, sdt, init, intf, mem = ser.syms[s]
        oo.add(sdt)
        more = obj_syms(ser, sdt) + list(mem)
        if init is not None:
            more += t_slots(init)
        if intf[0] == "L":
            oo.add(intf[1])
            more += obj_syms(ser, intf[1])
        else:
            more.append(intf[1])
        todo += more
    return ss, oo


def safe_py(ser, t):
    own = set(t_owned(t))
    ment = t_slots(t, "P")
    for s in t_owned(t):
        ment += attr_syms(ser, s)
    return not any(m in own for m in ment)


# ------------------------------------------------------------------ observation of the real copy
class Obs:
    """serialise the implementation's copy relative to the original's identities"""

    def __init__(self, ser):
        self.ser = ser
        self.csym = {}          # id(copy symbol object) -> model id
        self.keep = []
        self.alien = ALIEN
        self.cobjs = {}         # new objects: id -> content
        self.csyms = {}         # new symbols: id -> record
        self.pairs = []         # (orig symbol, copy symbol) of corresponding table entries

    def fresh_alien(self):
        self.alien += 1
        return self.alien

    def sym(self, s):
        if id(s) in self.csym:
            return self.csym[id(s)]
        if id(s) in self.ser.sid:
            return self.ser.sid[id(s)]
        self.keep.append(s)
        self.csym[id(s)] = self.fresh_alien()
        return self.csym[id(s)]

    def tables(self, o, c):
        N, _ = P()
        if type(o) is not type(c) or len(o.children) != len(c.children):
            raise CopyBroken("structure differs at %s / %s" % (type(o).__name__, type(c).__name__))
        if isinstance(o, N.ScopingNode):
            to, tc = list(o.symbol_table._symbols.items()), list(c.symbol_table._symbols.items())
            if len(to) != len(tc):
                raise CopyBroken("symbol table sizes differ in %s" % type(o).__name__)
            for (ko, so), (kc, sc) in zip(to, tc):
                self.keep.append(sc)
                if id(sc) in self.ser.sid:
                    self.csym[id(sc)] = self.ser.sid[id(sc)]          # the very same symbol object: shared
                else:
                    self.csym[id(sc)] = self.ser.sid[id(so)] + SOFF
                self.pairs.append((so, sc))
        for a, b in zip(o.children, c.children):
            self.tables(a, b)

    def node(self, o, c, expr=False):
        N, _ = P()
        if type(o) is not type(c) or len(o.children) != len(c.children):
            raise CopyBroken("structure differs at %s / %s" % (type(o).__name__, type(c).__name__))
        nid = self.ser.nid[id(c)] if id(c) in self.ser.nid else self.ser.nid[id(o)] + OFF
        tab = None
        if isinstance(c, N.ScopingNode) and not expr:
            tab = [(self.ser.name_code(k), self.sym(s)) for k, s in c.symbol_table._symbols.items()]
        return (nid, self.ser.tag(c), self.ser.slot(c, self.sym), tab,
                [self.node(a, b, expr) for a, b in zip(o.children, c.children)])

    def loose_node(self, c):
        """an expression inside a NEW datatype object: identities of its nodes are not compared"""
        return (0, self.ser.tag(c), self.ser.slot(c, self.sym), None, [self.loose_node(x) for x in c.children])

    def obj(self, o_obj, c_obj, is_intf):
        """object of the copy vs the corresponding object of the original -> model id"""
        _, S = P()
        ser = self.ser
        if is_intf:
            ko, kc = id(o_obj), id(c_obj)
        else:
            ko = ("astype", id(o_obj)) if isinstance(o_obj, S.DataTypeSymbol) else id(o_obj)
            kc = ("astype", id(c_obj)) if isinstance(c_obj, S.DataTypeSymbol) else id(c_obj)
        if kc in ser.oid:
            return ser.oid[kc]
        if isinstance(c_obj, S.DataTypeSymbol):
            # `type(tt) :: x` whose tt is not a known object: a different (e.g. the copy's own) type symbol
            new = ser.oid[ko] + OOFF
            self.cobjs[new] = ([], [self.sym(c_obj)], ser.intern("typesym"))
            return new
        new = ser.oid[ko] + OOFF
        self.keep.append(c_obj)
        if is_intf:
            self.cobjs[new] = ([], [], ser.intern(intf_pay(c_obj)))
        else:
            b, sy, pay, _ = ser.collect(c_obj, self.sym, self.loose_node)
            self.cobjs[new] = (b, sy, ser.intern(pay))
        return new

    def symbols(self):
        _, S = P()
        ser = self.ser
        for so, sc in self.pairs:
            cid = self.csym[id(sc)]
            if cid < SOFF:
                continue                      # shared symbol object: nothing new to describe
            k = type(sc).__name__
            typed = k in TYPED
            if k not in TYPED and k not in UNTYPED:
                raise OutOfSubset("symbol class " + k)
            if type(so) is not type(sc):
                raise CopyBroken("symbol class changed: %s -> %s" % (type(so).__name__, k))
            sdt = self.obj(so.datatype, sc.datatype, False) if typed else 0
            init = None
            if isinstance(sc, S.DataSymbol) and sc.initial_value is not None:
                if so.initial_value is None:
                    raise CopyBroken("initial value appeared")
                init = self.node(so.initial_value, sc.initial_value, expr=True)
            elif isinstance(so, S.DataSymbol) and so.initial_value is not None:
                raise CopyBroken("initial value lost")
            if isinstance(sc.interface, S.ImportInterface):
                intf = ("I", self.sym(sc.interface.container_symbol))
            else:
                if isinstance(so.interface, S.ImportInterface):
                    raise CopyBroken("import interface lost")
                intf = ("L", self.obj(so.interface, sc.interface, True))
            mem = [self.sym(r.symbol) for r in sc.routines] if isinstance(sc, S.GenericInterfaceSymbol) else []
            self.csyms[cid] = (ser.name_code(sc.name), typed, sdt, init, intf, mem)


# ------------------------------------------------------------------ Coq printing
# (numbers in hexadecimal: coqc elaborates a distinct decimal numeral of scope N in ~14 ms, a hexadecimal one in 0.5 ms)
def H(n):
    return hex(n)


def cq_slot(s):
    return "NoSlot" if s is None else "(%s %s)" % ("Rebound" if s[0] == "R" else "Plain", H(s[1]))


def cq_node(t):
    tab = "None" if t[3] is None else "(Some %s)" % core.coq_list("(%s,%s)" % (H(a), H(b)) for a, b in t[3])
    return "(Node %s %s %s %s %s)" % (H(t[0]), H(t[1]), cq_slot(t[2]), tab, core.coq_list(cq_node(c) for c in t[4]))


def cq_sym(r):
    name, typed, sdt, init, intf, mem = r
    return "(Build_sym %s %s %s %s %s %s)" % (
        H(name), "true" if typed else "false", H(sdt), "None" if init is None else "(Some %s)" % cq_node(init),
        "(ILocal %s)" % H(intf[1]) if intf[0] == "L" else "(IImport %s)" % H(intf[1]),
        core.coq_list(H(m) for m in mem))


def cq_obj(o):
    return "(Build_aobj %s %s %s)" % (
        core.coq_list(cq_node(e) for e in o[0]), core.coq_list(H(x) for x in o[1]), H(o[2]))


def cq_case(ser, t, obs, ct, safe, hyps, text_equal):
    ss, oo = closure(ser, t)
    return ("{| c_syms := %s; c_objs := %s; c_root := %s; c_off := %s; c_soff := %s; c_ooff := %s; "
            "c_copy := %s; c_csyms := %s; c_cobjs := %s; c_safe := %s; c_hyps := %s; c_text_equal := %s |}" % (
                core.coq_list("(%s, %s)" % (H(s), cq_sym(ser.syms[s])) for s in sorted(ss)),
                core.coq_list("(%s, %s)" % (H(o), cq_obj(ser.objs[o])) for o in sorted(oo)),
                cq_node(t), H(OFF), H(SOFF), H(OOFF), cq_node(ct),
                core.coq_list("(%s, %s)" % (H(s), cq_sym(r)) for s, r in sorted(obs.csyms.items())),
                core.coq_list("(%s, %s)" % (H(o), cq_obj(r)) for o, r in sorted(obs.cobjs.items())),
                "true" if safe else "false", "true" if hyps else "false", "true" if text_equal else "false"))


# ------------------------------------------------------------------ the property on the implementation
def culprit(o, c):
    if type(o) is not type(c) or len(o.children) != len(c.children):
        return o, c
    for a, b in zip(o.children, c.children):
        if not a == b:
            return culprit(a, b)
    return o, c


def why_not_equal(o, c):
    """site/reason of `copy != original`"""
    N, _ = P()
    a, b = culprit(o, c)
    k = type(a).__name__
    if type(a) is not type(b) or len(a.children) != len(b.children):
        return "Node.copy/structure-differs:" + k
    if (isinstance(a, N.Routine) and a.return_symbol is not None and b.return_symbol is not None
            and a.return_symbol is not b.return_symbol and a.return_symbol.name == b.return_symbol.name
            and a.name == b.name and a.is_program == b.is_program and a.symbol_table == b.symbol_table):
        return "Routine.__eq__/return-symbol-compared-by-identity"
    return "copy_equal/%s-not-equal" % k


def direct_checks(o, c, ser):
    """-> list of (key, detail) property failures that need no edit"""
    N, S = P()
    out = []
    try:
        eq = (c == o)
    except Exception as e:                                      # noqa
        eq = False
        out.append(("copy_equal/eq-raises:" + type(e).__name__, str(e)[:200]))
    if not eq and not out:
        out.append((why_not_equal(o, c), "copy == original is False"))
    on, cn = o.walk(N.Node), c.walk(N.Node)
    if len(on) != len(cn):
        out.append(("Node.copy/structure-differs:" + type(o).__name__, "walk lengths %d/%d" % (len(on), len(cn))))
        return out
    oid = {id(x) for x in on}
    shared = [type(x).__name__ for x in cn if id(x) in oid]
    if shared:
        out.append(("Node.copy/node-shared:" + shared[0], "%d node objects shared" % len(shared)))
    if c.parent is not None:
        out.append(("Node.copy/copy-has-parent", type(c.parent).__name__))
    # symbols of copied scopes: pairwise new objects, same names
    m = {}
    for a, b in zip(on, cn):
        if isinstance(a, N.ScopingNode):
            ta, tb = a.symbol_table, b.symbol_table
            if tb is ta or tb.node is not b:
                out.append(("ScopingNode._refine_copy/table-not-own", type(a).__name__))
            la, lb = list(ta._symbols.items()), list(tb._symbols.items())
            if [k for k, _ in la] != [k for k, _ in lb]:
                out.append(("deep_copy/table-keys-differ", "%s vs %s" % ([k for k, _ in la][:6], [k for k, _ in lb][:6])))
                continue
            for (_, sa), (_, sb) in zip(la, lb):
                if sa is sb:
                    out.append(("deep_copy/symbol-object-shared:" + type(sa).__name__, sa.name))
                if sa.name != sb.name or type(sa) is not type(sb):
                    out.append(("deep_copy/symbol-differs", "%s/%s" % (sa.name, sb.name)))
                m[id(sa)] = sb
                if isinstance(sa, S.DataSymbol) and sa.initial_value is not None and sb is not sa \
                        and isinstance(sb, S.DataSymbol) and sb.initial_value is not None:
                    ia = {id(x) for x in sa.initial_value.walk(N.Node)}
                    if any(id(x) in ia for x in sb.initial_value.walk(N.Node)):
                        out.append(("DataSymbol.copy/initial-value-node-shared", sa.name))
            own_a = {id(x) for _, x in la}
            own_b = {id(x) for _, x in lb}
            for (_, sa), (_, sb) in zip(la, lb):
                if isinstance(sa.interface, S.ImportInterface) and id(sa.interface.container_symbol) in own_a:
                    if not (isinstance(sb.interface, S.ImportInterface)
                            and id(sb.interface.container_symbol) in own_b):
                        out.append(("deep_copy/import-container-not-rebound", sa.name))
            if sorted(ta._tags) != sorted(tb._tags) or any(tb._tags[g] is not m.get(id(x)) for g, x in ta._tags.items()):
                out.append(("deep_copy/tags-not-own", type(a).__name__))
            la, lb = ta.argument_list, tb.argument_list
            if [x.name for x in la] != [x.name for x in lb] or any(m.get(id(x)) is not y for x, y in zip(la, lb)):
                out.append(("deep_copy/argument-list-not-own", type(a).__name__))
    # general identity oracle: no symbol object declared in the ORIGINAL's copied scopes is reachable from the
    # copy's nodes or from the attributes of the copy's symbols (datatypes, initial values, interfaces,
    # GenericInterfaceSymbol.routines, import containers, return symbols) — the classes of the known findings
    # (KEY_OF_KIND / structure components) are the only ones excused here; they are demonstrated by edits
    orig_own = {}
    for a in on:
        if isinstance(a, N.ScopingNode):
            for x in a.symbol_table.symbols:
                orig_own[id(x)] = x
    for ident, kinds in reach_paths(c, ser).items():
        if ident in orig_own:
            for k in sorted(kinds):
                if k in KEY_OF_KIND or k.startswith("structure-component:"):
                    continue
                out.append(("copy/%s-is-a-symbol-of-the-original" % k,
                            "the copy reaches the original's symbol '%s' as %s" % (orig_own[ident].name, k)))
    # references inside the copy
    for a, b in zip(on, cn):
        for what, sa, sb in ((("reference", a.symbol, b.symbol),) if isinstance(a, N.Reference) else ()) + \
                ((("loop-variable", a._variable, b._variable),) if isinstance(a, N.Loop) and a._variable is not None else ()) + \
                ((("return-symbol", a.return_symbol, b.return_symbol),)
                 if isinstance(a, N.Routine) and a.return_symbol is not None else ()):
            if id(sa) in m:
                if sb is not m[id(sa)]:
                    out.append(("ScopingNode._refine_copy/%s-not-rebound" % what,
                                "%s '%s' of the copy does not resolve to the copy's own table" % (what, sa.name)))
            elif sb is not sa:
                out.append(("ScopingNode._refine_copy/%s-outside-symbol-changed" % what, sa.name))
    return out


def reach_paths(root, ser):
    """id(object) -> set of path kinds by which the tree `root` (nodes + tables of its scopes) reaches it"""
    N, S = P()
    paths = {}

    def add(o, kind):
        paths.setdefault(id(o), set()).add(kind)

    def expr(e, kind):
        for x in e.walk(N.Node):
            add(x, "attr-node")
            if isinstance(x, N.Reference):
                add(x.symbol, kind)
            if isinstance(x, N.Literal) and isinstance(x.datatype.precision, S.DataSymbol):
                add(x.datatype.precision, kind)

    for n in root.walk(N.Node):
        add(n, "node")
        if isinstance(n, N.Reference):
            add(n.symbol, "reference")
        if isinstance(n, N.Loop) and n._variable is not None:
            add(n._variable, "loop-variable")
        if isinstance(n, N.Literal) and isinstance(n.datatype.precision, S.DataSymbol):
            add(n.datatype.precision, "literal-precision")
        if isinstance(n, N.Routine) and n.return_symbol is not None:
            add(n.return_symbol, "return-symbol")
        if isinstance(n, N.ScopingNode):
            for s in n.symbol_table.symbols:
                add(s, "table-symbol")
                if isinstance(s.interface, S.ImportInterface):
                    add(s.interface.container_symbol, "import-container")
                else:
                    add(s.interface, "interface-object")
                if type(s).__name__ in TYPED:
                    try:
                        _, _, _, kinds = ser.collect(s.datatype, lambda x: 0, lambda e: 0)
                    except Exception:                           # noqa  (edited trees may hold odd datatypes)
                        kinds = []
                    for kind, obj in kinds:
                        if isinstance(obj, N.Node):
                            expr(obj, kind)
                        else:
                            add(obj, kind)
                if isinstance(s, S.DataSymbol) and s.initial_value is not None:
                    expr(s.initial_value, "initial-value")
                if isinstance(s, S.GenericInterfaceSymbol):
                    for r in s.routines:
                        add(r.symbol, "interface-member")
    return paths


KEY_OF_KIND = {
    "array-bound": "deep_copy/datatype-symbol-not-rebound:array-bound",
    "precision": "deep_copy/datatype-symbol-not-rebound:precision",
    "type-symbol": "deep_copy/datatype-symbol-not-rebound:type-symbol",
    "initial-value": "DataSymbol.copy/initial-value-not-rebound",
    "literal-precision": "Node.copy/literal-precision-symbol-not-rebound",
    "interface-object": "TypedSymbol.copy/interface-object-shared",
    "datatype-object": "TypedSymbol.copy/datatype-object-shared",
}


def classify(touched, b_root, ser):
    """reason codes for 'editing these objects of side A changed the text of side B'"""
    paths = reach_paths(b_root, ser)
    keys = set()
    for kind_of_touch, obj in touched:
        for k in paths.get(id(obj), ()):
            if kind_of_touch == "sym" and k in ("interface-object", "datatype-object"):
                continue
            if k.startswith("structure-component:"):
                keys.add("deep_copy/datatype-symbol-not-rebound:structure-component")
            elif k in KEY_OF_KIND:
                keys.add(KEY_OF_KIND[k])
            else:
                keys.add("copy/%s-shared-with-other-tree" % k)
    return sorted(keys) or ["copy/unexplained-dependence"]


# ------------------------------------------------------------------ edits
RET_RENAMED_KEY = "Routine.copy/raises-KeyError-after-rename-of-return-symbol"


class Edit:
    def __init__(self, kind, desc, touched, inplace=False):
        self.kind, self.desc, self.touched, self.inplace = kind, desc, touched, inplace


def own_scopes(a):
    N, _ = P()
    return a.walk(N.ScopingNode)


def random_edit(rng, a, allow_inplace, counter, only=None):
    """apply one random edit to tree `a` (its nodes, the symbols of its own scopes).  Returns Edit or None
    (nothing applicable / rejected by PSyclone).  `only` restricts the kinds (edits made BEFORE a copy)."""
    N, S = P()
    scopes = own_scopes(a)
    own_syms = [(sc, s) for sc in scopes for s in sc.symbol_table.symbols]
    data_syms = [(sc, s) for sc, s in own_syms if type(s) is S.DataSymbol]
    kinds = ["rename", "rename", "new_symbol", "replace_expr", "detach", "set_datatype", "set_init", "retarget",
             "shadow_symbol"]
    kinds += ["remove_add"]
    if allow_inplace:
        kinds += ["inplace_interface", "inplace_struct", "inplace_bound"]
    if only is not None:
        kinds = [k for k in kinds if k in only]
    kind = rng.choice(kinds)
    counter[0] += 1
    uid = counter[0]
    try:
        if kind == "rename" and own_syms:
            sc, s = rng.choice(own_syms)
            members = [(c2, r.symbol) for c2, g in own_syms if isinstance(g, S.GenericInterfaceSymbol)
                       for r in g.routines if r.symbol in c2.symbol_table.symbols]
            if members and rng.random() < 0.4:              # a specific routine of a generic interface
                sc, s = rng.choice(members)
            if only is not None and any(r.return_symbol is s for r in a.walk(N.Routine)):
                return None     # (before a copy: renaming a function's return symbol makes every later copy() and
                #                 hence FortranWriter raise — known finding RET_RENAMED_KEY, replayed as a witness)
            new = rng.choice(["%s_r%d", "%s_R%d", "X%s%d"]) % (s.name[:6], uid)
            old = s.name
            sc.symbol_table.rename_symbol(s, new)           # (re-inserts the symbol at the END of the table)
            if isinstance(s, S.RoutineSymbol):              # keep the Routine node of that name in step
                for r in a.walk(N.Routine):
                    if r.name.lower() == old.lower() and r is not sc:
                        try:
                            r.name = new
                        except Exception:                       # noqa
                            pass
            return Edit(kind, "rename_symbol(%s -> %s) in %s" % (old, new, type(sc).__name__), [("sym", s)])
        if kind == "remove_add":                            # remove + re-add: moves the symbol to the end
            cands = [(c2, x) for c2, x in own_syms if isinstance(x, (S.RoutineSymbol, S.ContainerSymbol))
                     and not isinstance(x, S.GenericInterfaceSymbol)]
            if cands:
                sc, x = rng.choice(cands)
                sc.symbol_table.remove(x)
                sc.symbol_table.add(x)
                return Edit(kind, "remove+add %s in %s" % (x.name, type(sc).__name__), [("sym", x)])
        if kind in ("new_symbol", "shadow_symbol") and scopes:
            sc = rng.choice(scopes)
            if kind == "shadow_symbol":
                outer = [s.name for s in a.walk(N.Routine)[0].symbol_table.symbols] if a.walk(N.Routine) else []
                nm = rng.choice(outer) if outer else "zz"
                if nm in sc.symbol_table._symbols:
                    return None
                s = S.DataSymbol(nm, S.INTEGER_TYPE)
                sc.symbol_table.add(s)
            else:
                root = rng.choice(["i", "s", "tmp", "nb", "a", "tmpVal", "NB", "Idx"])
                s = sc.symbol_table.new_symbol(root, symbol_type=S.DataSymbol, datatype=S.INTEGER_TYPE)
            scheds = [x for x in a.walk(N.Schedule) if x is sc or x.ancestor(type(sc), include_self=False) is sc
                      or sc in _ancestors(x)]
            if scheds and rng.random() < 0.7:
                rng.choice(scheds).addchild(N.Assignment.create(N.Reference(s), N.Literal(str(uid), S.INTEGER_TYPE)))
            return Edit(kind, "%s '%s' in %s" % (kind, s.name, type(sc).__name__), [("sym", s)])
        if kind == "replace_expr":
            cands = [x for x in a.walk((N.Literal, N.Reference)) if x is not a and x.parent is not None
                     and isinstance(x.parent, (N.BinaryOperation, N.UnaryOperation))
                     and type(x) in (N.Literal, N.Reference)]
            if cands:
                x = rng.choice(cands)
                x.replace_with(N.Literal(str(100 + uid), S.INTEGER_TYPE))
                return Edit(kind, "replace %s by literal" % type(x).__name__, [("node", x)])
        if kind == "detach":
            cands = [x for x in a.walk((N.Assignment, N.IfBlock, N.Loop, N.Call)) if x is not a
                     and type(x.parent) in (N.Schedule, N.Routine)]
            if cands:
                x = rng.choice(cands)
                x.detach()
                return Edit(kind, "detach %s" % type(x).__name__, [("node", x)])
        if kind == "set_datatype" and data_syms:
            sc, s = rng.choice(data_syms)
            others = [t for _, t in data_syms if t is not s and not t.is_array]
            c = rng.random()
            if c < 0.4 and others:
                s.datatype = S.ArrayType(S.INTEGER_TYPE, [S.ArrayType.ArrayBounds(
                    N.Literal("1", S.INTEGER_TYPE), N.Reference(rng.choice(others)))])
            elif c < 0.7 and others:
                s.datatype = S.ScalarType(S.ScalarType.Intrinsic.INTEGER, rng.choice(others))
            else:
                s.datatype = rng.choice([S.REAL_TYPE, S.ArrayType(S.REAL_TYPE, [5]), S.INTEGER_TYPE])
            return Edit(kind, "%s.datatype = <new %s>" % (s.name, type(s.datatype).__name__), [("sym", s)])
        if kind == "set_init" and data_syms:
            sc, s = rng.choice(data_syms)
            if s.is_argument or s.is_import or s.is_unresolved:
                return None
            s.initial_value = N.Literal(str(uid), S.INTEGER_TYPE)
            return Edit(kind, "%s.initial_value = %d" % (s.name, uid), [("sym", s)])
        if kind == "retarget":
            refs = [x for x in a.walk(N.Reference) if type(x) is N.Reference and not isinstance(x.parent, N.Call)]
            targets = []
            if refs:
                x = rng.choice(refs)
                anc = _ancestors(x)                         # only symbols visible from the reference (well-scoped)
                targets = [t for sc, t in data_syms if not t.is_array and sc in anc]
            if refs and targets:
                t = rng.choice(targets)
                x.symbol = t
                return Edit(kind, "Reference.symbol = %s" % t.name, [("node", x)])
        if kind == "inplace_interface":
            cands = [s for _, s in own_syms if isinstance(s.interface, S.ArgumentInterface)]
            if cands:
                s = rng.choice(cands)
                acc = S.ArgumentInterface.Access
                s.interface.access = acc.READ if s.interface.access is not acc.READ else acc.READWRITE
                return Edit(kind, "%s.interface.access = %s (in place)" % (s.name, s.interface.access.name),
                            [("intf", s.interface)], True)
        if kind == "inplace_struct":
            cands = [s for _, s in own_syms if isinstance(s, S.DataTypeSymbol) and isinstance(s.datatype, S.StructureType)]
            if cands:
                s = rng.choice(cands)
                s.datatype.add("z%d" % uid, S.INTEGER_TYPE, S.Symbol.Visibility.PUBLIC, None)
                return Edit(kind, "%s.datatype.add(z%d) (in place)" % (s.name, uid), [("dtype", s.datatype)], True)
        if kind == "inplace_bound":
            cands = []
            for _, s in data_syms:
                if isinstance(s.datatype, S.ArrayType):
                    for d in s.datatype._shape:
                        if isinstance(d, S.ArrayType.ArrayBounds) and type(d.upper) is N.Reference:
                            cands.append((s, d.upper))
            targets = [t for _, t in data_syms if not t.is_array]
            if cands and targets:
                s, ref = rng.choice(cands)
                t = rng.choice([x for x in targets if x is not ref.symbol] or targets)
                ref.symbol = t
                return Edit(kind, "bound of %s re-targeted to %s (in place)" % (s.name, t.name),
                            [("dtype", s.datatype)], True)
    except Exception as e:                                      # noqa  (PSyclone refused the edit)
        return Edit("rejected", "%s rejected: %s" % (kind, type(e).__name__), [])
    return None


def _ancestors(x):
    out = []
    p = x.parent
    while p is not None:
        out.append(p)
        p = p.parent
    return out


# ------------------------------------------------------------------ deterministic witnesses of the findings
WITNESSES = [
    ("deep_copy/datatype-symbol-not-rebound:array-bound",
     "subroutine s()\n integer :: m\n real, dimension(m) :: b\n b(1) = 1.0\nend subroutine\n",
     ("rename", "m", "mm")),
    ("deep_copy/datatype-symbol-not-rebound:precision",
     "subroutine s()\n integer, parameter :: wp = 8\n real(kind=wp) :: b\n b = 1.0\nend subroutine\n",
     ("rename", "wp", "wq")),
    ("Node.copy/literal-precision-symbol-not-rebound",
     "subroutine s()\n integer, parameter :: wp = 8\n real :: b\n b = 1.0_wp\nend subroutine\n",
     ("rename", "wp", "wq")),
    ("DataSymbol.copy/initial-value-not-rebound",
     "subroutine s()\n integer, parameter :: m = 3\n integer, parameter :: k = m + 1\n integer :: b\n b = k\nend subroutine\n",
     ("rename", "m", "mm")),
    ("deep_copy/datatype-symbol-not-rebound:type-symbol",
     "subroutine s()\n type :: tt\n  integer :: j\n end type\n type(tt) :: x\n x%j = 1\nend subroutine\n",
     ("rename", "tt", "uu")),
    ("TypedSymbol.copy/interface-object-shared",
     "subroutine s(x)\n integer, intent(inout) :: x\n x = 1\nend subroutine\n",
     ("access", "x")),
    ("TypedSymbol.copy/datatype-object-shared",
     "subroutine s()\n type :: tt\n  integer :: j\n end type\n type(tt) :: x\n x%j = 1\nend subroutine\n",
     ("structadd", "tt")),
    (RET_RENAMED_KEY,
     "module m\ncontains\n integer function f2(a)\n  integer, intent(in) :: a\n  f2 = a + 1\n end function f2\nend module m\n",
     ("rename_ret", "f2", "f2_ret")),
    ("Routine.__eq__/return-symbol-compared-by-identity",
     "integer function f(a)\n integer, intent(in) :: a\n f = a + 1\nend function\n",
     ("eq",)),
]


def apply_witness_edit(r, ed):
    _, S = P()
    st = r.symbol_table
    if ed[0] == "rename":
        s = st.lookup(ed[1])
        st.rename_symbol(s, ed[2])
        return [("sym", s)], False
    if ed[0] == "access":
        s = st.lookup(ed[1])
        s.interface.access = S.ArgumentInterface.Access.READ
        return [("intf", s.interface)], True
    if ed[0] == "structadd":
        s = st.lookup(ed[1])
        s.datatype.add("z", S.INTEGER_TYPE, S.Symbol.Visibility.PUBLIC, None)
        return [("dtype", s.datatype)], True
    raise ValueError(ed)


def replay_witnesses(ctx):
    from psyclone.psyir.frontend.fortran import FortranReader
    N, _ = P()
    for key, src, ed in WITNESSES:
        t = FortranReader().psyir_from_source(src)
        r = t.walk(N.Routine)[0]
        if ed[0] == "rename_ret":
            try:
                r.symbol_table.rename_symbol(r.symbol_table.lookup(ed[1]), ed[2])
                t.copy()
                ctx.hist("witness", "rename-of-return-symbol:no-longer-reproduces")
            except KeyError as e:
                ctx.hist("witness", "rename-of-return-symbol:reproduces")
                ctx.finding(key, "copy() raises KeyError after rename_symbol() of a function's return symbol",
                            {"source": src, "edit": "function table: rename_symbol(lookup('f2'), 'f2_ret')",
                             "observed": "copy() raises KeyError: " + str(e)[:120], "expected": "a copy",
                             "replay": "t = FortranReader().psyir_from_source(source); r = t.walk(Routine)[0]; "
                                       "r.symbol_table.rename_symbol(r.symbol_table.lookup('f2'), 'f2_ret'); t.copy()"})
            except Exception:                                   # noqa  (rename refused: fixed differently)
                ctx.hist("witness", "rename-of-return-symbol:refused")
            continue
        try:
            c = r.copy()
        except Exception as e:                                  # noqa
            ctx.finding("Node.copy/raises:%s" % type(e).__name__, "copy() raises on a valid tree",
                        {"source": src, "subtree": "Routine", "error": str(e).split("\n")[0][:300],
                         "replay": "FortranReader().psyir_from_source(source).walk(Routine)[0].copy()"})
            continue
        if ed[0] == "eq":
            if not (c == r):
                k = why_not_equal(r, c)
                ctx.finding(k, "copy of a function is not == to the original",
                            {"source": src, "replay": "r = FortranReader().psyir_from_source(src).walk(Routine)[0]; r.copy() == r",
                             "observed": False, "expected": True})
            continue
        before = write_tree(c)
        touched, inplace = apply_witness_edit(r, ed)
        after = write_tree(c)
        if before != after:
            for k in classify(touched, c, Ser()):
                ctx.finding(k, "editing the original after copy() changes the copy's written code",
                            {"source": src, "edit_on_original": list(ed), "copy_text_before": before,
                             "copy_text_after": after,
                             "replay": "r = FortranReader().psyir_from_source(source).walk(Routine)[0]; c = r.copy(); "
                                       "apply the edit to r; compare FortranWriter()(c) before/after"})
        ctx.hist("witness", "%s:%s" % (key.split("/")[-1], "reproduces" if before != after else "no-longer-reproduces"))


# ------------------------------------------------------------------ one subtree = one case
def indep_failure(applied, touched, before, after, side, safe, src, kname, pos, dseed, b_root, ser):
    e = applied[-1]
    return {"keys": classify(touched, b_root, ser), "side_edited": side, "edit": e.desc,
            "inplace": any(x.inplace for x in applied), "edits_before": [x.desc for x in applied[:-1]],
            "safe": safe, "source": src, "subtree": kname, "abs_position": pos, "decorate_seed": dseed,
            "diff": "\n".join(difflib.unified_diff(before.split("\n"), after.split("\n"), lineterm="", n=0))[:800]}


def subtree_path(root, n):
    return n.abs_position - root.abs_position if root is not n else 0


def pick_subtrees(rng, tree, per_prog):
    N, _ = P()
    allnodes = tree.walk(N.Node)
    must = [n for n in allnodes if isinstance(n, (N.Routine, N.Container))]
    rest = [n for n in allnodes if not isinstance(n, (N.Routine, N.Container))]
    by = {}
    for n in rest:
        by.setdefault(type(n).__name__, []).append(n)
    chosen = list(must)
    klasses = sorted(by)
    rng.shuffle(klasses)
    # statements and scoping bodies first, expressions after
    prio = [k for k in klasses if k in ("Loop", "IfBlock", "Schedule", "Assignment", "Call")] + \
           [k for k in klasses if k not in ("Loop", "IfBlock", "Schedule", "Assignment", "Call")]
    i = 0
    while len(chosen) < per_prog and any(by.values()):
        k = prio[i % len(prio)]
        i += 1
        if by[k]:
            chosen.append(by[k].pop(rng.randrange(len(by[k]))))
    return chosen


def run_case(ctx, rng, src, feats, prog_idx, tree, ser, n, results, counter):
    """copy subtree n of `tree`; record the Coq case; evaluate the property on the implementation."""
    N, S = P()
    kname = type(n).__name__
    pos = n.abs_position
    t = ser.node(n)
    ser.flush()
    safe = safe_py(ser, t)
    text_o = write_tree(n)
    try:
        c = n.copy()
    except Exception as e:                                      # noqa
        key = "Node.copy/raises:%s" % type(e).__name__
        if isinstance(e, KeyError) and any(r.return_symbol is not None and r.name.lower() not in r.symbol_table._symbols
                                           for r in n.walk(N.Routine)):
            key = RET_RENAMED_KEY       # rename_symbol was accepted on a function's return symbol: name <-> table broken
        results["direct"].append((key,
                                  "copy() raises on a valid tree: " + str(e).split("\n")[0][:300], src, kname, pos,
                                  results["decor_seed"][prog_idx]))
        ctx.count((hashlib.sha1(src.encode()).hexdigest(), pos), nontrivial=False)
        return
    text_c = write_tree(c)
    ctx.hist("subtree_kind", kname)
    ctx.hist("safe(no symbol of copied scopes in datatypes)", safe)
    ctx.hist("owned_symbols", min(len(t_owned(t)), 20) // 5 * 5)
    obs = Obs(ser)
    case = None
    try:
        obs.tables(n, c)
        ct = obs.node(n, c)
        obs.symbols()
        case = cq_case(ser, t, obs, ct, safe, True, text_o == text_c)
    except CopyBroken as e:
        results["broken"].append((src, kname, pos, str(e)))
    if case is not None:
        results["cases"].append(case)
        results["meta"].append({"prog": prog_idx, "kind": kname, "abs_position": pos, "source": src})
    # --- the property itself
    fails = direct_checks(n, c, ser)
    # the writer is context dependent for expressions (parentheses, `call` for a Call without a Schedule
    # parent): the text of a detached copy is compared with the in-tree text for statements / scopes only
    stmt_like = isinstance(n, (N.Routine, N.Container, N.Schedule, N.Loop, N.IfBlock, N.Assignment)) or \
        (isinstance(n, N.Call) and isinstance(n.parent, N.Schedule))
    if text_o != text_c and not text_o.startswith("WRITER-ERROR") and stmt_like:
        ctx.hist("copy_text_differs_from_original_text", kname)
        fails.append(("copy_equal/written-text-differs:" + kname,
                      "\n".join(difflib.unified_diff(text_o.split("\n"), text_c.split("\n"), lineterm="", n=0))[:600]))
    for key, detail in fails:
        results["direct"].append((key, detail, src, kname, pos, results["decor_seed"][prog_idx]))
    # --- edits
    n_acc = 0
    for side in ("original", "copy"):
        for trial in range(results["trials"]):
            # fresh pair for every sequence
            tree2 = _reread(src, results["decor_seed"][prog_idx])
            o2 = tree2.walk(N.Node)[pos]
            try:
                c2 = o2.copy()
            except Exception:                                   # noqa  (already reported above for this subtree)
                continue
            a, b_root, b = (o2, c2, c2) if side == "original" else (c2, tree2, o2)
            allow_inplace = rng.random() < 0.25
            whole = side == "copy" and rng.random() < results["whole_root"]
            before = write_tree(b)
            before_root = write_tree(b_root) if whole else None
            applied = []
            failed = False
            for _ in range(rng.randint(1, results["seq_len"])):
                e = random_edit(rng, a, allow_inplace, counter)
                if e is None:
                    continue
                ctx.hist("edit", e.kind)
                if e.kind == "rejected":
                    continue
                applied.append(e)
                n_acc += 1
                after = write_tree(b)
                if after != before:
                    failed = True
                    results["indep"].append(indep_failure(applied, e.touched, before, after, side, safe, src, kname, pos,
                                                          results["decor_seed"][prog_idx], b_root, ser))
                    break
            if whole and not failed and applied:
                after_root = write_tree(b_root)
                if after_root != before_root:
                    touched = [x for e in applied for x in e.touched]
                    results["indep"].append(indep_failure(applied, touched, before_root, after_root, side, safe, src, kname,
                                                          pos, results["decor_seed"][prog_idx], b_root, ser))
            ctx.hist("edit_sequences", side)
    ctx.count((hashlib.sha1(src.encode()).hexdigest(), pos), nontrivial=(n_acc > 0))
    if len(ctx.cov["samples"]) < 4 and kname in ("Routine", "Loop", "Container") and n_acc:
        ctx.sample({"subtree": kname, "abs_position": pos, "features": feats, "owned_symbols": len(t_owned(t)),
                    "safe": safe, "copy_equal": not any(k.startswith(("copy_equal", "Routine.__eq__")) for k, _ in fails),
                    "accepted_edits": n_acc, "source_head": src[:300]})


_CACHE = {}
PRE_KINDS = ("rename", "new_symbol", "shadow_symbol", "remove_add", "detach", "retarget")


def pre_edits(rng, tree):
    """edits made BEFORE any copy is taken (what transformations do): they leave symbol tables in orders the
    frontend never produces (rename_symbol / remove+add re-insert at the end, new symbols interleave)"""
    done = []
    counter = [50000]
    for _ in range(rng.choice([0, 1, 2, 3, 5])):
        e = random_edit(rng, tree, False, counter, only=PRE_KINDS)
        if e is not None and e.kind != "rejected":
            done.append(e.desc)
    return done



def _reread(src, decor_seed):
    """a fresh, identically decorated tree for the same source (= FortranReader.psyir_from_source, with
    the fparser2 parse tree cached: parsing is 50x the cost of building the PSyIR)"""
    import random
    from fparser.common.readfortran import FortranStringReader
    from fparser.common.sourceinfo import FortranFormat
    from fparser.two.symbol_table import SYMBOL_TABLES
    from psyclone.psyir.frontend.fortran import FortranReader
    if src.startswith("!api:"):
        _, seed, k = src.split("\n")[0].split(":")
        r = random.Random(int(seed))
        t = build_api_program(r, int(k))
        pre_edits(r, t)
        return t
    rd = FortranReader()
    if src not in _CACHE:
        if len(_CACHE) > 8:
            _CACHE.clear()
        SYMBOL_TABLES.clear()
        sr = FortranStringReader(src)
        sr.set_format(FortranFormat(True, False))
        _CACHE[src] = rd._parser(sr)
    t = rd._processor.generate_psyir(_CACHE[src])
    r = random.Random(decor_seed)
    decorate(r, t)
    if decor_seed % 2:
        api_decorate(r, t)
    pre_edits(r, t)
    return t


# ------------------------------------------------------------------ main
def run(ctx):
    ctx.cov["rule"] = (
        "generated Fortran units (fortgen statement bodies + declarations toggling: parameter in array bound, "
        "kind parameter + kind literal, initial value referring to a parameter, saved initial value, derived type, "
        "import, arguments with argument-dependent bound, module with module-level kind, sibling subroutine call, "
        "function) read by the real frontend, decorated with shadowing symbols in inner scopes and (half of them) "
        "with mixed-case temporaries / loop counters / tags / case-only clashes created through the PSyIR API; "
        "every third program is a module built entirely through the API (mixed / upper-case data, routine and "
        "container symbols, a generic interface whose member may be declared after it); reader modules may hold "
        "generic interfaces over module procedures and over imported procedures; loop variables and references also "
        "target module variables, saved locals and dummy arguments declared in the copied scope; every tree then receives 0-5 "
        "random edits BEFORE any copy (rename_symbol, remove+add, new/shadow symbol, detach, re-target: table "
        "orders the frontend never produces); every Routine / "
        "Container plus sampled Loop/IfBlock/Schedule/Assignment/expression subtrees is copied with the real copy(); "
        "edit sequences (rename_symbol, new_symbol, shadow add, replace expression, detach, set datatype, set initial "
        "value, re-target reference; 25% of sequences also in-place interface/StructureType/bound mutation) on one "
        "side, FortranWriter text of the other side compared after every edit.  evaluation = one subtree; "
        "non-trivial = at least one edit accepted by PSyclone; distinct = (source hash, node position)")
    ctx.cov["trusted_base"] = core.BASE_TRUST + [
        "model coq/C15/Model.v is hand-written; tied to Node.copy / ScopingNode._refine_copy / SymbolTable.deep_copy / "
        "<Symbol>.copy by this correspondence run (refines + agrees evaluated by vm_compute)",
        "props/C15/check.py serialiser (PSyIR objects -> identities; fail-closed on unknown node / symbol / datatype classes)",
        "FortranWriter as the observation of 'written code'; Python object identity (`is`) as the observation of sharing"]
    ctx.assumptions = [
        "wf: table keys are the symbols' names and unique, a symbol object is declared in one table, imported symbols' "
        "containers are declared in the same table, new objects get unused identities (checked by wf_b on every case)",
        "wsc: references to a symbol declared in the subtree lie inside the declaring scope (checked by wsc_b on every case)",
        "independence is proved for `valid` edits only: no in-place mutation of a datatype/interface object reachable "
        "from the other tree, and under no_symbol_in_datatypes; the complement is refuted (6 _refuted theorems)"]
    ok, rep = ctx.prove()
    ctx.log("proof ok=%s discharged=%d/%d" % (ok, ctx.cov["discharged"], ctx.cov["obligations"]))

    replay_witnesses(ctx)
    ctx.log("witnesses replayed")

    rng = ctx.rng("gen")
    n_prog = ctx.pick(12, 60)
    per_prog = ctx.pick(9, 14)
    results = {"cases": [], "meta": [], "broken": [], "direct": [], "indep": [], "decor_seed": {},
               "trials": ctx.pick(1, 2), "seq_len": ctx.pick(4, 6), "whole_root": ctx.pick(0.5, 1.0)}
    counter = [0]
    out_of_subset = 0
    for k in range(n_prog):
        src, feats = gen_source(rng, k)
        dseed = rng.randrange(10 ** 9)
        if k % 3 == 2:
            src, feats = "!api:%d:%d\n! built by props/C15/check.py build_api_program(random.Random(seed), k)\n" % (dseed, k), \
                ["api_built"]
        elif dseed % 2:
            feats = feats + ["api_decorated"]
        results["decor_seed"][k] = dseed
        try:
            tree = _reread(src, dseed)
        except Exception as e:                                  # noqa
            ctx.hist("reader_failed", type(e).__name__)
            continue
        for f in feats:
            ctx.hist("feature", f)
        ser = Ser()
        try:
            ser.node(tree)
            ser.flush()
        except OutOfSubset as e:
            out_of_subset += 1
            ctx.hist("out_of_subset", str(e))
            continue
        if max(len(ser.nid), len(ser.sid), len(ser.oid)) >= OFF - 500:
            out_of_subset += 1
            ctx.hist("out_of_subset", "program too large for the id offsets")
            continue
        for n in pick_subtrees(rng, tree, per_prog):
            run_case(ctx, rng, src, feats, k, tree, ser, n, results, counter)
    ctx.notes["programs"] = n_prog
    ctx.notes["out_of_subset_programs"] = out_of_subset

    header = "From PV Require Import C15.Model.\nOpen Scope N_scope."
    cases = results["cases"]
    ctx.log("implementation side done: %d cases; evaluating the model (vm_compute)" % len(cases))
    # exact agreement implies refinement: evaluate `agrees` everywhere, `refines` only where it fails
    bad_exact = ctx.coq_eval_failing(header, "case", "agrees", cases, shard=ctx.pick(25, 40))
    ctx.log("agrees evaluated: %d inexact" % len(bad_exact))
    bad_ref = []
    if bad_exact:
        sub = ctx.coq_eval_failing(header, "case", "refines", [cases[i] for i in bad_exact], shard=ctx.pick(25, 40))
        bad_ref = [bad_exact[j] for j in sub]
    ctx.cov["disagreements_checked"] = len(bad_ref)
    ctx.notes["cases_where_implementation_is_stricter_than_model"] = len([i for i in bad_exact if i not in bad_ref])
    ctx.log("cases=%d refines-failures=%d exact-disagreements=%d broken-copies=%d direct-failures=%d "
            "independence-failures=%d" % (len(cases), len(bad_ref), len(bad_exact), len(results["broken"]),
                                          len(results["direct"]), len(results["indep"])))

    # ---------------- verdicts: concrete failures of the property on the implementation
    # (one report per reason key: the first instance is the replay; the count goes to the evidence)
    concrete = 0
    reported = set()

    def report(key, what, replay):
        ctx.hist("failure_key", key)
        if key not in reported:
            reported.add(key)
            ctx.finding(key, what, replay)

    for key, detail, src, kname, pos, dseed in results["direct"]:
        concrete += 1
        report(key, detail.split("\n")[0][:120],
               {"property": "C15", "source": src, "subtree": kname, "abs_position": pos, "detail": detail,
                "decorate_seed": dseed,
                "replay": "tree = props/C15/check.py:_reread(source, decorate_seed)  (reader + decorate + api_decorate, or "
                          "build_api_program for a `!api:` source; then pre_edits = random edits BEFORE the copy); "
                          "n = tree.walk(Node)[abs_position]; c = n.copy(); "
                          "evaluate ==, node identities, and `ref.symbol is <copy's table entry of that name>`"})
    for src, kname, pos, why in results["broken"]:
        concrete += 1
        report("Node.copy/structure-differs:" + kname, why,
               {"property": "C15", "source": src, "subtree": kname, "abs_position": pos, "detail": why})
    how = ("tree = props/C15/check.py:_reread(source, decorate_seed) (reader + decorate + api_decorate, or "
           "build_api_program for a `!api:` source; then pre_edits = random edits BEFORE the copy), "
           "n = tree.walk(Node)[abs_position], c = n.copy(), apply "
           "`edits_before` then `edit` to the named side, compare FortranWriter text")
    for f in results["indep"]:
        concrete += 1
        if f["safe"] and not f["inplace"]:
            # covered by C15_copy_independent_partial: cannot happen unless the code changed
            ctx.hist("failure_key", "theorem-covered:" + "|".join(f["keys"]))
            if "theorem-covered" not in reported:
                reported.add("theorem-covered")
                ctx.violation(dict(f, property="C15", replay=how,
                                   broken="theorem-covered case: valid edit on one side changed the other side's written "
                                          "code although no datatype mentions a copied symbol"))
            continue
        for key in f["keys"]:
            report(key, "edit of the %s changes the written code of the other tree" % f["side_edited"],
                   dict(f, property="C15", replay=how))
        ctx.hist("independence_failure", "|".join(f["keys"]))
    ctx.notes["concrete_property_failures_seen"] = concrete

    # ---------------- model/implementation or proof broken
    if bad_ref or not ok:
        i = bad_ref[0] if bad_ref else None
        rec = {"property": "C15",
               "broken": ("correspondence `refines`: the implementation's copy shares more / re-binds less than "
                          "coq/C15/Model.v copy") if bad_ref else "proof obligations of Properties/C15.v",
               "proof_report": rep if not ok else None,
               "first_differing_case": results["meta"][i] if i is not None else None,
               "n_differing": len(bad_ref)}
        if any(not no_input for _, no_input in ctx.violations):
            ctx.log("model/proof breakage accompanies the concrete violations above: %s" % rec["broken"])
        else:
            ctx.violation(rec, no_input=True)
