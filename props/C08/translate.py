"""C08 translator (static, fail-closed): reads the fresh-name loop of
DependencyTools._get_dependency_distance in the tree under test and regenerates coq/C08/GenSrc.v.

Recognised shape (anything else raises):

    d_var_name = "d_"+var_name
    idx = 1
    while d_var_name in symbol_map:
        d_var_name = f"d{idx}_{var_name}"
        [idx += 1 | idx = idx + 1]            <- optional; its presence is what GenSrc.v records

GenSrc.v:  Definition src_idx_incremented : bool := true|false.
The theorem C08_dvar_loop (Properties/C08.v) is stated over this constant, so it is re-checked against
what the code says now: without the increment the model of the loop diverges when "d_<x>" and "d1_<x>"
are both taken (refuted, finding); with it the search always terminates (pigeonhole)."""
import ast
import os
import sys
from pathlib import Path

VERIF = Path(__file__).resolve().parent.parent.parent
sys.path.insert(0, str(VERIF))
from vlib import core  # noqa: E402


class Unrecognised(Exception):
    pass


def _is_name(node, name):
    return isinstance(node, ast.Name) and node.id == name


def find_function(tree, cls, fn):
    for node in tree.body:
        if isinstance(node, ast.ClassDef) and node.name == cls:
            for sub in node.body:
                if isinstance(sub, ast.FunctionDef) and sub.name == fn:
                    return sub
    raise Unrecognised("%s.%s not found" % (cls, fn))


def fresh_loop_increments(repo):
    src = (Path(repo) / "src/psyclone/psyir/tools/dependency_tools.py").read_text()
    fn = find_function(ast.parse(src), "DependencyTools", "_get_dependency_distance")
    args = [a.arg for a in fn.args.args]
    if args != ["var_name", "index_read", "index_written"]:
        raise Unrecognised("signature of _get_dependency_distance changed: %s" % args)
    whiles = [n for n in ast.walk(fn) if isinstance(n, ast.While)]
    if len(whiles) != 1:
        raise Unrecognised("expected exactly one while loop, found %d" % len(whiles))
    w = whiles[0]
    t = w.test
    if not (isinstance(t, ast.Compare) and _is_name(t.left, "d_var_name") and len(t.ops) == 1 and
            isinstance(t.ops[0], ast.In) and _is_name(t.comparators[0], "symbol_map")) or w.orelse:
        raise Unrecognised("while condition is not `d_var_name in symbol_map`")
    # the two statements before the loop: d_var_name = "d_"+var_name ; idx = 1
    body = fn.body
    pos = [k for k, s in enumerate(body) if s is w]
    if not pos or pos[0] < 2:
        raise Unrecognised("while loop is not a top-level statement of the function")
    s1, s2 = body[pos[0] - 2], body[pos[0] - 1]
    ok1 = (isinstance(s1, ast.Assign) and len(s1.targets) == 1 and _is_name(s1.targets[0], "d_var_name") and
           isinstance(s1.value, ast.BinOp) and isinstance(s1.value.op, ast.Add) and
           isinstance(s1.value.left, ast.Constant) and s1.value.left.value == "d_" and
           _is_name(s1.value.right, "var_name"))
    ok2 = (isinstance(s2, ast.Assign) and len(s2.targets) == 1 and _is_name(s2.targets[0], "idx") and
           isinstance(s2.value, ast.Constant) and s2.value.value == 1)
    if not (ok1 and ok2):
        raise Unrecognised("initialisation before the while loop is not `d_var_name = \"d_\"+var_name; idx = 1`")
    stmts = list(w.body)
    if not stmts:
        raise Unrecognised("empty while body")
    a = stmts[0]
    v = a.value if isinstance(a, ast.Assign) else None
    ok = (isinstance(a, ast.Assign) and len(a.targets) == 1 and _is_name(a.targets[0], "d_var_name") and
          isinstance(v, ast.JoinedStr) and len(v.values) == 4 and
          isinstance(v.values[0], ast.Constant) and v.values[0].value == "d" and
          isinstance(v.values[1], ast.FormattedValue) and _is_name(v.values[1].value, "idx") and
          isinstance(v.values[2], ast.Constant) and v.values[2].value == "_" and
          isinstance(v.values[3], ast.FormattedValue) and _is_name(v.values[3].value, "var_name"))
    if not ok:
        raise Unrecognised("first statement of the while body is not d_var_name = f\"d{idx}_{var_name}\"")
    rest = stmts[1:]
    if not rest:
        return False
    if len(rest) == 1:
        s = rest[0]
        if (isinstance(s, ast.AugAssign) and _is_name(s.target, "idx") and isinstance(s.op, ast.Add) and
                isinstance(s.value, ast.Constant) and s.value.value == 1):
            return True
        if (isinstance(s, ast.Assign) and len(s.targets) == 1 and _is_name(s.targets[0], "idx") and
                isinstance(s.value, ast.BinOp) and isinstance(s.value.op, ast.Add) and
                ((_is_name(s.value.left, "idx") and isinstance(s.value.right, ast.Constant) and s.value.right.value == 1) or
                 (_is_name(s.value.right, "idx") and isinstance(s.value.left, ast.Constant) and s.value.left.value == 1))):
            return True
    raise Unrecognised("unrecognised statements after the name assignment in the while body")


def generate(repo=None):
    repo = repo or os.environ.get("VERIF_REPO", "/repo")
    inc = fresh_loop_increments(repo)
    text = ("(* GENERATED by props/C08/translate.py from src/psyclone/psyir/tools/dependency_tools.py — do not edit *)\n"
            "Definition src_idx_incremented : bool := %s.\n" % ("true" if inc else "false"))
    core.write_if_changed(core.COQ / "C08" / "GenSrc.v", text)
    return inc


if __name__ == "__main__":
    print("src_idx_incremented =", generate())
